"""Plain replays of the C11 findings (no explorer needed).  /venv/bin/python -m pytest /verif/tests_findings"""
import numpy as np
from accelforge.mapper.FFM._pareto_df.fast_pareto import fast_pareto_mask

INF = float("inf")


def test_2d_sweep_inf():
    assert fast_pareto_mask(np.array([[0, INF], [1, 5]], dtype=np.float32), ["min", "min"]).tolist() == [True, True]


def test_sum_ties_rounding():
    m = np.array([[1, 0, 2**24], [0, 0, 2**24], [0, 1, 0]], dtype=np.float32)
    assert fast_pareto_mask(m, ["min"] * 3).tolist() == [False, True, True]


def test_sum_ties_inf():
    m = np.array([[1, INF, 1], [0, INF, 0], [0, 0, 5]], dtype=np.float32)
    assert fast_pareto_mask(m, ["min"] * 3).tolist() == [False, True, True]


def test_float64_not_downcast():
    m = np.array([[0, INF], [0, 1.5e308]], dtype=np.float64)
    assert fast_pareto_mask(m, ["min", "min"]).tolist() == [False, True]
