"""Plain replay of the C08 known finding "exactly full assignment lost" (no explorer needed).

    PYTHONPATH=/verif:/repo /venv/bin/python -m pytest /verif/tests_findings/test_c08_known_findings.py

The test asserts the CORRECT behaviour and is marked xfail(strict) while the finding is open: it turns
into an XPASS failure as soon as accelforge keeps the assignment (then move the entry of
known_findings.json to "fixed")."""
import copy

import pytest


@pytest.mark.xfail(strict=True, reason="known finding C08-exactly-full-assignment (float32 capacity test)")
def test_exactly_full_register_assignment_is_kept():
    from accelforge.mapper.FFM._make_pmappings.make_pmappings_from_templates import make_tile_shapes as MTS
    from mc import afx
    from mc.checks import c08

    afx.serial()
    wl, arch, spec, jobs = c08.fixture("MM1-662/H3/EL", False)
    job = next(j for j in jobs if j.mapping.compact_str() ==
               "[W0 in Main] [T1 in Main] [T0 in Main] T-k  T-n  [W0 in Reg] T-m  [T1 in Reg] T-k  [T0 in Reg] T-n  MAC computes E0")
    df, _ = MTS.make_tile_shapes(copy.deepcopy(job))
    # tile shapes (6, 2) fill the 120-bit Reg exactly: latency 72, energy 7560 (the concrete model accepts it)
    assert float(df["Total<SEP>energy"].min()) == 7560.0
