"""Plain replays of the findings repaired with fix: commits (no explorer needed).

    PYTHONPATH=/repo /venv/bin/python -m pytest -q -p no:cacheprovider /verif/tests_findings
"""
import os
import tempfile

import pytest

from accelforge.frontend.spec import Spec


def _spec(text):
    fd, path = tempfile.mkstemp(suffix=".yaml")
    with os.fdopen(fd, "w") as f:
        f.write(text)
    try:
        return Spec.from_yaml(path)
    finally:
        os.unlink(path)


ARCH = """
arch:
  nodes:
  - !Memory
    name: Main
    size: inf
    leak_power: 0
    area: 0
    tensors: {keep: "~Intermediates", may_keep: "All"}
    actions:
    - {name: read, energy: 1, throughput: inf}
    - {name: write, energy: 1, throughput: inf}
  - !Memory
    name: Buf
    size: inf
    leak_power: 0
    area: 1
    area_scale: 2
    tensors: {KEEP}
    spatial:
    - {name: X, fanout: 5}
    actions:
    - {name: read, energy: 1, throughput: inf}
    - {name: write, energy: 1, throughput: inf}
  - !Compute
    name: MAC
    leak_power: 0
    area: 0
    actions:
    - {name: compute, energy: 1, throughput: 1}
"""
WL = """
workload:
  iteration_space_shape:
    m: 0 <= m < 2
    k: 0 <= k < 2
    n: 0 <= n < 2
  bits_per_value: {All: 8}
  PERSIST
  einsums:
  - name: E0
    tensor_accesses:
    - {name: T0, projection: [m, k]}
    - {name: W0, projection: [k, n]}
    - {name: T1, projection: [m, n], output: True}
  - name: E1
    tensor_accesses:
    - {name: T1, projection: [m, n]}
    - {name: W1, projection: [n, k]}
    - {name: T2, projection: [m, k], output: True}
RENAMES
"""


def build(keep='{may_keep: "All"}', persist="", renames=""):
    return _spec(ARCH.replace("{KEEP}", keep) + WL.replace("PERSIST", persist).replace("RENAMES", renames))


def test_c29_toplevel_per_einsum_rename():
    s = build(renames="renames:\n  einsums:\n  - name: default\n    tensor_accesses: {x: Inputs}\n"
                      "  - name: E1\n    tensor_accesses: {x: Outputs}\n")
    e1 = s._spec_eval_expressions(einsum_name="E1").workload.einsums["E1"]
    assert set(e1.renames["x"].source) == {"T2"}
    e0 = s._spec_eval_expressions(einsum_name="E0").workload.einsums["E0"]
    assert set(e0.renames["x"].source) == {"T0", "W0"}


def test_c22_foreign_tensor_in_rename_is_empty():
    s = build(renames="renames:\n  einsums:\n  - name: default\n    tensor_accesses: {x: W1}\n")
    e0 = s._spec_eval_expressions(einsum_name="E0").workload.einsums["E0"]
    assert set(e0.renames["x"].source) == set()


def test_c22_persistent_set_follows_workload_persistent_tensors():
    s = build(keep='{keep: "Persistent", may_keep: "All"}', persist="persistent_tensors: W0 | W1")
    ev = s._spec_eval_expressions(einsum_name="E0")
    assert set(ev.arch.find("Buf").tensors.keep) == {"W0"}


@pytest.mark.parametrize("bad", ["O[a]=I0[a]*I1[a", "O[a]=I0[a]]", "O[a]=I0[B:2,b]", "O[a]=I0[P:]", "O[B:2[b]=I0[a]"])
def test_c23_malformed_concise_einsum_rejected(bad):
    from accelforge.frontend.workload import _parse_einsum_string

    with pytest.raises(ValueError):
        _parse_einsum_string(bad)


def test_c26_own_fanout_counted_and_c27_idempotent():
    s = build().calculate_component_costs()
    buf = s.arch.find("Buf")
    assert buf.area == 2
    assert buf.total_area == 10  # own fanout 5 x scaled area 2
    s2 = s.calculate_component_costs()
    assert s2.arch.find("Buf").area == 2
    assert s2.arch.find("Buf").total_area == 10


def test_c30_multicast_to_single_destination_has_no_link_traffic():
    from accelforge.frontend._workload_isl._symbolic import Irrelevant
    from accelforge.model._looptree.reuse.symbolic._network import AllToAllTopologyModel, MeshTopologyModel

    class Src:
        def _get_physical_fanout_along(self, d):
            return 1

    for model in (MeshTopologyModel(), AllToAllTopologyModel()):
        c = model.per_loop_transfer_cost(Irrelevant(), shape_repeats=1, last_fanout=1, volume=7,
                                         src_component=Src(), dim_name="X")
        assert c.total_cost == 0 and c.max_traffic == 0


def test_c09_minmax_simplification():
    import sympy
    from accelforge.mapper.FFM._make_pmappings.make_pmappings_from_templates import make_tile_shapes  # noqa: F401

    a = sympy.Symbol("a", positive=True, integer=True)
    assert sympy.Max(3 * a, a + 2) == 3 * a
    assert sympy.Max(2, 3 - a) == 2


def test_c11_f32_max_goal_four_columns():
    import numpy as np
    from accelforge.mapper.FFM._pareto_df.fast_pareto import fast_pareto_mask

    a = np.array([[0, 0, 0, 0], [1, 1, 1, 1]], dtype=np.float32)
    assert list(fast_pareto_mask(a, ["max", "min", "min", "min"])) == [True, True]
    b = np.array([[0, 0, 0, 0], [0, 0, 0, 1], [1, 1, 1, 1], [0, 0, 0, 0]], dtype=np.float32)
    assert list(fast_pareto_mask(b, ["min", "min", "min", "max"])) == [False, True, False, False]
