#!/bin/bash
# Runs every check's quick (default) or thorough tier sequentially and prints one status line each.
# usage: ./run_all.sh [quick|thorough] [IDs...]
cd "$(dirname "$(readlink -f "$0")")"
TIER="${1:-quick}"; shift
IDS="$@"; [ -z "$IDS" ] && IDS=$(./check --list)
for id in $IDS; do
  t0=$(date +%s)
  out=$(./check "$id" --tier "$TIER" 2>&1); rc=$?
  t1=$(date +%s)
  echo "$id rc=$rc wall=$((t1-t0))s known=$(echo "$out" | grep -c '^KNOWN-FINDING') viol=$(echo "$out" | grep -c '^VIOLATION') | $(echo "$out" | tail -1 | cut -c1-160)"
done
