#!/bin/bash
# Offline setup: byte-compile nothing into /verif (PYTHONDONTWRITEBYTECODE), warm numba's
# on-disk cache for the repo's jitted kernels, validate the manifest.
set -e
cd "$(dirname "$(readlink -f "$0")")"
export PYTHONPATH="/verif:/repo" PYTHONHASHSEED=0 TQDM_DISABLE=1
export OMP_NUM_THREADS=1 NUMBA_NUM_THREADS=1
/venv/bin/python - <<'PY'
import json, jsonschema, pathlib
man = json.loads(pathlib.Path("MANIFEST.json").read_text())
sch = pathlib.Path("/root/.vp/MANIFEST.schema.json")
if sch.exists():
    jsonschema.validate(man, json.loads(sch.read_text()))
import accelforge  # noqa
from accelforge.mapper.FFM._pareto_df import fast_pareto
fast_pareto.warmup()
print("setup ok:", len(man["checks"]), "checks")
PY
