#!/bin/bash
# Runs the repository's own test suite (guard OFF) and compares with BASELINE.json's stable_pass.
# usage: ./baseline_check.sh [repo_dir] ; exit 0 iff every stable_pass test passed.
REPO="${1:-/repo}"
OUT="$(mktemp -d)"
unset ACCELFORGE_VERIF
(cd "$REPO" && PYTHONPATH="$REPO" /venv/bin/python -m pytest -ra -q -p no:cacheprovider --timeout=900 \
   --continue-on-collection-errors --junitxml="$OUT/junit.xml" > "$OUT/log" 2>&1)
/venv/bin/python - "$OUT/junit.xml" <<'PY'
import json, sys, xml.etree.ElementTree as ET
b = json.load(open('/root/.vp/BASELINE.json'))
sp = set(b['stable_pass'])
res = {}
for tc in ET.parse(sys.argv[1]).iter('testcase'):
    name = tc.get('classname') + '::' + tc.get('name')
    res[name] = not any(c.tag in ('failure', 'error', 'skipped') for c in tc)
bad = sorted(n for n in sp if not res.get(n))
print(f"stable_pass={len(sp)} passed={len(sp)-len(bad)}")
for n in bad[:40]:
    print("REGRESSION", n)
sys.exit(1 if bad else 0)
PY
rc=$?
tail -2 "$OUT/log"
rm -rf "$OUT"
exit $rc
