#!/bin/bash
# Re-enacts how /verif is exercised: offline env, MANIFEST.setup_cmd, then every check's
# quick_cmd once with its evidence file removed first.  One status line per check.
# usage: ./fresh_quick_pass.sh [IDs...]      (VERIF_SEED defaults to 1)
cd "$(dirname "$(readlink -f "$0")")"
export CARGO_NET_OFFLINE=true GOPROXY=off PIP_NO_INDEX=1 VERIF_SEED="${VERIF_SEED:-1}" VERIF_TIER=quick
unset VERIF_CACHE_ROOT
rm -rf .cache
bash -c "$(jq -r .setup_cmd MANIFEST.json)" || { echo "SETUP FAILED"; exit 2; }
IDS="$@"; [ -z "$IDS" ] && IDS=$(jq -r '.checks[].property_id' MANIFEST.json)
bad=0
for id in $IDS; do
  cmd=$(jq -r --arg id "$id" '.checks[] | select(.property_id==$id) | .quick_cmd' MANIFEST.json)
  evf=$(jq -r --arg id "$id" '.checks[] | select(.property_id==$id) | .evidence_file' MANIFEST.json)
  rm -f "$evf"
  t0=$(date +%s)
  out=$(cd /verif && bash -c "$cmd" 2>&1); rc=$?
  t1=$(date +%s)
  ok=ok; [ -s "$evf" ] || ok=NO-EVIDENCE
  [ $rc -ne 0 ] && bad=1; [ "$ok" != ok ] && bad=1
  echo "$id rc=$rc wall=$((t1-t0))s evidence=$ok known=$(echo "$out" | grep -c '^KNOWN-FINDING') viol=$(echo "$out" | grep -c '^VIOLATION') | $(echo "$out" | tail -1 | cut -c1-200)"
done
exit $bad
