"""Content hash of the accelforge sources a check runs against (cache key)."""

from __future__ import annotations

import hashlib
import os
from pathlib import Path

_CACHE = {}


def repo_dir() -> Path:
    return Path(os.environ.get("VERIF_REPO", "/repo"))


def tree_hash() -> str:
    root = repo_dir() / "accelforge"
    k = str(root)
    if k not in _CACHE:
        h = hashlib.blake2b(digest_size=10)
        for p in sorted(root.rglob("*.py")):
            h.update(str(p.relative_to(root)).encode())
            h.update(p.read_bytes())
        # the reference side lives in /verif/mc: its sources are part of the key too
        mc = Path(__file__).resolve().parent
        keep = {"refspace.py", "afx.py", "specs.py"}
        for p in sorted(mc.rglob("*.py")):
            if p.parent.name != "ref" and p.name not in keep:
                continue
            h.update(str(p.relative_to(mc)).encode())
            h.update(p.read_bytes())
        _CACHE[k] = h.hexdigest()
    return _CACHE[k]


def cache_root() -> Path:
    """Memo directory of THIS invocation.  mc.cli creates a fresh one per ./check run (and
    removes it afterwards), so nothing a run reports was computed by an earlier run: worker
    processes of one run share results through it, different runs share nothing.
    VERIF_CACHE_ROOT may name a persistent directory while developing a check; evidence
    written that way is marked `reused_cache`."""
    root = os.environ.get("VERIF_CACHE_ROOT")
    if not root:
        raise RuntimeError("VERIF_CACHE_ROOT is not set (mc.cli sets it per run)")
    return Path(root)


def cache_dir(kind: str) -> Path:
    d = cache_root() / tree_hash() / kind
    d.mkdir(parents=True, exist_ok=True)
    return d
