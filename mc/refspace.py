"""Reference mapspace evaluation: R-space x real model -> cost points (DESIGN 3.3/3.4).

Single-Einsum specs: every LoopTree of the reference mapspace (mc/ref/mapspace.py) is
evaluated by the real model (`evaluate_mapping`); every *valid* tree gives a point
(energy, latency, usage per memory).

Two-Einsum specs: the mapspace is the set of compatible pairs (one LoopTree per
Einsum agreeing on the shared tensor's backing node and the loops above it; "unfused"
when the shared tensor is backed in the outermost level).  Evaluating every pair by
the model is infeasible beyond the tiniest shapes (10^5-10^6 pairs), so the pair
space is still enumerated exhaustively but each pair's point is composed from
  * per-Einsum energy / latency, read from the model's per-Einsum breakdown of ONE
    merged tree per LoopTree (its first compatible partner), evaluated on a copy of the
    architecture with infinite sizes (costs do not depend on sizes), and
  * the pair's peak occupancy from the explicit occupancy simulation
    (mc/ref/looptree_exec.py), which also decides validity (peak <= size).
The two composition assumptions -- totals add over Einsums, model usage == simulated
peak -- are themselves checked exhaustively by C04/C13 and C06.
Only the Pareto-optimal points (energy, latency, usage) of each chunk are kept; that
is enough for optimum and front comparisons.
Results are memoised for the duration of ONE ./check invocation only (mc.treehash.cache_root:
a directory mc.cli creates per run and removes afterwards), so that a check's phases and
its forked workers share a front while nothing is ever reused from an earlier run.
"""

from __future__ import annotations

import dataclasses
import json
import os
from pathlib import Path

from mc import afx
from mc import specs as S
from mc import treehash
from mc.ref import looptree_exec as X
from mc.ref import mapspace as MS

CHUNK = 40
PAIR_CHUNK = 4000  # pairs per work item in the pair stage


def block_variants(tree):
    """Each storage node of a block of adjacent storage nodes directly above a loop may
    be the one written last (only that one streams); other orders are equivalent."""
    runs = []
    i = 0
    outer = tree[0][1]
    while i < len(tree):
        if tree[i][0] == "S" and tree[i][1] != outer:
            j = i
            while j < len(tree) and tree[j][0] == "S":
                j += 1
            if j - i >= 2 and j < len(tree) and tree[j][0] == "T":
                runs.append((i, j))
            i = j
        else:
            i += 1
    variants = [list(tree)]
    for (a, b) in runs:
        new = []
        for v in variants:
            for k in range(a, b):
                blk = v[a:b]
                last = blk[k - a]
                rest = [x for x in blk if x is not last]
                new.append(v[:a] + rest + [last] + v[b:])
        variants = new
    seen, out = set(), []
    for v in variants:
        key = afx.tree_str(v)
        if key not in seen:
            seen.add(key)
            out.append(v)
    return out


def einsum_trees(arch, wl, einsum, orders="alpha"):
    out = []
    for t in MS.single_einsum_trees(arch, wl, einsum, orders=orders):
        out.extend(block_variants(t))
    return out


def inf_arch(arch: S.Arch) -> S.Arch:
    nodes = [dataclasses.replace(n, size=S.INF) if isinstance(n, S.Mem) and n.kind == "Memory" else n
             for n in arch.nodes]
    return S.Arch(nodes=tuple(nodes), variables=arch.variables)


class Work:
    """The model evaluations needed for one spec, in a fixed order (stage 1), and for
    two-Einsum specs the pair enumeration (stage 2)."""

    def __init__(self, sid, arch, wl, orders="alpha"):
        self.sid, self.arch, self.wl, self.orders = sid, arch, wl, orders
        names = wl.einsum_names
        self.items = []  # (kind, tree, meta)
        self.two = len(names) == 2
        if len(names) == 1:
            self.eval_arch = arch
            for t in einsum_trees(arch, wl, names[0], orders):
                self.items.append(("single", t, None))
        elif self.two:
            self.eval_arch = inf_arch(arch)
            (Y, prod, cons), = MS.intermediates(wl)
            self.Y, self.prod, self.cons = Y, prod, cons
            ranks = set(dict((t, rk) for t, rk, _ in wl.tensors_of(prod))[Y])
            groups = {}
            for e in (prod, cons):
                for t in einsum_trees(arch, wl, e, orders):
                    top, pre, b, rest = MS.split_at_backing(t, Y)
                    if pre is None:
                        key = ("unfused",)
                    else:
                        kk = MS.fused_prefix_key(pre, ranks)
                        if kk is None:
                            continue
                        key = (b[1], kk)
                    groups.setdefault(key, {}).setdefault(e, []).append(t)
            self.groups = {k: g for k, g in sorted(groups.items(), key=lambda kv: str(kv[0]))
                           if g.get(prod) and g.get(cons)}
            self.gkeys = list(self.groups)
            for gi, key in enumerate(self.gkeys):
                g = self.groups[key]
                for e, other in ((prod, cons), (cons, prod)):
                    partner = g[other][0]
                    for ti, t in enumerate(g[e]):
                        pair = (t, partner) if e == prod else (partner, t)
                        self.items.append(("cost", MS.merge_two(pair[0], pair[1], Y), (gi, e, ti)))
            # stage 2 work items: (group index, start, stop) over the flattened pair index
            self.pair_items = []
            outer_inf = str(arch.memories[0].size) == "inf"
            self.decoupled = None
            for gi, key in enumerate(self.gkeys):
                g = self.groups[key]
                n = len(g[prod]) * len(g[cons])
                if key == ("unfused",) and outer_inf:
                    # sequential branches below an infinite outermost memory share nothing:
                    # the pair space factorises exactly (see unfused_points)
                    self.decoupled = gi
                    continue
                for s in range(0, n, PAIR_CHUNK):
                    self.pair_items.append((gi, s, min(n, s + PAIR_CHUNK)))
        else:
            raise ValueError("reference mapspace supports 1-2 Einsums")

    def n_chunks(self):
        return (len(self.items) + CHUNK - 1) // CHUNK

    def n_pairs(self):
        if not self.two:
            return 0
        return sum(len(g[self.prod]) * len(g[self.cons]) for g in self.groups.values())


_PREP: dict = {}


def _prep(work: Work):
    if work.sid not in _PREP:
        _PREP.clear()
        _PREP[work.sid] = afx.prepare(S.build_spec(work.eval_arch, work.wl, S.Knobs("E")))
    return _PREP[work.sid]


def eval_chunk(work: Work, ci: int):
    """Stage 1 -> list of records for items[ci*CHUNK:(ci+1)*CHUNK]"""
    prep = _prep(work)
    mems = [m.name for m in work.arch.memories]
    out = []
    for kind, tree, meta in work.items[ci * CHUNK:(ci + 1) * CHUNK]:
        rec = {"kind": kind, "meta": meta}
        if kind == "single":
            rec["tree"] = afx.tree_str(tree)
        try:
            r = afx.evaluate_tree(prep, tree)
            if len(r.data) == 0:
                rec["valid"] = False
                rec["why"] = "empty"
            else:
                rec["valid"] = True
                if kind == "single":
                    ru = r.resource_usage()
                    rec["usage"] = {m: float(ru.get(m, 0.0)) for m in mems}
                    rec["energy"] = float(r.energy())
                    rec["latency"] = float(r.latency())
                else:
                    e = meta[1]
                    rec["energy"] = float(r.energy(per_einsum=True)[e])
                    rec["latency"] = float(r.latency(per_einsum=True)[e])
        except Exception as ex:
            rec["valid"] = False
            rec["why"] = type(ex).__name__
        out.append(rec)
    return out


def pair_chunk(work: Work, costs, item):
    """Stage 2: enumerate the pairs [start, stop) of one group; returns
    (n_pairs, n_valid, local Pareto front of (energy, latency, usage tuple, description))."""
    gi, start, stop = item
    g = work.groups[work.gkeys[gi]]
    l0, l1 = g[work.prod], g[work.cons]
    n1 = len(l1)
    mems = [m.name for m in work.arch.memories]
    sizes = {m.name: (float("inf") if str(m.size) == "inf" else float(m.size)) for m in work.arch.memories}
    pts, n_valid = [], 0
    for idx in range(start, stop):
        i, j = divmod(idx, n1)
        c0 = costs.get((gi, work.prod, i))
        c1 = costs.get((gi, work.cons, j))
        if c0 is None or c1 is None:
            continue
        m = MS.merge_two(l0[i], l1[j], work.Y)
        peak = X.peak_occupancy(m, work.arch, work.wl)
        if any(float(peak[mm]) > sizes[mm] * (1 + 1e-9) for mm in mems):
            continue
        n_valid += 1
        u = tuple(0.0 if sizes[mm] == float("inf") else float(peak[mm]) / sizes[mm] for mm in mems)
        pts.append((c0[0] + c1[0], c0[1] + c1[1], u, (gi, i, j)))
    front = pareto_min(pts)
    out = []
    for p in front:
        gi_, i, j = p[3]
        out.append((p[0], p[1], p[2], afx.tree_str(MS.merge_two(l0[i], l1[j], work.Y))))
    return stop - start, n_valid, out


def unfused_points(work: Work, costs):
    """Unfused pairs (shared tensor backed in the infinite outermost memory): the two
    branches run one after the other and share no finite memory, so a pair is valid iff
    both trees are, its usage is the maximum and its costs the sum.  The pair space is
    therefore represented exactly by the product of the two per-Einsum Pareto fronts."""
    gi = work.decoupled
    if gi is None:
        return 0, 0, []
    g = work.groups[work.gkeys[gi]]
    mems = [m.name for m in work.arch.memories]
    sizes = {m.name: (float("inf") if str(m.size) == "inf" else float(m.size)) for m in work.arch.memories}
    fr, nv = {}, {}
    for e in (work.prod, work.cons):
        pts = []
        for ti, t in enumerate(g[e]):
            c = costs.get((gi, e, ti))
            if c is None:
                continue
            peak = X.peak_occupancy(t, work.arch, work.wl)
            if any(float(peak[mm]) > sizes[mm] * (1 + 1e-9) for mm in mems):
                continue
            u = tuple(0.0 if sizes[mm] == float("inf") else float(peak[mm]) / sizes[mm] for mm in mems)
            pts.append((c[0], c[1], u, afx.tree_str(t)))
        nv[e] = len(pts)
        fr[e] = pareto_min(pts)
    out = []
    for a in fr[work.prod]:
        for b in fr[work.cons]:
            out.append((a[0] + b[0], a[1] + b[1], tuple(max(x, y) for x, y in zip(a[2], b[2])),
                        "SEQ(" + a[3] + " || " + b[3] + ")"))
    return len(g[work.prod]) * len(g[work.cons]), nv[work.prod] * nv[work.cons], pareto_min(out)


def assemble_single(work: Work, records):
    mems = [m.name for m in work.arch.memories]
    pts, n_valid = [], 0
    for rec in records:
        if not rec["valid"]:
            continue
        n_valid += 1
        pts.append((rec["energy"], rec["latency"], tuple(rec["usage"][m] for m in mems), rec["tree"]))
    return {"sid": work.sid, "mems": mems, "n_trees": len(records), "n_valid": n_valid,
            "n_unfused_pairs_represented": 0, "points": pareto_min(pts)}


def costs_of(records):
    return {tuple(r["meta"]): (r["energy"], r["latency"]) for r in records if r["valid"]}


def assemble_pairs(work: Work, n_model_evals, chunks, costs=None):
    mems = [m.name for m in work.arch.memories]
    pts, n_pairs, n_valid = [], 0, 0
    n_unf = 0
    if costs is not None:
        n_unf, v_unf, front = unfused_points(work, costs)
        chunks = list(chunks) + [(0, 0, front)]
    for n, v, front in chunks:
        n_pairs += n
        n_valid += v
        pts.extend(front)
    return {"sid": work.sid, "mems": mems, "n_trees": n_pairs, "n_valid": n_valid,
            "n_model_evaluations": n_model_evals, "n_unfused_pairs_represented": n_unf, "points": pareto_min(pts)}


def pareto_min(pts):
    """Non-dominated points on (energy, latency, usage...), first of duplicates."""
    vec = lambda p: (p[0], p[1]) + tuple(p[2])
    pts = sorted(pts, key=vec)
    out = []
    for p in pts:
        vp = vec(p)
        if any(all(x <= y for x, y in zip(vec(q), vp)) for q in out):
            continue
        out.append(p)
    return out


def cache_path(sid: str, orders: str) -> Path:
    safe = sid.replace("/", "_").replace(" ", "")
    return treehash.cache_dir("refspace") / f"{safe}.{orders}.json"


def load_cached(sid, orders="alpha"):
    p = cache_path(sid, orders)
    if p.exists():
        d = json.loads(p.read_text())
        d["points"] = [(a, b, tuple(c), t) for a, b, c, t in d["points"]]
        return d
    return None


def store(sid, orders, data):
    p = cache_path(sid, orders)
    tmp = p.with_suffix(f".tmp{os.getpid()}")
    tmp.write_text(json.dumps(data))
    os.replace(tmp, p)
