"""Reference mapspace evaluation: R-space x real model -> cost points (DESIGN 3.3/3.4).

For a small spec (1 or 2 Einsums) enumerate every LoopTree of the reference mapspace
(mc/ref/mapspace.py), evaluate each with the real model (`evaluate_mapping`) and keep,
for every *valid* tree, the point (energy, latency, usage per memory).

Two-Einsum specs: the fused part (shared tensor backed below the outermost level) is
the full cross product of the per-Einsum trees that agree on the backing node and the
loops above it, each merged tree evaluated by the model.  The unfused part (shared
tensor backed in the outermost level) is the cross product of the two per-Einsum
mapspaces; its points are formed from per-Einsum points (energy and latency add over
sequential Einsums, usage is the maximum) -- the additivity is itself checked on the
complete cross product of the smallest workload by C06/C01 thorough.
Results are cached under /verif/.cache/<hash of /repo/accelforge + /verif/mc refs>/.
"""

from __future__ import annotations

import json
import os
from pathlib import Path

from mc import afx
from mc import specs as S
from mc import treehash
from mc.ref import mapspace as MS

CHUNK = 40


def block_variants(tree):
    """Each storage node of a block of adjacent storage nodes directly above a loop may
    be the one written last (only that one streams); other orders are equivalent."""
    runs = []
    i = 0
    outer = tree[0][1]
    while i < len(tree):
        if tree[i][0] == "S" and tree[i][1] != outer:
            j = i
            while j < len(tree) and tree[j][0] == "S":
                j += 1
            if j - i >= 2 and j < len(tree) and tree[j][0] == "T":
                runs.append((i, j))
            i = j
        else:
            i += 1
    variants = [list(tree)]
    for (a, b) in runs:
        new = []
        for v in variants:
            for k in range(a, b):
                blk = v[a:b]
                last = blk[k - a]
                rest = [x for x in blk if x is not last]
                new.append(v[:a] + rest + [last] + v[b:])
        variants = new
    seen, out = set(), []
    for v in variants:
        key = afx.tree_str(v)
        if key not in seen:
            seen.add(key)
            out.append(v)
    return out


def einsum_trees(arch, wl, einsum, orders="alpha"):
    out = []
    for t in MS.single_einsum_trees(arch, wl, einsum, orders=orders):
        out.extend(block_variants(t))
    return out


class Work:
    """The list of trees to evaluate for one spec, in a fixed order."""

    def __init__(self, sid, arch, wl, orders="alpha"):
        self.sid, self.arch, self.wl, self.orders = sid, arch, wl, orders
        names = wl.einsum_names
        self.items = []  # (kind, tree, meta)
        if len(names) == 1:
            for t in einsum_trees(arch, wl, names[0], orders):
                self.items.append(("single", t, None))
        elif len(names) == 2:
            (Y, prod, cons), = MS.intermediates(wl)
            ranks = set(dict((t, rk) for t, rk, _ in wl.tensors_of(prod))[Y])
            groups = {}
            per = {prod: [], cons: []}
            for e in (prod, cons):
                for t in einsum_trees(arch, wl, e, orders):
                    top, pre, b, rest = MS.split_at_backing(t, Y)
                    if pre is None:
                        per[e].append(t)
                        continue
                    kk = MS.fused_prefix_key(pre, ranks)
                    if kk is None:
                        continue
                    groups.setdefault((b[1], kk), {}).setdefault(e, []).append(t)
            for key in sorted(groups, key=str):
                g = groups[key]
                for a in g.get(prod, []):
                    for b in g.get(cons, []):
                        m = MS.merge_two(a, b, Y)
                        if m is not None:
                            self.items.append(("fused", m, None))
            # unfused: every tree of one Einsum next to a fixed base tree of the other
            base = {e: per[e][0] for e in (prod, cons)}
            for t in per[prod]:
                self.items.append(("unfused", [("SEQ", [list(t), list(base[cons])])], prod))
            for t in per[cons]:
                self.items.append(("unfused", [("SEQ", [list(base[prod]), list(t)])], cons))
        else:
            raise ValueError("reference mapspace supports 1-2 Einsums")

    def n_chunks(self):
        return (len(self.items) + CHUNK - 1) // CHUNK


_PREP: dict = {}


def _prep(sid, arch, wl):
    if sid not in _PREP:
        _PREP.clear()
        _PREP[sid] = afx.prepare(S.build_spec(arch, wl, S.Knobs("E")))
    return _PREP[sid]


def eval_chunk(work: Work, ci: int):
    """-> list of records for items[ci*CHUNK:(ci+1)*CHUNK]"""
    prep = _prep(work.sid, work.arch, work.wl)
    mems = [m.name for m in work.arch.memories]
    out = []
    for kind, tree, meta in work.items[ci * CHUNK:(ci + 1) * CHUNK]:
        rec = {"kind": kind, "tree": afx.tree_str(tree), "meta": meta}
        try:
            r = afx.evaluate_tree(prep, tree)
            if len(r.data) == 0:
                rec["valid"] = False
                rec["why"] = "empty"
            else:
                rec["valid"] = True
                ru = r.resource_usage()
                rec["usage"] = {m: float(ru.get(m, 0.0)) for m in mems}
                rec["energy"] = float(r.energy())
                rec["latency"] = float(r.latency())
                if kind == "unfused":
                    pe = r.energy(per_einsum=True)
                    pl = r.latency(per_einsum=True)
                    rec["e_einsum"] = float(pe[meta])
                    rec["l_einsum"] = float(pl[meta])
                    # this Einsum's own buffer usage: total usage is a max over branches; the
                    # base tree of the other Einsum keeps nothing below the outermost level
        except Exception as e:
            rec["valid"] = False
            rec["why"] = type(e).__name__
        out.append(rec)
    return out


def assemble(work: Work, records):
    """records in item order -> dict with reference points."""
    mems = [m.name for m in work.arch.memories]
    pts = []
    n_valid = 0
    per = {}
    for rec in records:
        if not rec["valid"]:
            continue
        n_valid += 1
        u = tuple(rec["usage"][m] for m in mems)
        if rec["kind"] in ("single", "fused"):
            pts.append((rec["energy"], rec["latency"], u, rec["tree"]))
        else:
            per.setdefault(rec["meta"], []).append((rec["e_einsum"], rec["l_einsum"], u, rec["tree"]))
    n_unfused_pairs = 0
    if per:
        names = work.wl.einsum_names
        fr = {e: pareto_min(per.get(e, [])) for e in names}
        n_unfused_pairs = len(per.get(names[0], [])) * len(per.get(names[1], []))
        for a in fr[names[0]]:
            for b in fr[names[1]]:
                u = tuple(max(x, y) for x, y in zip(a[2], b[2]))
                pts.append((a[0] + b[0], a[1] + b[1], u, "SEQ(" + a[3] + " || " + b[3] + ")"))
    return {"sid": work.sid, "mems": mems, "n_trees": len(records), "n_valid": n_valid,
            "n_unfused_pairs_represented": n_unfused_pairs, "points": pts}


def pareto_min(pts):
    """Non-dominated points on (energy, latency, usage...)."""
    out = []
    vec = lambda p: (p[0], p[1]) + tuple(p[2])
    for i, p in enumerate(pts):
        vp = vec(p)
        dom = False
        for j, q in enumerate(pts):
            if i == j:
                continue
            vq = vec(q)
            if all(x <= y for x, y in zip(vq, vp)) and (any(x < y for x, y in zip(vq, vp)) or j < i):
                dom = True
                break
        if not dom:
            out.append(p)
    return out


def cache_path(sid: str, orders: str) -> Path:
    safe = sid.replace("/", "_").replace(" ", "")
    return treehash.cache_dir("refspace") / f"{safe}.{orders}.json"


def load_cached(sid, orders="alpha"):
    p = cache_path(sid, orders)
    if p.exists():
        d = json.loads(p.read_text())
        d["points"] = [(a, b, tuple(c), t) for a, b, c, t in d["points"]]
        return d
    return None


def store(sid, orders, data):
    p = cache_path(sid, orders)
    tmp = p.with_suffix(f".tmp{os.getpid()}")
    tmp.write_text(json.dumps(data))
    os.replace(tmp, p)
