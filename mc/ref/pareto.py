"""R-pareto: the boring O(n^2) specification of the Pareto filter.

A row i is kept iff
  * no row j != i with identical `diff` entries strictly dominates it (all
    optimised coordinates <= after orienting max goals, at least one <), and
  * no earlier row j < i is an exact duplicate of it (all columns).
Prime-factor goals expand an integer column into one coordinate per prime
(exponent counts, by trial division).
"""

from __future__ import annotations


def _factor(n: int) -> dict[int, int]:
    n = int(n)
    out: dict[int, int] = {}
    p = 2
    while p * p <= n:
        while n % p == 0:
            out[p] = out.get(p, 0) + 1
            n //= p
        p += 1
    if n > 1:
        out[n] = out.get(n, 0) + 1
    return out


def oriented_rows(rows, goals):
    """-> (opt vectors, diff vectors) per row."""
    n = len(rows)
    opt = [[] for _ in range(n)]
    diff = [[] for _ in range(n)]
    for c, g in enumerate(goals):
        col = [r[c] for r in rows]
        if g == "diff":
            for i in range(n):
                diff[i].append(col[i])
        elif g == "min":
            for i in range(n):
                opt[i].append(col[i])
        elif g == "max":
            for i in range(n):
                opt[i].append(-col[i])
        elif g in ("min_per_prime_factor", "max_per_prime_factor"):
            fs = [_factor(v) for v in col]
            primes = sorted({p for f in fs for p in f})
            sgn = 1 if g.startswith("min") else -1
            for i in range(n):
                for p in primes:
                    opt[i].append(sgn * fs[i].get(p, 0))
        else:
            raise ValueError(g)
    return opt, diff


def dominates(a, b) -> bool:
    """a strictly dominates b (both oriented so that smaller is better)."""
    less = False
    for x, y in zip(a, b):
        if x > y:
            return False
        if x < y:
            less = True
    return less


def pareto_mask(rows, goals, distinct=True):
    n = len(rows)
    opt, diff = oriented_rows(rows, goals)
    keep = []
    for i in range(n):
        k = True
        for j in range(n):
            if j != i and diff[j] == diff[i] and dominates(opt[j], opt[i]):
                k = False
                break
        if k and distinct:
            for j in range(i):
                if list(rows[j]) == list(rows[i]):
                    k = False
                    break
        keep.append(k)
    return keep


def dominated_only_mask(rows, goals):
    """True where a row is dropped because of dominance (not mere duplication)."""
    opt, diff = oriented_rows(rows, goals)
    n = len(rows)
    return [
        any(j != i and diff[j] == diff[i] and dominates(opt[j], opt[i]) for j in range(n))
        for i in range(n)
    ]
