"""R-arch: architecture trees as plain nested lists + path search.

A *sequence* is a list of nodes; the architecture itself is a sequence (the root
hierarchy).  A node is either

    leaf    [kind, name, fanout]      kind in  "M" (Memory)  "T" (Toll)
                                               "K" (Container)  "C" (Compute)
    branch  [kind, [node, ...]]       kind in  "F" (Fork)  "H" (nested Hierarchical)

Meaning (docs/source/guide/spec/architecture.rst): inside a hierarchy every node is a
parent of the nodes that follow it; a nested Hierarchical is simply part of the
hierarchy it sits in; a Fork branches off — its contents are parents only of what is
inside the Fork, and the main hierarchy continues after it; a Compute is the end of one
compute path and not a parent of anything.

``above(seq, name)`` answers "which hardware sits between the root and this node" by
locating the node with a depth-first search and walking the chain of enclosing
sequences back down; nothing here is incremental or shared with accelforge.
"""

from __future__ import annotations

LEAF_KINDS = ("M", "T", "K", "C")
BRANCH_KINDS = ("F", "H")


def is_leaf(node):
    return node[0] in LEAF_KINDS


def leaves(seq):
    """All leaves in document (pre-)order."""
    out = []
    for node in seq:
        if is_leaf(node):
            out.append(node)
        else:
            out.extend(leaves(node[1]))
    return out


def computes(seq):
    return [n for n in leaves(seq) if n[0] == "C"]


def find_chain(seq, name):
    """[(sequence, index), ...] from the root sequence down to the leaf called name,
    or None."""
    for i, node in enumerate(seq):
        if is_leaf(node):
            if node[1] == name:
                return [(seq, i)]
        else:
            sub = find_chain(node[1], name)
            if sub is not None:
                return [(seq, i)] + sub
    return None


def _carried(node):
    """Non-compute leaves that a finished earlier sibling contributes to whatever
    follows it in the same hierarchy: a leaf contributes itself (a Compute nothing),
    a nested Hierarchical everything it carries, a Fork nothing (it branched off)."""
    if is_leaf(node):
        return [] if node[0] == "C" else [node]
    if node[0] == "F":
        return []
    out = []
    for child in node[1]:
        out.extend(_carried(child))
    return out


def above(seq, name):
    """Non-compute leaves above the leaf ``name``, top-down."""
    chain = find_chain(seq, name)
    if chain is None:
        raise KeyError(name)
    out = []
    for s, idx in chain:
        for sibling in s[:idx]:
            out.extend(_carried(sibling))
    return out


def path_to(seq, name):
    """The flattened architecture for compute ``name``: what is above it, then itself."""
    chain = find_chain(seq, name)
    s, i = chain[-1]
    return above(seq, name) + [s[i]]


def on_some_compute_path(seq, name):
    """Is the leaf part of at least one flattened architecture?"""
    return any(any(n[1] == name for n in path_to(seq, c[1])) for c in computes(seq))


def instances(seq, name):
    """Number of physical instances of a leaf: its own fanout times the fanouts of
    everything above it."""
    chain = find_chain(seq, name)
    s, i = chain[-1]
    n = s[i][2]
    for a in above(seq, name):
        n *= a[2]
    return n


# ----------------------------------------------------------------------------
# token serialisation used by the explorers (pre-order with brackets)
# ----------------------------------------------------------------------------

NONCOMPUTE_ROTATION = ("M", "T", "K")


def parse_tokens(tokens, rot=0):
    """tokens: leaf kinds ("M","T","K","C" or the placeholder "L" for a non-compute
    leaf whose kind is NONCOMPUTE_ROTATION[(index + rot) % 3]), "F(" / "H(" open a
    branch, ")" closes it.  Names are <kind lower><leaf index>; fanout 1."""
    root = []
    stack = [root]
    n_leaf = 0
    n_l = 0
    for t in tokens:
        if t in ("F(", "H("):
            node = [t[0], []]
            stack[-1].append(node)
            stack.append(node[1])
        elif t == ")":
            stack.pop()
        elif t == "$":
            break
        else:
            kind = t
            if t == "L":
                kind = NONCOMPUTE_ROTATION[(n_l + rot) % 3]
                n_l += 1
            stack[-1].append([kind, f"{kind.lower()}{n_leaf}", 1])
            n_leaf += 1
    assert len(stack) == 1
    return root


def token_menu(prefix, leaf_tokens, max_nodes, max_depth):
    """Choice menu after ``prefix`` (a tuple of tokens) for trees with at most
    max_nodes nodes (leaves + branches), branch nesting <= max_depth - 1 below the
    root, non-empty branches, at least one compute.  None when prefix ends with "$"."""
    if prefix and prefix[-1] == "$":
        return None
    nodes = 0
    depth = 0
    has_compute = False
    for t in prefix:
        if t in ("F(", "H("):
            nodes += 1
            depth += 1
        elif t == ")":
            depth -= 1
        else:
            nodes += 1
            has_compute |= t == "C"
    just_opened = bool(prefix) and prefix[-1] in ("F(", "H(")
    menu = []
    if nodes < max_nodes:
        menu.extend(leaf_tokens)
    if nodes + 2 <= max_nodes and depth + 1 < max_depth:
        menu.extend(["F(", "H("])
    if depth > 0 and not just_opened:
        menu.append(")")
    if depth == 0 and prefix and has_compute:
        menu.append("$")
    return menu
