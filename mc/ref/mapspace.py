"""R-space — reference mapspace enumerator (DESIGN.md section 3.3).

Generates *every* LoopTree of the documented mapspace of a small spec, without any
of the mapper's "optimality-preserving" pruning rules:

* per memory level (top-down) the set of tensors it holds: keep <= chosen <=
  keep | may_keep, where the set expressions may refer to the tensors chosen for
  the levels above (e.g. ``~Main``);
* the outermost level's storage nodes sit on top with no loops above / between
  them (documented: the outermost memory's storage is not lowered);
* the remaining storage nodes are arranged in every order that respects the
  per-tensor hierarchy order (and, with force_memory_hierarchy_order, the global
  level order); adjacent storage nodes commute, so they are generated as *blocks*;
* every rank variable gets every divisor chain bound > t1 > ... > 1 and every
  placement of the chain's loops into the slots between blocks, at most one loop
  per variable per slot (two loops of one variable with no storage node between
  them are observation-equivalent to the inner one alone);
* inside a slot the loop order is alphabetical (orders="alpha") or every
  permutation (orders="all").

Trees are lists in the notation of mc/afx.py.
"""

from __future__ import annotations

import itertools

from mc import specs as S


class TSet(frozenset):
    """frozenset with complement relative to a universe (for set expressions)."""

    universe: frozenset = frozenset()

    def _mk(self, it):
        r = TSet(it)
        r.universe = self.universe
        return r

    def __invert__(self):
        return self._mk(self.universe - self)

    def __and__(self, o):
        return self._mk(frozenset.__and__(self, o))

    def __or__(self, o):
        return self._mk(frozenset.__or__(self, o))

    def __sub__(self, o):
        return self._mk(frozenset.__sub__(self, o))

    def __xor__(self, o):
        return self._mk(frozenset.__xor__(self, o))


def symtab(wl: S.WL, einsum: str):
    ts = wl.tensors_of(einsum)
    names = frozenset(t for t, _, _ in ts)
    all_out = {e[1] for e in wl.einsums}
    all_in = {t for e in wl.einsums for t, _ in e[3]}

    def mk(x):
        r = TSet(x)
        r.universe = names
        return r

    tab = {
        "All": mk(names), "Nothing": mk(()),
        "Inputs": mk(t for t, _, o in ts if not o), "Outputs": mk(t for t, _, o in ts if o),
        "Intermediates": mk(names & all_out & all_in),
        "Shared": mk(t for t in names if sum(1 for e in wl.einsums if t == e[1] or t in [x for x, _ in e[3]]) > 1),
    }
    for t in all_out | all_in:
        tab[t] = mk({t} & names)
    return tab, mk


def eval_set(expr, tab):
    if expr is None:
        return tab["Nothing"]
    return eval(expr, {"__builtins__": {}}, dict(tab))


def holder_choices(arch: S.Arch, wl: S.WL, einsum: str):
    """Yield dict level->frozenset(tensors) for every allowed storage choice."""
    tab0, mk = symtab(wl, einsum)
    levels = arch.holders

    def rec(i, chosen, tab):
        if i == len(levels):
            yield dict(chosen)
            return
        m = levels[i]
        keep = eval_set(m.keep, tab) if m.keep is not None else tab["Nothing"]
        if m.may_keep is not None:
            may = eval_set(m.may_keep, tab)
        else:
            may = tab["Nothing"] if m.keep is not None else tab["All"]
        opt = sorted(may - keep)
        for r in range(len(opt) + 1):
            for extra in itertools.combinations(opt, r):
                c = mk(set(keep) | set(extra))
                t2 = dict(tab)
                t2[m.name] = c
                yield from rec(i + 1, chosen + [(m.name, c)], t2)

    yield from rec(0, [], tab0)


def divisor_chains(n: int):
    """All strictly decreasing chains n > t1 > ... > tk = 1 with each dividing the
    previous (tile shapes of the loops of one rank variable, outermost first)."""
    if n == 1:
        return [()]
    out = []

    def rec(cur, chain):
        if cur == 1:
            out.append(tuple(chain))
            return
        for d in range(cur - 1, 0, -1):
            if cur % d == 0:
                rec(d, chain + [d])

    rec(n, [])
    return out


def ordered_blocks(nodes, level_index, force_order=True):
    """All ordered partitions of `nodes` [(level, tensor)] into blocks such that for
    each tensor a higher level never comes in a later block than a lower level, and
    (force_order) no node of a lower level is in an earlier block than a node of a
    higher level."""
    nodes = list(nodes)
    n = len(nodes)
    if n == 0:
        yield []
        return
    # assign each node a block index; enumerate set partitions with order = weak orderings
    def ok(assign):
        for a in range(n):
            for b in range(n):
                la, ta = nodes[a]
                lb, tb = nodes[b]
                if level_index[la] < level_index[lb] and (ta == tb or force_order):
                    if assign[a] > assign[b]:
                        return False
        return True

    seen = set()
    for k in range(1, n + 1):
        for assign in itertools.product(range(k), repeat=n):
            if set(assign) != set(range(k)):
                continue
            if not ok(assign):
                continue
            blocks = tuple(tuple(sorted(nodes[i] for i in range(n) if assign[i] == j))
                           for j in range(k))
            if blocks in seen:
                continue
            seen.add(blocks)
            yield [list(b) for b in blocks]


def intermediates(wl: S.WL):
    outs = {e[1]: e[0] for e in wl.einsums}
    res = []
    for e in wl.einsums:
        for t, _ in e[3]:
            if t in outs:
                res.append((t, outs[t], e[0]))
    return res  # (tensor, producer, consumer)


def split_at_backing(tree, tensor):
    """-> (top outermost nodes, prefix between top and the tensor's first holder
    (exclusive), backing node, rest)"""
    outer = tree[0][1]
    i = 0
    while i < len(tree) and tree[i][0] == "S" and tree[i][1] == outer:
        i += 1
    top = tree[:i]
    for j, n in enumerate(tree):
        if n[0] == "S" and n[2] == tensor:
            if j < i:
                return top, None, n, tree[i:]  # backed in the outermost level: unfused
            return top, tree[i:j], n, tree[j + 1:]
    raise ValueError("tensor has no holder")


def fused_prefix_key(prefix, tensor_ranks, max_fused_per_var=1):
    """Loops above the shared tensor's backing node must iterate its own rank
    variables (no recomputation) and at most `max_fused_per_var` per variable.
    Returns the tuple of (var, tile) or None if the prefix is not a legal fused prefix."""
    loops = [(n[1], n[2]) for n in prefix if n[0] == "T"]
    per = {}
    for v, _ in loops:
        if v not in tensor_ranks:
            return None
        per[v] = per.get(v, 0) + 1
        if per[v] > max_fused_per_var:
            return None
    return tuple(loops)


def merge_two(t0, t1, tensor):
    """Merge two single-Einsum trees that agree on the backing node of `tensor` and
    on the loops above it.  Storage nodes that share a block with the backing node go
    inside their own branch (shortest lifetime); earlier ones stay above the split."""
    top0, pre0, b0, rest0 = split_at_backing(t0, tensor)
    top1, pre1, b1, rest1 = split_at_backing(t1, tensor)
    if pre0 is None or pre1 is None:
        if pre0 is None and pre1 is None:
            return [("SEQ", [list(t0), list(t1)])]
        return None
    if b0 != b1:
        return None
    l0 = [(n[1], n[2]) for n in pre0 if n[0] == "T"]
    l1 = [(n[1], n[2]) for n in pre1 if n[0] == "T"]
    if l0 != l1:
        return None

    def segments(pre):
        segs, cur = [], []
        for n in pre:
            if n[0] == "T":
                segs.append(cur)
                cur = []
            else:
                cur.append(n)
        segs.append(cur)
        return segs

    s0, s1 = segments(pre0), segments(pre1)
    top = list(top0) + [n for n in top1 if n not in top0]
    if not l0:
        # no shared loops: sequential at the top, every branch keeps its own nodes
        return [("SEQ", [list(t0), list(t1)])]
    merged = list(top)
    for j, lp in enumerate(l0):
        merged += s0[j] + s1[j]
        merged.append(("T", lp[0], lp[1]))
    br0 = [b0] + s0[-1] + list(rest0)
    br1 = [b1] + s1[-1] + list(rest1)
    merged.append(("SEQ", [br0, br1]))
    return merged


def single_einsum_trees(arch: S.Arch, wl: S.WL, einsum: str, orders="alpha",
                        force_order=True, holders=None):
    levels = [m.name for m in arch.holders]
    lidx = {l: i for i, l in enumerate(levels)}
    ts = wl.tensors_of(einsum)
    rvs = sorted({rv for _, rk, _ in ts for rv in rk})
    bounds = dict(wl.bounds)
    for choice in (holder_choices(arch, wl, einsum) if holders is None else holders):
        top = [("S", levels[0], t) for t in sorted(choice[levels[0]])]
        # every tensor must be held somewhere
        held = set().union(*choice.values()) if choice else set()
        if {t for t, _, _ in ts} - held:
            continue
        # tensors not in the outermost level would need a lower backing store: single
        # Einsum specs of the harness always keep everything outermost
        lower = [(l, t) for l in levels[1:] for t in sorted(choice[l])]
        for blocks in ordered_blocks(lower, lidx, force_order):
            k = len(blocks)
            nslots = k + 1
            per_var = []
            for rv in rvs:
                opts = []
                for chain in divisor_chains(bounds[rv]):
                    if len(chain) > nslots:
                        continue
                    for slots in itertools.combinations(range(nslots), len(chain)):
                        opts.append(tuple(zip(slots, chain)))
                per_var.append(opts)
            for combo in itertools.product(*per_var):
                slot_loops = [[] for _ in range(nslots)]
                for rv, placement in zip(rvs, combo):
                    for s, tile in placement:
                        slot_loops[s].append(("T", rv, tile))
                # slots strictly between two blocks must be non-empty, otherwise the
                # same tree is generated with those blocks merged
                if any(not slot_loops[s] for s in range(1, k)):
                    continue
                if orders == "alpha":
                    variants = [[sorted(sl) for sl in slot_loops]]
                else:
                    variants = [list(v) for v in itertools.product(
                        *[[list(p) for p in itertools.permutations(sorted(sl))] for sl in slot_loops])]
                for var in variants:
                    tree = list(top) + list(var[0])
                    for j, b in enumerate(blocks):
                        tree += [("S", l, t) for l, t in b]
                        tree += list(var[j + 1])
                    tree.append(("C", einsum))
                    yield tree
