"""R-einsum: recogniser of the DOCUMENTED concise Einsum notation.

Sources: docs/source/guide/spec/workload.rst ("Concise Einsum Notation"), the attribute
documentation of ``TensorAccess.projection`` and the C23 property statement.

    einsum := access "=" access ("*" access)*
    access := NAME "[" entry ("," entry)* "]"
    entry  := var                      shorthand: rank = var.upper(); var starts lower-case
            | Rank ":" expression      explicit rank (starts upper-case) and projection expression

``parse`` returns ("ok", verbose) with the verbose dict the documentation gives as the
equivalent of the string (inputs in order, then the output; a list projection when every
entry is shorthand, else a dict), or ("malformed", rule, detail).  ``rule`` names the
documented rule that is broken; only the rules in ``REQUIRED`` are ones the documentation
(or the property's own list) states, so only those must be rejected by an implementation:

    equals                 not exactly one "="
    access-form            a tensor is not written NAME[...]: unbalanced / nested / stray
                           bracket, bracket without a name, name without brackets
    no-output / no-input   nothing well formed on a side of "="
    empty-entry            an entry, a rank name or a projection expression is empty
    entry-form             more than one ":" in an entry
    capitalisation         shorthand variable starts upper-case / rank name starts lower-case
    shorthand-not-variable a shorthand entry is not a single identifier
    rank-name              the rank of "Rank: expr" is not a single identifier
    unique-ranks           a tensor names the same rank twice

Not required (reported, never demanded): ``separator`` (inputs not separated by exactly one
"*", or "," / ":" between tensors), ``expr-syntax``, ``adjacent-words`` (blank inside a name),
``empty-projection`` (``X[]``: the notation has no 0-rank form), ``lhs-extra``,
``duplicate-tensor``.
"""

from __future__ import annotations

import re

PUNCT = "[]=,:*"
REQUIRED = {
    "equals", "access-form", "no-output", "no-input", "empty-entry", "entry-form",
    "capitalisation", "shorthand-not-variable", "rank-name", "unique-ranks",
}
_IDENT = re.compile(r"[A-Za-z_][A-Za-z0-9_]*\Z")


def tokenize(s: str) -> list:
    toks, cur = [], ""
    for ch in s:
        if ch in PUNCT or ch.isspace():
            if cur:
                toks.append(cur)
                cur = ""
            if ch in PUNCT:
                toks.append(ch)
        else:
            cur += ch
    if cur:
        toks.append(cur)
    return toks


class _Bad(Exception):
    def __init__(self, rule, detail):
        super().__init__(rule, detail)
        self.rule, self.detail = rule, detail


def _scan_side(toks, side):
    """-> (accesses [(name, inner tokens)], soft issues [(rule, detail)])  or raises _Bad."""
    accesses, soft = [], []
    outside = []  # structure outside brackets: "A" for an access, or the separator token
    i, n = 0, len(toks)
    while i < n:
        t = toks[i]
        if t == "]":
            raise _Bad("access-form", f"{side}-stray-close-bracket")
        if t == "[":
            raise _Bad("access-form", f"{side}-bracket-without-name")
        if t in ("*", ",", ":"):
            outside.append(t)
            i += 1
            continue
        # a word: must be a name immediately followed by "["
        if i + 1 >= n or toks[i + 1] != "[":
            raise _Bad("access-form", f"{side}-name-without-brackets")
        j = i + 2
        inner = []
        while j < n and toks[j] != "]":
            if toks[j] == "[":
                raise _Bad("access-form", f"{side}-nested-or-unclosed-bracket")
            inner.append(toks[j])
            j += 1
        if j >= n:
            raise _Bad("access-form", f"{side}-unclosed-bracket")
        if not _IDENT.match(t):
            raise _Bad("access-form", f"{side}-tensor-name-not-identifier")
        accesses.append((t, inner))
        outside.append("A")
        i = j + 1
    # separators
    if any(x in (",", ":") for x in outside):
        soft.append(("separator", f"{side}-comma-or-colon-between-tensors"))
    shape = "".join("A" if x == "A" else ("*" if x == "*" else "") for x in outside)
    if side == "rhs" and accesses and not re.fullmatch(r"A(\*A)*", shape):
        soft.append(("separator", "rhs-star-count"))
    if side == "lhs" and accesses and shape != "A":
        soft.append(("lhs-extra", "lhs-extra-tokens"))
    return accesses, soft


def _parse_entries(name, inner):
    """-> (entries [(rank, expr, shorthand?)], soft)  or raises _Bad."""
    soft = []
    if not inner:
        raise _Bad("empty-projection", f"{name}[]")
    groups, cur = [], []
    for t in inner:
        if t == ",":
            groups.append(cur)
            cur = []
        else:
            cur.append(t)
    groups.append(cur)
    entries = []
    for g in groups:
        if not g:
            raise _Bad("empty-entry", "empty-entry-between-commas")
        ncol = g.count(":")
        if ncol >= 2:
            raise _Bad("entry-form", "two-colons-in-entry")
        if ncol == 0:
            if "*" in g:
                raise _Bad("shorthand-not-variable", "expression-without-rank")
            if len(g) > 1:
                soft.append(("adjacent-words", "blank-inside-shorthand"))
            w = "".join(g)
            if not _IDENT.match(w):
                raise _Bad("shorthand-not-variable", "shorthand-not-identifier")
            if w[0].isupper():
                raise _Bad("capitalisation", "shorthand-variable-uppercase")
            entries.append((w.upper(), w, True))
        else:
            k = g.index(":")
            rank, expr = g[:k], g[k + 1:]
            if not rank:
                raise _Bad("empty-entry", "empty-rank-name")
            if not expr:
                raise _Bad("empty-entry", "empty-rank-expression")
            if "*" in rank:
                raise _Bad("rank-name", "rank-name-not-identifier")
            if len(rank) > 1:
                soft.append(("adjacent-words", "blank-inside-rank-name"))
            r = "".join(rank)
            if not _IDENT.match(r):
                raise _Bad("rank-name", "rank-name-not-identifier")
            if r[0].islower():
                raise _Bad("capitalisation", "rank-name-lowercase")
            e = "".join(expr)
            if expr[0] == "*" or expr[-1] == "*" or "**" in e or e[0] in "+/" or e[-1] in "+-/":
                soft.append(("expr-syntax", "operator-at-edge"))
            entries.append((r, e, False))
    seen = set()
    for r, _, sh in entries:
        if r in seen:
            raise _Bad("unique-ranks", "duplicate-rank-" + ("shorthand-entry" if sh else "explicit-entry"))
        seen.add(r)
    return entries, soft


def parse(s: str):
    toks = tokenize(s)
    neq = toks.count("=")
    if neq != 1:
        return ("malformed", "equals", f"{neq}-equals-signs")
    k = toks.index("=")
    try:
        lhs, soft_l = _scan_side(toks[:k], "lhs")
        rhs, soft_r = _scan_side(toks[k + 1:], "rhs")
        if not lhs:
            raise _Bad("no-output", "no-output-tensor")
        if not rhs:
            raise _Bad("no-input", "no-input-tensor")
        soft = soft_l + soft_r
        if len(lhs) > 1:
            soft.append(("lhs-extra", "several-outputs"))
        parsed = []
        first_soft_bad = None
        for name, inner in rhs + lhs[:1]:
            try:
                entries, s2 = _parse_entries(name, inner)
            except _Bad as b:
                if b.rule in REQUIRED:
                    raise
                first_soft_bad = first_soft_bad or b  # keep looking for a required rule
                continue
            soft += s2
            parsed.append((name, entries))
        if first_soft_bad is not None:
            raise first_soft_bad
    except _Bad as b:
        return ("malformed", b.rule, b.detail)
    names = [n for n, _ in parsed]
    if len(set(names)) != len(names):
        soft.append(("duplicate-tensor", "tensor-named-twice"))
    if soft:
        return ("malformed", soft[0][0], soft[0][1])
    tas = []
    for idx, (name, entries) in enumerate(parsed):
        if all(sh for _, _, sh in entries):
            proj = [e for _, e, _ in entries]
        else:
            proj = {r: e for r, e, _ in entries}
        ta = {"name": name, "projection": proj}
        if idx == len(parsed) - 1:
            ta["output"] = True
        tas.append(ta)
    return ("ok", {"name": parsed[-1][0], "tensor_accesses": tas})
