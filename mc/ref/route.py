"""R-route: explicit route enumeration for data delivered across one spatial fanout.

Written from property C30, not from the closed forms of the implementation.

Setting: ``n`` destination instances along one dimension, the non-distributed source is
co-located with destination 0 (it already holds its own data, so instance 0 needs no
transfer).  Every destination needs ``volume`` units of data.

* shared (the loop is irrelevant to the tensor: multicast) - all destinations need the same
  value; it is injected once and replicated where routes diverge, so a link carries it at
  most once.
* distinct (the loop is relevant: unicast) - every destination needs its own value, which
  travels its own route.

mesh        the instances sit ``stride`` physical nodes apart on a line of unit links;
            link k joins physical node k and k+1; a value for destination i follows the
            shortest line route 0 -> i*stride, i.e. links 0 .. i*stride-1.
all_to_all  every instance has an up-link to and a down-link from one switch; a delivery
            src -> dst is ONE hop (one switch traversal) and occupies the source's up-link
            and the destination's down-link; the switch replicates shared values.

Returned: total hops (hops x volume summed over everything that moves) and the traffic of
every link that is used (so max per-link traffic = max over the dict, 0 if nothing moves).
"""

from __future__ import annotations


def _mesh_route(dst_node: int):
    return [("mesh", k) for k in range(dst_node)]


def enumerate_routes(topology: str, n: int, stride: int, volume, shared: bool):
    """-> (total_hops, {link: traffic}, longest_route_hops)"""
    assert n >= 1 and stride >= 1
    link_traffic: dict = {}
    total = 0
    longest = 0
    if topology == "mesh":
        routes = [_mesh_route(i * stride) for i in range(n)]  # destination 0 -> empty route
        if shared:
            used = []
            for r in routes:
                for link in r:
                    if link not in used:
                        used.append(link)  # the shared value crosses a link once
            for link in used:
                link_traffic[link] = link_traffic.get(link, 0) + volume
                total += volume  # one hop of `volume`
        else:
            for r in routes:
                for link in r:
                    link_traffic[link] = link_traffic.get(link, 0) + volume
                    total += volume
        longest = max(len(r) for r in routes)
    elif topology == "all_to_all":
        src = 0
        deliveries = [d for d in range(n) if d != src]
        if shared:
            if deliveries:
                link_traffic[("up", src)] = volume  # injected once, replicated by the switch
            for d in deliveries:
                link_traffic[("down", d)] = link_traffic.get(("down", d), 0) + volume
                total += volume  # every delivery is one hop
        else:
            for d in deliveries:
                link_traffic[("up", src)] = link_traffic.get(("up", src), 0) + volume
                link_traffic[("down", d)] = link_traffic.get(("down", d), 0) + volume
                total += volume
        longest = 1 if deliveries else 0
    else:
        raise ValueError(topology)
    return total, link_traffic, longest


def transfer_cost(topology: str, n: int, stride: int, volume, shared: bool):
    """-> (total hops, max per-link traffic)"""
    total, links, _ = enumerate_routes(topology, n, stride, volume, shared)
    return total, (max(links.values()) if links else 0)
