"""R-set: set expressions over an Einsum's tensors as plain ``frozenset`` algebra.

Derived from the property statement (C22) and docs/source/guide/parsing/evaluation.rst
("Set Expressions"):

  All / Tensors   tensors used by the current Einsum
  Inputs/Outputs  tensors input to / output from the current Einsum
  Intermediates   tensors (of the current Einsum) produced by one Einsum and consumed by another
  Shared          tensors (of the current Einsum) used by more than one Einsum
  Persistent      tensors (of the current Einsum) flagged persistent
  Nothing         the empty set
  <tensor name>   {name} if the current Einsum uses it, else the empty set
  &, |, -, ^      intersection, union, difference, symmetric difference
  ~x              complement within the current Einsum's tensors (All - x)

A workload is described without any accelforge object:

  {"einsums": [{"name": "E0", "inputs": [...], "outputs": [...]}, ...],
   "persistent": [...tensor names...]}

Trees: an atom is a ``str``; ``("~", t)``; ``(op, l, r)`` with op in ``& | - ^``.
Rendering uses Python's documented operator precedence (``~`` > ``-`` > ``&`` > ``^`` > ``|``,
binary operators left-associative) because the documentation says that set expressions
"can use the full Python syntax".
"""

from __future__ import annotations

BINOPS = ("&", "|", "-", "^")
PREC = {"|": 1, "^": 2, "&": 3, "-": 4, "~": 5}


def tensors_of(wl, i):
    e = wl["einsums"][i]
    return frozenset(e["inputs"]) | frozenset(e["outputs"])


def all_tensors(wl):
    out = []
    for e in wl["einsums"]:
        for t in list(e["inputs"]) + list(e["outputs"]):
            if t not in out:
                out.append(t)
    return out


def named_sets(wl, i, renames=None):
    """Environment of the i-th Einsum: name -> frozenset.  ``renames``: ordered list of
    (name, tree) evaluated in sequence over the environment built so far."""
    e = wl["einsums"][i]
    inputs, outputs = frozenset(e["inputs"]), frozenset(e["outputs"])
    universe = inputs | outputs
    produced = set()
    consumed = set()
    users: dict = {}
    for k, o in enumerate(wl["einsums"]):
        produced |= set(o["outputs"])
        consumed |= set(o["inputs"])
        for t in list(o["inputs"]) + list(o["outputs"]):
            users.setdefault(t, set()).add(k)
    env = {
        "All": universe,
        "Tensors": universe,
        "Inputs": inputs,
        "Outputs": outputs,
        "Intermediates": frozenset(t for t in universe if t in produced and t in consumed),
        "Shared": frozenset(t for t in universe if len(users[t]) > 1),
        "Persistent": frozenset(t for t in universe if t in set(wl.get("persistent", ()))),
        "Nothing": frozenset(),
    }
    for t in all_tensors(wl):
        env[t] = frozenset([t]) if t in universe else frozenset()
    for name, tree in renames or ():
        env[name] = evaluate(tree, env, universe)
    return env, universe


def evaluate(tree, env, universe):
    if isinstance(tree, str):
        return env[tree]
    if tree[0] == "~":
        return universe - evaluate(tree[1], env, universe)
    op, l, r = tree
    a, b = evaluate(l, env, universe), evaluate(r, env, universe)
    if op == "&":
        return a & b
    if op == "|":
        return a | b
    if op == "-":
        return a - b
    if op == "^":
        return (a - b) | (b - a)
    raise ValueError(op)


def render(tree, style="full") -> str:
    """'full': every compound sub-term parenthesised; 'min': only the parentheses Python's
    precedence / left associativity require; 'spaced': like 'min' with blanks around binary
    operators."""
    if isinstance(tree, str):
        return tree
    if style == "full":
        if tree[0] == "~":
            inner = render(tree[1], style)
            return "~" + (inner if isinstance(tree[1], str) else f"({inner})")
        op, l, r = tree
        ls, rs = render(l, style), render(r, style)
        ls = ls if isinstance(l, str) else f"({ls})"
        rs = rs if isinstance(r, str) else f"({rs})"
        return f"{ls} {op} {rs}"
    sep = " " if style == "spaced" else ""
    if tree[0] == "~":
        inner = render(tree[1], style)
        need = not isinstance(tree[1], str) and tree[1][0] != "~"
        return "~" + (f"({inner})" if need else inner)
    op, l, r = tree
    ls, rs = render(l, style), render(r, style)
    if _prec(l) < PREC[op]:
        ls = f"({ls})"
    if _prec(r) <= PREC[op]:
        rs = f"({rs})"
    return f"{ls}{sep}{op}{sep}{rs}"


def _prec(tree):
    if isinstance(tree, str):
        return 9
    return PREC[tree[0]]


def trees(atoms, depth):
    """All trees of depth <= ``depth`` over ``atoms`` (depth 0 = an atom)."""
    level = list(atoms)
    for _ in range(depth):
        nxt = list(atoms)
        nxt += [("~", t) for t in level]
        nxt += [(op, l, r) for op in BINOPS for l in level for r in level]
        level = nxt
    return level


def dict_assign(items, env, universe):
    """items: ordered list of (key, value); key is a tree or the string "Other".

    -> ("overlap", (i, j)) when two keys share a tensor, else
       ("ok", {tensor: value}, {key index: frozenset}).
    ``Other`` denotes every tensor of the Einsum not covered by the other keys."""
    sets = {}
    covered = frozenset()
    for i, (k, _) in enumerate(items):
        if k == "Other":
            continue
        sets[i] = evaluate(k, env, universe)
        covered |= sets[i]
    for i, (k, _) in enumerate(items):
        if k == "Other":
            sets[i] = universe - covered
    idx = sorted(sets)
    for a in range(len(idx)):
        for b in range(a + 1, len(idx)):
            if sets[idx[a]] & sets[idx[b]]:
                return ("overlap", (idx[a], idx[b]))
    out = {}
    for i, (_, v) in enumerate(items):
        for t in sets[i]:
            out[t] = v
    return ("ok", out, sets)
