"""R-iter: workload geometry by explicit enumeration (no polyhedral reasoning).

An iteration space is a box: every rank variable v ranges over the integers
lo_v .. hi_v-1.  An *affine form* is ``(coeffs, const)`` with one integer
coefficient per rank variable (in the order of ``vars``); a *tensor access* is an
ordered list of (rank name, affine form).  Everything below is computed by
``itertools.product`` over the box and evaluating the forms point by point.
"""

from __future__ import annotations

import itertools
import math


def points(bounds):
    """bounds: list of (lo, hi) per variable -> list of integer points (tuples)."""
    return list(itertools.product(*[range(lo, hi) for lo, hi in bounds]))


def evaluate(form, point):
    coeffs, const = form
    return sum(c * x for c, x in zip(coeffs, point)) + const


def variable_bounds(pts, n_vars):
    """Number of distinct values each rank variable takes in the enumerated space."""
    return [len({p[i] for p in pts}) for i in range(n_vars)]


def is_box_points(pts, n_dims):
    """A set of integer points is a box iff it equals the product of the dense
    integer intervals [min_d, max_d] of its coordinates."""
    pts = set(pts)
    if not pts:
        return True
    if n_dims == 0:
        return True
    size = 1
    for d in range(n_dims):
        vals = [p[d] for p in pts]
        size *= max(vals) - min(vals) + 1
    return size == len(pts)


def image(pts, access):
    """Set of tensor coordinates touched: project every point through the access."""
    return {tuple(evaluate(form, p) for _rank, form in access) for p in pts}


def step_and_extra_extent(pts, n_vars, form, v):
    """For rank projection ``form`` and rank variable index ``v``:

    step          the change of the projected coordinate when v advances by one
                  (checked to be the same everywhere in the space), and
    extra extent  how far the projection still spreads when v is held fixed, i.e.
                  max - min of the projected coordinate over all points that share
                  one value of v (checked to be the same for every value of v).

    Returns (step | None if v takes a single value, extra_extent).
    """
    by_point = {p: evaluate(form, p) for p in pts}
    steps = set()
    for p, val in by_point.items():
        q = p[:v] + (p[v] + 1,) + p[v + 1:]
        if q in by_point:
            steps.add(by_point[q] - val)
    assert len(steps) <= 1, "affine form has a single step"
    step = next(iter(steps)) if steps else None
    extents = set()
    for x in {p[v] for p in pts}:
        vals = [val for p, val in by_point.items() if p[v] == x]
        extents.add(max(vals) - min(vals))
    assert len(extents) == 1
    return step, next(iter(extents))


def top_coordinate_with_var_at_origin(pts, form, v):
    """Largest projected coordinate among the points whose variable v sits at its
    smallest value (the 'initial delta' reading of halo: it differs from the extra
    extent exactly by the smallest projected coordinate, i.e. by the constant term
    for 0-based spaces with non-negative coefficients)."""
    lo = min(p[v] for p in pts)
    return max(evaluate(form, p) for p in pts if p[v] == lo)


def n_operations(pts):
    return len(pts)


def prod(xs):
    return math.prod(xs)
