"""R-pareto-table: specification of pmapping-table pruning, written from property C12.

A table row is described by
    opt   the objective values followed by the reservation values (all minimised)
    split the fused-loop tile-shape key (rows only compete when the keys are identical)
Everything else in the table (tensor / mapping / n_iterations / constant columns) plays
no role.  Built on the dominance relation of R-pareto (mc/ref/pareto.py).

zero tolerance
    * a row that is strictly dominated by a row with the same split key must be dropped;
    * of every class of non-dominated rows with identical (opt, split) at least one must
      be kept (dropping all but one of several exact ties is accepted, dropping all is
      not).
tolerance (t_obj, t_rel, t_abs)
    * every dropped row i needs a kept row j with the same split key,
      obj_j <= (1 + t_obj) * obj_i on every objective and
      res_j <= (1 + t_rel) * res_i + t_abs on every reservation.
      (With only one of t_rel / t_abs non-zero this is the plain relative / absolute
      slack; with both it is their sum, the loosest reading of "the stated slack".)
All comparisons carry a relative guard EPS for binary floating point.
"""

from __future__ import annotations

from mc.ref.pareto import dominates

EPS = 1e-6


def must_drop(opt, split):
    n = len(opt)
    return {i for i in range(n)
            if any(j != i and split[j] == split[i] and dominates(opt[j], opt[i]) for j in range(n))}


def tie_classes(opt, split, dropped):
    classes: dict = {}
    for i in range(len(opt)):
        if i in dropped:
            continue
        classes.setdefault((tuple(opt[i]), tuple(split[i])), []).append(i)
    return list(classes.values())


def judge_zero(opt, split, kept):
    """-> None or (family, detail).  `kept` = row positions returned by the implementation."""
    kept = set(kept)
    md = must_drop(opt, split)
    bad = sorted(kept & md)
    if bad:
        return "keeps-dominated", {"rows": bad}
    for cls in tie_classes(opt, split, md):
        if not kept & set(cls):
            return "drops-nondominated", {"rows": cls}
    return None


def covers(j, i, obj, res, split, t_obj, t_rel, t_abs):
    if split[j] != split[i]:
        return False
    for a, b in zip(obj[j], obj[i]):
        if a > (1.0 + t_obj) * b * (1 + EPS) + 1e-12:
            return False
    for a, b in zip(res[j], res[i]):
        if a > ((1.0 + t_rel) * b + t_abs) * (1 + EPS) + 1e-12:
            return False
    return True


def judge_tolerance(obj, res, split, kept, t_obj, t_rel, t_abs):
    kept = set(kept)
    n = len(obj)
    for i in range(n):
        if i in kept:
            continue
        if not any(covers(j, i, obj, res, split, t_obj, t_rel, t_abs) for j in kept):
            return "drops-uncovered", {"row": i}
    return None
