"""R-dag: the boring specification of lexically scoped variable definitions.

Derived from the property statement (C21) and docs/source/guide/parsing/evaluation.rst:

  * A spec is a chain of scopes, outermost first (spec-level variables, then outer
    objects, then the current object).  Every scope is a dict ``name -> expression``.
  * A name used in an expression written in scope k denotes the definition of that
    name in the innermost scope j <= k that defines it ("names in the current object
    shadow outer objects, which shadow spec-level variables").
  * Every name gets the value of its expression over the values of the names it uses;
    the order in which keys are written is irrelevant.
  * If the "uses" relation has a cycle, no value exists: ``Cycle`` is raised.

Expressions are tiny terms (never strings that get ``eval``-ed), so the reference
shares no code and no parsing strategy with the implementation:

    ("const", c)                 c
    ("sum",   c, (names...))     c + n1 + n2 + ...
    ("prod",  c, (names...))     c * n1 * n2 * ...
    ("mm",    c, (names...))     max(c, n1, ...) * 2 + min(c, n1, ...)
"""

from __future__ import annotations


class Cycle(Exception):
    """The definitions have a dependency cycle (the cycle is in ``args[0]``)."""


class Undefined(Exception):
    """An expression uses a name no visible scope defines (outside the C21 domain)."""


def refs(expr) -> tuple:
    return () if expr[0] == "const" else tuple(expr[2])


def render(expr):
    """The text a user would write for the term (ints for bare constants)."""
    kind = expr[0]
    if kind == "const":
        return expr[1]
    c, names = expr[1], list(expr[2])
    if kind == "sum":
        return " + ".join([str(c)] + names)
    if kind == "prod":
        return "*".join([str(c)] + names)
    if kind == "mm":
        args = ",".join([str(c)] + names)
        return f"max({args})*2+min({args})" if names else f"{c}*2+{c}"
    raise ValueError(kind)


def _apply(expr, vals):
    kind = expr[0]
    if kind == "const":
        return expr[1]
    c = expr[1]
    if kind == "sum":
        out = c
        for v in vals:
            out = out + v
        return out
    if kind == "prod":
        out = c
        for v in vals:
            out = out * v
        return out
    if kind == "mm":
        lo = hi = c
        for v in vals:
            lo = v if v < lo else lo
            hi = v if v > hi else hi
        return hi * 2 + lo
    raise ValueError(kind)


def resolve(scopes, k: int, name: str):
    """Scope index whose definition ``name`` denotes when used in scope ``k``."""
    for j in range(k, -1, -1):
        if name in scopes[j]:
            return j
    raise Undefined(f"{name} used in scope {k}")


def evaluate(scopes):
    """scopes: list (outermost first) of dict name -> term.

    Returns a list of dicts name -> value (same shape), or raises ``Cycle``.
    """
    WHITE, GREY, BLACK = 0, 1, 2
    colour: dict = {}
    value: dict = {}

    def visit(k, name, path):
        key = (k, name)
        st = colour.get(key, WHITE)
        if st == BLACK:
            return value[key]
        if st == GREY:
            raise Cycle(path + [key])
        colour[key] = GREY
        expr = scopes[k][name]
        vals = []
        for r in refs(expr):
            j = resolve(scopes, k, r)
            vals.append(visit(j, r, path + [key]))
        v = _apply(expr, vals)
        colour[key] = BLACK
        value[key] = v
        return v

    for k, sc in enumerate(scopes):
        for name in sc:
            visit(k, name, [])
    return [{name: value[(k, name)] for name in sc} for k, sc in enumerate(scopes)]


def has_cycle(scopes) -> bool:
    try:
        evaluate(scopes)
        return False
    except Cycle:
        return True


def longest_cycle_is_self_loop_only(scopes) -> bool:
    """True when every cycle of the uses-relation is a self reference."""
    stripped = []
    for k, sc in enumerate(scopes):
        d = {}
        for name, expr in sc.items():
            if expr[0] == "const":
                d[name] = expr
            else:
                keep = tuple(r for r in expr[2] if not (r == name and resolve(scopes, k, r) == k))
                d[name] = (expr[0], expr[1], keep)
        stripped.append(d)
    return has_cycle(scopes) and not has_cycle(stripped)
