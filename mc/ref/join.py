"""R-join — reference join of per-Einsum pmappings (two Einsums sharing one tensor).

Every pair (one pmapping per Einsum) is examined:
  * compatibility is decided from the two LoopTrees themselves: the shared tensor's
    first (backing) holder must be the same component in both, and the loops above it
    must be the same set of (rank variable, tile shape) loops, ordered consistently
    (loops not separated by a storage node in a tree may be permuted freely in it);
  * the merged LoopTree is built (shared loops above a sequential split, see
    mapspace.merge_two), objectives are summed, occupancy is taken from the explicit
    occupancy simulation (R-exec), pairs over capacity are dropped;
  * the reference Pareto filter is applied.
"""

from __future__ import annotations

from mc.ref import looptree_exec as X
from mc.ref import mapspace as MS


def prefix_blocks(pre):
    """loops above the backing node grouped into blocks (sets) separated by storage nodes"""
    blocks, cur = [], []
    for n in pre:
        if n[0] == "T":
            cur.append((n[1], n[2]))
        elif cur:
            blocks.append(cur)
            cur = []
    if cur:
        blocks.append(cur)
    return blocks


def common_order(pre0, pre1):
    """A loop order consistent with both prefixes' block orders, or None."""
    b0, b1 = prefix_blocks(pre0), prefix_blocks(pre1)
    l0 = [l for b in b0 for l in b]
    l1 = [l for b in b1 for l in b]
    if sorted(l0) != sorted(l1) or len(set(l0)) != len(l0):
        return None
    before = set()
    for bl in (b0, b1):
        for i, a in enumerate(bl):
            for b in bl[i + 1:]:
                for x in a:
                    for y in b:
                        before.add((x, y))
    order, remaining = [], set(l0)
    while remaining:
        free = sorted(x for x in remaining if not any((y, x) in before for y in remaining if y != x))
        if not free:
            return None
        order.append(free[0])
        remaining.remove(free[0])
    return order


def reorder_prefix(pre, order):
    """Rewrite the prefix so that its loops follow `order` (storage nodes keep their
    position relative to the loop blocks: a storage node stays after all loops of the
    blocks that preceded it)."""
    out, k = [], 0
    pos = {l: i for i, l in enumerate(order)}
    # number of loops preceding each storage node stays the same because blocks are
    # contiguous sets in any order consistent with the block order
    loops = sorted([(n[1], n[2]) for n in pre if n[0] == "T"], key=lambda l: pos[l])
    for n in pre:
        if n[0] == "T":
            out.append(("T",) + loops[k])
            k += 1
        else:
            out.append(n)
    return out


def merge_pair(t0, t1, tensor, tensor_ranks, max_fused_per_var=10**9):
    top0, pre0, b0, rest0 = MS.split_at_backing(t0, tensor)
    top1, pre1, b1, rest1 = MS.split_at_backing(t1, tensor)
    if (pre0 is None) != (pre1 is None):
        return None
    if pre0 is None:
        return [("SEQ", [list(t0), list(t1)])]
    if b0 != b1:
        return None
    order = common_order(pre0, pre1)
    if order is None:
        return None
    a = list(top0) + reorder_prefix(pre0, order) + [b0] + list(rest0)
    b = list(top1) + reorder_prefix(pre1, order) + [b1] + list(rest1)
    return MS.merge_two(a, b, tensor)


def rjoin(tables, wl, arch, sizes, tensor, tensor_ranks, names, with_usage=False, persistent=()):
    """tables: einsum -> list of {"tree":…, "energy":…, "latency":…}.
    Returns (front vectors, stats)."""
    e0, e1 = names
    pts, n_pairs, n_compat, n_valid = [], 0, 0, 0
    mems = [m for m in sizes if sizes[m] != float("inf")]
    for r0 in tables[e0]:
        for r1 in tables[e1]:
            n_pairs += 1
            m = merge_pair(r0["tree"], r1["tree"], tensor, tensor_ranks)
            if m is None:
                continue
            n_compat += 1
            peak = X.peak_occupancy(m, arch, wl, persistent=persistent)
            if any(float(peak[mm]) > sizes[mm] * (1 + 1e-9) for mm in mems):
                continue
            n_valid += 1
            v = (r0["energy"] + r1["energy"], r0["latency"] + r1["latency"])
            if with_usage:
                v = v + tuple(float(peak[mm]) / sizes[mm] for mm in mems)
            pts.append(v)
    return pts, {"pairs": n_pairs, "compatible": n_compat, "valid": n_valid}
