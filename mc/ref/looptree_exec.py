"""R-exec — explicit LoopTree executor (DESIGN.md section 3.3).

Interprets a concrete LoopTree with real nested loops and explicit sets of tensor
coordinates.  Semantics implemented here are those of the property statements
(C05, C06, C31) and the component documentation:

* a storage node is (re)filled with its whole tile every time control reaches it,
  i.e. whenever any enclosing loop advances; the data comes from the nearest
  holder of the same tensor above it (its parent), passing through any Toll of
  that tensor in between;
* output tiles are written back to the parent when the body below the storage
  node has finished; inputs are never written back;
* the transfer of an output value that has never been written (no partial sum
  exists anywhere above yet) is a *first read*: it is skipped at the parent's
  read side iff both parent and child have skip_initial_output_write, and at the
  child's fill (write) side iff the child has skip_initial_output_write;
* the compute reads every operand from its innermost holder once per operation,
  reads (unless first) and writes the output once per operation;
* read actions of a level = values it sends down + values it sends up;
  write actions = values it receives from above + values it receives from below;
* values -> actions with the documented precedence
  action.values_per_action > component.values_per_action >
  action.bits_per_action / (component.bits_per_value > workload bits_per_value);
* Toll: no occupancy, no write actions; one read action per value crossing it in
  a counted direction (down: parent->child fills, up: child->parent write-backs);
  a skippable first read crosses the Toll iff the child below takes it (child's
  skip_initial_output_write is False) -- calibrated against analyze_toll (C31);
* energy = sum(actions * energy) + leak_power * latency;
  latency = max over components of sum(actions / throughput);
  everything scales with workload.n_instances * einsum.n_instances;
* occupancy: a storage node's tile is live from the moment control reaches it to
  the end of the enclosing loop iteration; nodes above a sequential split live
  across all branches; peak = max over time of the sum of live tiles * bits.
"""

from __future__ import annotations

import itertools
from fractions import Fraction as F

from mc import specs as S

INF = float("inf")


def _num(x):
    if isinstance(x, str):
        if x.strip() == "inf":
            return INF
        return F(x)
    if isinstance(x, float):
        if x == INF:
            return INF
        return F(str(x))
    return F(x)


class TensorInfo:
    def __init__(self, name, ranks, is_output):
        self.name, self.ranks, self.is_output = name, tuple(ranks), is_output


def einsum_tensors(wl: S.WL, einsum: str):
    return [TensorInfo(t, rk, o) for t, rk, o in wl.tensors_of(einsum)]


def resolve_set(expr: str, tensors, wl: S.WL, einsum: str) -> set:
    """Tiny resolver for the set-expression keys used by the harness' own specs."""
    names = {t.name for t in tensors}
    expr = expr.strip()
    all_out = {e[1] for e in wl.einsums}
    all_in = {t for e in wl.einsums for t, _ in e[3]}
    if expr == "All":
        return set(names)
    if expr == "Nothing":
        return set()
    if expr == "Inputs":
        return {t.name for t in tensors if not t.is_output}
    if expr == "Outputs":
        return {t.name for t in tensors if t.is_output}
    if expr == "Intermediates":
        return names & all_out & all_in
    if expr in names:
        return {expr}
    if expr.startswith("~"):
        return names - resolve_set(expr[1:], tensors, wl, einsum)
    if expr in {e[1] for e in wl.einsums} | all_in:
        return set()  # a tensor of another Einsum
    raise ValueError(f"R-exec cannot resolve set expression {expr!r}")


def _lookup(pairs, tensor, tensors, wl, einsum):
    for k, v in pairs:
        if tensor in resolve_set(k, tensors, wl, einsum):
            return _num(v)
    return None


def workload_bpv(wl: S.WL, tensor, tensors, einsum):
    if isinstance(wl.bits, int):
        return F(wl.bits)
    v = _lookup(wl.bits, tensor, tensors, wl, einsum)
    if v is None:
        raise ValueError("no bits_per_value for " + tensor)
    return v


def bits_per_value(mem: S.Mem, wl, tensor, tensors, einsum):
    v = _lookup(mem.bpv, tensor, tensors, wl, einsum)
    return v if v is not None else workload_bpv(wl, tensor, tensors, einsum)


def values_per_action(mem: S.Mem, action: str, wl, tensor, tensors, einsum):
    v = _lookup([(k, x) for a, k, x in mem.act_vpa if a == action], tensor, tensors, wl, einsum)
    if v is not None:
        return v
    v = _lookup(mem.vpa, tensor, tensors, wl, einsum)
    if v is not None:
        return v
    bpa = dict(mem.act_bpa).get(action)
    if bpa is None:
        bpa = mem.bpa if mem.bpa is not None else 1
    return _num(bpa) / bits_per_value(mem, wl, tensor, tensors, einsum)


class ExecResult:
    def __init__(self):
        self.values = {}  # (level, tensor, 'read'|'write') -> values moved
        self.computes = 0
        self.peak_bits = {}  # level -> peak occupancy in bits
        self.actions = {}  # (level, tensor, action) -> Fraction
        self.energy = None
        self.latency = None
        self.per_component_latency = {}

    def add(self, level, tensor, rw, n=1):
        k = (level, tensor, rw)
        self.values[k] = self.values.get(k, 0) + n


def execute(tree, arch: S.Arch, wl: S.WL, directions=None) -> ExecResult:
    """Execute a (possibly fused) LoopTree.  `directions`: toll name -> {tensor: dir}."""
    res = ExecResult()
    mems = {m.name: m for m in arch.holders}
    comp = arch.compute
    bounds = dict(wl.bounds)
    all_out = {e[1] for e in wl.einsums}
    all_in = {t for e in wl.einsums for t, _ in e[3]}
    tinfo = {}
    for e in wl.einsums:
        for t in einsum_tensors(wl, e[0]):
            tinfo.setdefault(t.name, t)
    skip = {m.name: (True if m.skip is None else m.skip) for m in arch.holders}
    is_toll = {m.name: m.kind == "Toll" for m in arch.holders}
    comp_skip = True if comp.skip is None else comp.skip

    live_bits = {m.name: F(0) for m in arch.holders}
    peak = {m.name: F(0) for m in arch.holders}
    # has_data[tensor] : coordinates for which a partial sum / real value exists in
    # the outermost holder (inputs: always).  Lower copies carry their own flag set.
    written_anywhere = {}

    def coords(t: TensorInfo, ranges):
        axes = []
        for rv in t.ranks:
            lo, n = ranges[rv]
            axes.append(range(lo, lo + n))
        return list(itertools.product(*axes))

    def bpv_of(level, tensor, einsum):
        return bits_per_value(mems[level], wl, tensor, einsum_tensors(wl, einsum), einsum)

    # holder chain: list of dicts {level, tensor, has(set of coords with data), tile}
    def run(nodes, i, ranges, chain, einsum_hint):
        """chain: tuple of active holder instances (outermost first)."""
        if i == len(nodes):
            return
        n = nodes[i]
        kind = n[0]
        if kind == "S":
            level, tensor = n[1], n[2]
            t = tinfo[tensor]
            tile = coords(t, ranges)
            # nearest real holder / tolls above for this tensor
            parent = None
            tolls_between = []
            for inst in reversed(chain):
                if inst["tensor"] != tensor:
                    continue
                if inst["toll"]:
                    tolls_between.append(inst)
                    continue
                parent = inst
                break
            inst = {"level": level, "tensor": tensor, "toll": is_toll[level], "has": set(),
                    "tile": tile}
            if inst["toll"]:
                run(nodes, i + 1, ranges, chain + (inst,), einsum_hint)
                return
            einsum = einsum_hint or _einsum_of(nodes[i:])
            b = bpv_of(level, tensor, einsum) * len(tile)
            live_bits[level] += b
            peak[level] = max(peak[level], live_bits[level])
            if parent is None:
                # backing holder: holds real data for inputs / previously produced tensors
                st = written_anywhere.setdefault(tensor, set() if tensor in all_out else None)
                inst["has"] = st if st is not None else None  # None == everything has data
                produced = tensor in all_out
            else:
                ph = parent["has"]
                for c in tile:
                    has = True if ph is None else (c in ph)
                    if has:
                        res.add(parent["level"], tensor, "read")
                        res.add(level, tensor, "write")
                        for tl in tolls_between:
                            if _dir(directions, tl["level"], tensor) != "up":
                                res.add(tl["level"], tensor, "read")
                        inst["has"].add(c)
                    else:
                        # never-written output value: a skippable first read
                        if not (skip[level] and skip[parent["level"]]):
                            res.add(parent["level"], tensor, "read")
                        if not skip[level]:
                            res.add(level, tensor, "write")
                        for tl in tolls_between:
                            # a Toll has no skip setting of its own ("things just pass
                            # through ... it inherits the value from the child"): the
                            # never-written value crosses it iff the child below actually
                            # takes it, i.e. iff the child's fill is charged
                            if _dir(directions, tl["level"], tensor) != "up" and not skip[level]:
                                res.add(tl["level"], tensor, "read")
            run(nodes, i + 1, ranges, chain + (inst,), einsum_hint)
            # write back (only tensors written by the Einsum(s) below)
            if parent is not None and _is_written_below(nodes[i + 1:], tensor, wl):
                for c in tile:
                    res.add(level, tensor, "read")
                    res.add(parent["level"], tensor, "write")
                    for tl in tolls_between:
                        if _dir(directions, tl["level"], tensor) != "down":
                            res.add(tl["level"], tensor, "read")
                    if parent["has"] is not None:
                        parent["has"].add(c)
            live_bits[level] -= b
            return
        if kind == "T":
            var, tile_shape = n[1], n[2]
            lo, size = ranges[var]
            for o in range(lo, lo + size, tile_shape):
                r2 = dict(ranges)
                r2[var] = (o, min(tile_shape, lo + size - o))
                run(nodes, i + 1, r2, chain, einsum_hint)
            return
        if kind == "SEQ":
            for br in n[1]:
                run(br, 0, ranges, chain, _einsum_of(br))
            return
        if kind == "C":
            einsum = n[1]
            ts = einsum_tensors(wl, einsum)
            for t in ts:
                if any(ranges[rv][1] != 1 for rv in t.ranks):
                    raise ValueError("compute reached with a tile larger than one point")
            res.computes += 1
            for t in ts:
                c = tuple(ranges[rv][0] for rv in t.ranks)
                holder, tolls_between = None, []
                for inst in reversed(chain):
                    if inst["tensor"] != t.name:
                        continue
                    if inst["toll"]:
                        tolls_between.append(inst)
                        continue
                    holder = inst
                    break
                if holder is None:
                    raise ValueError(f"no holder for {t.name}")
                hl = holder["level"]
                if not t.is_output:
                    res.add(hl, t.name, "read")
                    for tl in tolls_between:
                        if _dir(directions, tl["level"], t.name) != "up":
                            res.add(tl["level"], t.name, "read")
                else:
                    has = True if holder["has"] is None else (c in holder["has"])
                    if has or not (comp_skip and skip[hl]):
                        res.add(hl, t.name, "read")
                    # Toll: a never-written value crosses it iff the compute below takes
                    # it (the Toll inherits the skip of its child, see above)
                    if has or not comp_skip:
                        for tl in tolls_between:
                            if _dir(directions, tl["level"], t.name) != "up":
                                res.add(tl["level"], t.name, "read")
                    res.add(hl, t.name, "write")
                    for tl in tolls_between:
                        if _dir(directions, tl["level"], t.name) != "down":
                            res.add(tl["level"], t.name, "read")
                    if holder["has"] is not None:
                        holder["has"].add(c)
            return
        raise ValueError(n)

    ranges0 = {v: (0, b) for v, b in bounds.items()}
    run(list(tree), 0, ranges0, (), _einsum_of(tree) if _n_computes(tree) == 1 else None)
    res.peak_bits = peak
    return res


def sink_storage(tree, wl: S.WL):
    """Effective positions of storage nodes for occupancy.

    A storage node that is not the outermost holder of its tensor and is directly
    followed by loops over rank variables of its own tensor *streams* its tile: the
    values needed by one iteration of those loops are used in that iteration only
    (live from first to last use), so the node behaves as if written below them.
    Sinking stops at the first loop that is irrelevant to the tensor, at the next
    storage node of the same Einsum, at a split and at the compute.  The order of
    nodes in the LoopTree is significant (only a node directly above the loops
    streams).  Returns a new tree.
    """
    tens = {e[0]: {t for t, _, _ in wl.tensors_of(e[0])} for e in wl.einsums}
    ranks = {}
    for e in wl.einsums:
        for t, rk, _ in wl.tensors_of(e[0]):
            ranks[t] = set(rk)

    def owner(tensor, hint):
        if hint is not None:
            return hint
        own = [e for e, ts in tens.items() if tensor in ts]
        return own[0] if len(own) == 1 else None

    def rec(nodes, held, einsum):
        n = len(nodes)
        target = list(range(n))
        h = set(held)
        for i, nd in enumerate(nodes):
            if nd[0] != "S":
                continue
            t = nd[2]
            if t not in h:
                h.add(t)
                continue  # backing holder: never streams
            e = owner(t, einsum)
            if e is None:
                continue
            j, last = i + 1, i
            while j < n:
                m = nodes[j]
                if m[0] == "S":
                    if m[2] in tens[e]:
                        break
                    j += 1
                    continue
                if m[0] == "T" and m[1] in ranks[t]:
                    last = j
                    j += 1
                    continue
                break
            target[i] = last
        out = []
        h = set(held)
        for p, nd in enumerate(nodes):
            if nd[0] == "S":
                h.add(nd[2])
            if target[p] == p:
                if nd[0] == "SEQ":
                    out.append(("SEQ", [rec(b, h, _einsum_of(b)) for b in nd[1]]))
                else:
                    out.append(nd)
            for q in range(p):
                if target[q] == p and target[q] != q:
                    out.append(nodes[q])
        return out

    return rec(list(tree), set(), _einsum_of(tree) if _n_computes(tree) == 1 else None)


def peak_occupancy(tree, arch: S.Arch, wl: S.WL, persistent=(), full_iteration=False):
    """Execution-time peak occupancy (bits) per memory of a possibly fused LoopTree.

    Liveness rules (property C06 / the LoopTree documentation):
      * a storage node's tile is allocated when control reaches it and freed when
        the enclosing loop iteration (or branch) ends;
      * storage nodes above a sequential split live across all its branches;
      * the backing storage node of a tensor shared between branches is written at
        the head of every branch that uses it: it is ONE allocation, live from the
        first to the last branch that uses the tensor;
      * persistent tensors' backing allocations are multiplied by the instance count
        (workload.n_instances * einsum.n_instances).
    Tolls never occupy space.
    """
    tree = sink_storage(tree, wl)
    mems = {m.name: m for m in arch.holders}
    is_toll = {m.name: m.kind == "Toll" for m in arch.holders}
    bounds = dict(wl.bounds)
    tinfo = {}
    t2einsum = {}
    for e in wl.einsums:
        for t in einsum_tensors(wl, e[0]):
            tinfo.setdefault(t.name, t)
            t2einsum.setdefault(t.name, e[0])
    live = {m.name: F(0) for m in arch.holders}
    peak = {m.name: F(0) for m in arch.holders}
    eni = dict(wl.einsum_n_instances)

    def bits(level, tensor, ranges, einsum, backing):
        t = tinfo[tensor]
        n = 1
        for rv in t.ranks:
            n *= ranges[rv][1]
        e = einsum or t2einsum[tensor]
        b = bits_per_value(mems[level], wl, tensor, einsum_tensors(wl, e), e) * n
        if backing and tensor in persistent:
            b *= F(wl.n_instances) * F(eni.get(e, 1))
        return b

    def alloc(level, b):
        live[level] += b
        if live[level] > peak[level]:
            peak[level] = live[level]

    def head(branch):
        out = []
        for n in branch:
            if n[0] != "S":
                break
            out.append((n[1], n[2]))
        return out

    tens_of = {e[0]: {t for t, _, _ in wl.tensors_of(e[0])} for e in wl.einsums}

    def run(nodes, i, ranges, held, suppressed, einsum):
        """held: tensors that already have a (non-toll) holder above."""
        if i == len(nodes):
            return
        n = nodes[i]
        if n[0] == "S":
            # storage nodes directly above a split (nothing but storage nodes between
            # them and the split) are scoped like the branch heads: see SEQ below
            j = i
            while j < len(nodes) and nodes[j][0] == "S":
                j += 1
            if j < len(nodes) and nodes[j][0] == "SEQ":
                pre = [(m[1], m[2]) for m in nodes[i:j] if not is_toll[m[1]]]
                run_seq(nodes[j][1], ranges, held, pre)
                return
            level, tensor = n[1], n[2]
            if is_toll[level] or (level, tensor) in suppressed:
                run(nodes, i + 1, ranges, held | ({tensor} if not is_toll[level] else set()),
                    suppressed - {(level, tensor)}, einsum)
                return
            b = bits(level, tensor, ranges, einsum or _einsum_of(nodes[i:]), tensor not in held)
            alloc(level, b)
            run(nodes, i + 1, ranges, held | {tensor}, suppressed, einsum)
            live[level] -= b
            return
        if n[0] == "T":
            var, ts = n[1], n[2]
            lo, size = ranges[var]
            # with a perfectly factorising loop every iteration allocates and frees the
            # same amounts, and everything allocated inside is freed before the next
            # iteration: executing one iteration gives the peak (exact shortcut)
            origins = [lo] if (size % ts == 0 and not full_iteration) else range(lo, lo + size, ts)
            for o in origins:
                r2 = dict(ranges)
                r2[var] = (o, min(ts, lo + size - o))
                run(nodes, i + 1, r2, held, suppressed, einsum)
            return
        if n[0] == "SEQ":
            run_seq(n[1], ranges, held, [])
            return
        if n[0] == "C":
            return
        raise ValueError(n)

    def run_seq(branches, ranges, held, pre):
        """Allocations at the head of a split -- storage nodes directly above it (`pre`)
        and storage nodes at the head of several branches (the backing node of a
        shared tensor is repeated in every branch that uses it) -- are live from the
        first to the last branch that uses their tensor."""
        heads = [head(b) for b in branches]
        einsums = [_einsum_of(b) for b in branches]
        users = {}
        for k in pre:
            users[k] = [j for j, e in enumerate(einsums) if k[1] in tens_of[e]]
        count = {}
        for j, h in enumerate(heads):
            for k in set(h):
                if k in users or is_toll[k[0]] or k[1] in held:
                    continue
                count.setdefault(k, []).append(j)
        for k, js in count.items():
            if len(js) >= 2:
                users[k] = js
        users = {k: js for k, js in users.items() if js}
        # persistent tensors live throughout: their backing allocation spans every branch
        for k in list(users):
            if k[1] in persistent and k[1] not in held:
                users[k] = list(range(len(branches)))
        sizes = {}
        held_pre = held | {k[1] for k in pre}
        for j, br in enumerate(branches):
            for k, js in users.items():
                if js[0] == j:
                    sizes[k] = bits(k[0], k[1], ranges, einsums[j], k[1] not in held)
                    alloc(k[0], sizes[k])
            live_now = {k for k, js in users.items() if js[0] <= j <= js[-1]}
            run(br, 0, ranges, held_pre | {k[1] for k in live_now}, live_now & set(heads[j]), einsums[j])
            for k, js in users.items():
                if js[-1] == j:
                    live[k[0]] -= sizes[k]

    run(list(tree), 0, {v: (0, b) for v, b in bounds.items()}, frozenset(), frozenset(),
        _einsum_of(tree) if _n_computes(tree) == 1 else None)
    return peak


def _dir(directions, toll, tensor):
    if not directions:
        return "up_and_down"
    d = directions.get(toll, "up_and_down")
    if isinstance(d, dict):
        return d.get(tensor, "up_and_down")
    return d


def _n_computes(nodes):
    k = 0
    for n in nodes:
        if n[0] == "C":
            k += 1
        elif n[0] == "SEQ":
            k += sum(_n_computes(b) for b in n[1])
    return k


def _einsum_of(nodes):
    for n in nodes:
        if n[0] == "C":
            return n[1]
        if n[0] == "SEQ":
            for b in n[1]:
                e = _einsum_of(b)
                if e:
                    return e
    return None


def _einsums_below(nodes):
    out = []
    for n in nodes:
        if n[0] == "C":
            out.append(n[1])
        elif n[0] == "SEQ":
            for b in n[1]:
                out.extend(_einsums_below(b))
    return out


def _is_written_below(nodes, tensor, wl: S.WL):
    outs = {e[0]: e[1] for e in wl.einsums}
    return any(outs[e] == tensor for e in _einsums_below(nodes))


def finish(res: ExecResult, arch: S.Arch, wl: S.WL, einsum: str):
    """values -> actions -> energy / latency for a single-Einsum execution."""
    ts = einsum_tensors(wl, einsum)
    mems = {m.name: m for m in arch.holders}
    comp = arch.compute
    n_inst = F(wl.n_instances) * F(dict(wl.einsum_n_instances).get(einsum, 1))
    actions = {}
    for (level, tensor, rw), v in res.values.items():
        vpa = values_per_action(mems[level], rw, wl, tensor, ts, einsum)
        actions[(level, tensor, rw)] = F(v) / vpa
    res.actions = {k: v * n_inst for k, v in actions.items()}
    lat = {}
    for m in arch.holders:
        tot = F(0)
        for rw, thr in (("read", m.read_throughput), ("write", m.write_throughput)):
            a = sum((v for (l, t, r), v in actions.items() if l == m.name and r == rw), F(0))
            thr = _num(thr)
            if a and thr != INF:
                tot += a / thr
        lat[m.name] = tot
    cthr = _num(comp.throughput)
    lat[comp.name] = F(res.computes) / cthr if cthr != INF else F(0)
    latency = max(lat.values())
    energy = F(0)
    for (level, tensor, rw), a in actions.items():
        m = mems[level]
        energy += a * _num(m.read_energy if rw == "read" else m.write_energy)
    energy += F(res.computes) * _num(comp.energy)
    leak = sum((_num(m.leak) for m in arch.holders), F(0)) + _num(comp.leak)
    energy += leak * latency
    res.latency = latency * n_inst
    res.energy = energy * n_inst
    res.per_component_latency = {k: v * n_inst for k, v in lat.items()}
    res.compute_actions = F(res.computes) * n_inst
    return res
