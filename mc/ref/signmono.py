"""R-signmono — exact pointwise reference for sign / monotonicity verdicts (C09).

A boring evaluator: a sympy expression built from numbers, symbols, Add, Mul,
integer powers, ceiling/floor, Max, Min and Heaviside is compiled to a Python
closure over ``fractions.Fraction`` (no sympy evaluation, no floating point: sympy
``Float`` leaves are converted to the exact binary rational they denote).  The
oracles enumerate every integer point of a box and report

* ``sign_profile``  : min / max of f over the box (with the arg-points),
* ``mono_profile``  : for a symbol s, the first step s -> s+1 (other symbols fixed
                      at every point of their boxes) on which f decreases / increases,
* ``deriv_profile`` : for step-free f (rational functions) the exact partial
                      derivative df/ds at every integer point (forward-mode dual
                      numbers over Fractions) -> its min / max.

Anything else (Derivative, Subs, non-integer powers, ...) raises ``Unevaluable``.
"""

from __future__ import annotations

import itertools
import math
from fractions import Fraction

import sympy


class Unevaluable(Exception):
    pass


class Dual:
    """a + b*eps over Fractions (eps^2 = 0)."""

    __slots__ = ("a", "b")

    def __init__(self, a, b=0):
        self.a = Fraction(a)
        self.b = Fraction(b)

    @staticmethod
    def lift(x):
        return x if isinstance(x, Dual) else Dual(x, 0)

    def __add__(self, o):
        o = Dual.lift(o)
        return Dual(self.a + o.a, self.b + o.b)

    __radd__ = __add__

    def __neg__(self):
        return Dual(-self.a, -self.b)

    def __sub__(self, o):
        return self + (-Dual.lift(o))

    def __rsub__(self, o):
        return Dual.lift(o) + (-self)

    def __mul__(self, o):
        o = Dual.lift(o)
        return Dual(self.a * o.a, self.a * o.b + self.b * o.a)

    __rmul__ = __mul__

    def inv(self):
        if self.a == 0:
            raise ZeroDivisionError
        return Dual(1 / self.a, -self.b / (self.a * self.a))

    def ipow(self, n: int):
        if n == 0:
            return Dual(1, 0)
        if n < 0:
            return self.inv().ipow(-n)
        r = Dual(1, 0)
        for _ in range(n):
            r = r * self
        return r


def _pw(b, n):
    if isinstance(b, Dual):
        return b.ipow(n)
    b = Fraction(b)
    if n < 0 and b == 0:
        raise ZeroDivisionError
    return b ** n


def _nodual(*xs):
    for x in xs:
        if isinstance(x, Dual):
            raise Unevaluable("step function of a dual number")


def _ceil(x):
    _nodual(x)
    return math.ceil(Fraction(x))


def _floor(x):
    _nodual(x)
    return math.floor(Fraction(x))


def _mx(*xs):
    _nodual(*xs)
    return max(xs)


def _mn(*xs):
    _nodual(*xs)
    return min(xs)


def _hv(x, h0):
    _nodual(x)
    if x > 0:
        return 1
    if x < 0:
        return 0
    if h0 is None:
        raise Unevaluable("Heaviside(0) undefined")
    return h0


_ENV = {"_pw": _pw, "_ceil": _ceil, "_floor": _floor, "_mx": _mx, "_mn": _mn, "_hv": _hv,
        "_F": Fraction}


def _num(e) -> Fraction:
    if e.is_Integer:
        return Fraction(int(e))
    if e.is_Rational:
        return Fraction(int(e.p), int(e.q))
    if e.is_Float:
        if e._prec > 53:
            raise Unevaluable(f"high precision float {e!r}")
        return Fraction(float(e))  # exact: the binary rational the float denotes
    raise Unevaluable(f"number {e!r}")


def _src(e, names: dict, consts: list) -> str:
    if e.is_Symbol:
        if e not in names:
            raise Unevaluable(f"free symbol {e} without bounds")
        return names[e]
    if e.is_Number:
        if e.is_Integer:
            return f"({int(e)})"
        consts.append(_num(e))
        return f"_c[{len(consts) - 1}]"
    if e in (sympy.zoo, sympy.oo, -sympy.oo, sympy.nan):
        raise Unevaluable("infinite / nan constant")
    if isinstance(e, sympy.Add):
        return "(" + "+".join(_src(a, names, consts) for a in e.args) + ")"
    if isinstance(e, sympy.Mul):
        return "(" + "*".join(_src(a, names, consts) for a in e.args) + ")"
    if isinstance(e, sympy.Pow):
        b, x = e.args
        if not x.is_Integer:
            raise Unevaluable(f"non-integer power {e}")
        return f"_pw({_src(b, names, consts)},{int(x)})"
    if isinstance(e, sympy.ceiling):
        return f"_ceil({_src(e.args[0], names, consts)})"
    if isinstance(e, sympy.floor):
        return f"_floor({_src(e.args[0], names, consts)})"
    if isinstance(e, sympy.Max):
        return "_mx(" + ",".join(_src(a, names, consts) for a in e.args) + ")"
    if isinstance(e, sympy.Min):
        return "_mn(" + ",".join(_src(a, names, consts) for a in e.args) + ")"
    if isinstance(e, sympy.Heaviside):
        if len(e.args) == 1:
            h0 = "_F(1,2)"  # sympy's default H(0)
        else:
            h0 = _src(e.args[1], names, consts)
        return f"_hv({_src(e.args[0], names, consts)},{h0})"
    raise Unevaluable(f"constructor {type(e).__name__}")


def compile_expr(expr, syms):
    """-> f(*values) evaluating expr exactly; values are Fractions / ints / Duals."""
    expr = sympy.sympify(expr)
    names = {s: f"x{i}" for i, s in enumerate(syms)}
    consts: list = []
    body = _src(expr, names, consts)
    env = dict(_ENV)
    env["_c"] = consts
    return eval(f"lambda {','.join(names[s] for s in syms)}: {body}", env)


STEP_KINDS = (sympy.ceiling, sympy.floor, sympy.Max, sympy.Min, sympy.Heaviside)


def is_step_free(expr) -> bool:
    return not sympy.sympify(expr).has(*STEP_KINDS)


# --------------------------------------------------------------------------------------
# boxes
# --------------------------------------------------------------------------------------

def _thin(lo, hi, level):
    """Deterministic sub-grids of [lo, hi] (only used when a box exceeds the cap)."""
    full = list(range(lo, hi + 1))
    if level == 0 or len(full) <= 2:
        return full
    mid = (lo + hi) // 2
    if level == 1:
        pts = {lo, lo + 1, lo + 2, mid, hi - 1, hi}
    elif level == 2:
        pts = {lo, lo + 1, mid, hi}
    elif level == 3:
        pts = {lo, mid, hi}
    else:
        pts = {lo, hi}
    return sorted(p for p in pts if lo <= p <= hi)


def axes_for(bounds, cap_axis=12, cap_total=20000, focus=None):
    """bounds: [(sym, lo, hi)].  Returns (axes, reduced) where axes[i] is the list of
    integer values used for symbol i.  Every integer of [lo, hi] is used unless the
    axis has more than ``cap_axis`` points (then the first cap_axis consecutive ones
    plus hi) or the whole box has more than ``cap_total`` points (then the non-focus
    axes are thinned, widest first, to deterministic sub-grids)."""
    reduced = False
    axes = []
    for (s, lo, hi) in bounds:
        lo, hi = int(lo), int(hi)
        if hi - lo + 1 > cap_axis:
            reduced = True
            ax = list(range(lo, lo + cap_axis - 1)) + [hi]
        else:
            ax = list(range(lo, hi + 1))
        axes.append(ax)
    level = {i: 0 for i in range(len(axes))}

    def total():
        t = 1
        for a in axes:
            t *= len(a)
        return t

    while total() > cap_total:
        cands = [i for i in range(len(axes)) if bounds[i][0] != focus and level[i] < 4 and len(axes[i]) > 2]
        if not cands:
            break
        i = max(cands, key=lambda j: (len(axes[j]), -j))
        level[i] += 1
        axes[i] = _thin(int(bounds[i][1]), int(bounds[i][2]), level[i])
        reduced = True
    return axes, reduced


# --------------------------------------------------------------------------------------
# oracles
# --------------------------------------------------------------------------------------

def sign_profile(expr, bounds, **caps):
    syms = [b[0] for b in bounds]
    f = compile_expr(expr, syms)
    axes, reduced = axes_for(bounds, **caps)
    mn = mx = None
    amn = amx = None
    n = 0
    for pt in itertools.product(*axes):
        try:
            v = f(*pt)
        except ZeroDivisionError:
            return {"undefined_at": list(pt), "reduced": reduced}
        n += 1
        if mn is None or v < mn:
            mn, amn = v, pt
        if mx is None or v > mx:
            mx, amx = v, pt
    return {"min": mn, "argmin": list(amn), "max": mx, "argmax": list(amx), "n": n,
            "reduced": reduced}


def sign_class(p) -> str:
    if "undefined_at" in p:
        return "undefined"
    mn, mx = p["min"], p["max"]
    if mn == 0 and mx == 0:
        return "zero"
    if mn > 0:
        return "pos"
    if mx < 0:
        return "neg"
    if mn == 0:
        return "nonneg"
    if mx == 0:
        return "nonpos"
    return "mixed"


def mono_profile(expr, s, bounds, **caps):
    """Steps of f along s on consecutive integers, other symbols fixed at every point."""
    syms = [b[0] for b in bounds]
    if s not in syms:
        return {"n_steps": 0, "up": None, "down": None, "reduced": False}
    f = compile_expr(expr, syms)
    axes, reduced = axes_for(bounds, focus=s, **caps)
    k = syms.index(s)
    s_axis = axes[k]
    others = axes[:k] + axes[k + 1:]
    up = down = None  # first strictly increasing / strictly decreasing step
    n_steps = 0
    for rest in itertools.product(*others):
        prev = None
        prev_x = None
        for x in s_axis:
            pt = rest[:k] + (x,) + rest[k:]
            try:
                v = f(*pt)
            except ZeroDivisionError:
                return {"undefined_at": list(pt), "reduced": reduced}
            if prev is not None and x == prev_x + 1:
                n_steps += 1
                if v > prev and up is None:
                    up = {"at": list(rest[:k] + (prev_x,) + rest[k:]), "f": prev, "f_next": v}
                if v < prev and down is None:
                    down = {"at": list(rest[:k] + (prev_x,) + rest[k:]), "f": prev, "f_next": v}
            prev, prev_x = v, x
    return {"n_steps": n_steps, "up": up, "down": down, "reduced": reduced}


def mono_class(p) -> str:
    if "undefined_at" in p:
        return "undefined"
    if p["n_steps"] == 0:
        return "single"
    if p["up"] is None and p["down"] is None:
        return "const"
    if p["down"] is None:
        return "inc"
    if p["up"] is None:
        return "dec"
    return "mixed"


def deriv_profile(expr, s, bounds, **caps):
    """Exact df/ds at every integer point; only for step-free expressions."""
    if not is_step_free(expr):
        raise Unevaluable("not step free")
    syms = [b[0] for b in bounds]
    f = compile_expr(expr, syms)
    axes, reduced = axes_for(bounds, focus=s, **caps)
    k = syms.index(s) if s in syms else None
    mn = mx = amn = amx = None
    for pt in itertools.product(*axes):
        args = [Dual(v, 1 if i == k else 0) for i, v in enumerate(pt)]
        try:
            d = Dual.lift(f(*args)).b
        except ZeroDivisionError:
            return {"undefined_at": list(pt), "reduced": reduced}
        if mn is None or d < mn:
            mn, amn = d, pt
        if mx is None or d > mx:
            mx, amx = d, pt
    return {"min": mn, "argmin": list(amn), "max": mx, "argmax": list(amx), "reduced": reduced}


def fr(x):
    """JSON-able rendering of a Fraction."""
    if x is None:
        return None
    x = Fraction(x)
    return int(x) if x.denominator == 1 else f"{x.numerator}/{x.denominator}"
