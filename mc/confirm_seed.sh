#!/bin/bash
# usage: confirm_seed.sh <seed-id>
# Confirms a seeded change in scratch copies of /repo (removed afterwards):
#   1. the demo FAILS on /repo + patch and PASSES on pristine /repo
#   2. the repository's own test suite (stable_pass of BASELINE.json) still passes with the patch
# Writes /verif/seeded/<id>/confirm.log
ID="$1"; S="/verif/seeded/$ID"; LOG="$S/confirm.log"
P="/tmp/af-confirm-$ID-patched"; Q="/tmp/af-confirm-$ID-pristine"
rm -rf "$P" "$Q"; mkdir -p "$P" "$Q"
rsync -a --exclude .git --exclude '__pycache__' /repo/ "$P/"; rsync -a --exclude .git --exclude '__pycache__' /repo/ "$Q/"
{
echo "seed $ID confirmed against /repo at $(git -C /repo rev-parse --short HEAD) on $(date -u +%FT%TZ)"
(cd "$P" && patch -p1 -s < "$S/patch.diff") && echo "patch applies: yes" || { echo "patch applies: NO"; exit 3; }
cp "$S/demo.py" "$P/SEED_demo.py"; cp "$S/demo.py" "$Q/SEED_demo.py"
(cd "$P" && PYTHONPATH="$P" TQDM_DISABLE=1 timeout 3000 /venv/bin/python SEED_demo.py > "$P/demo.out" 2>&1); rc1=$?
echo "demo on patched tree: exit $rc1 (expected non-zero)"; tail -3 "$P/demo.out" | sed 's/^/    /'
(cd "$Q" && PYTHONPATH="$Q" TQDM_DISABLE=1 timeout 3000 /venv/bin/python SEED_demo.py > "$Q/demo.out" 2>&1); rc2=$?
echo "demo on pristine tree: exit $rc2 (expected 0)"; tail -3 "$Q/demo.out" | sed 's/^/    /'
echo "repository test suite on patched tree (stable_pass of BASELINE.json):"
PYTHONPATH="$P" /verif/baseline_check.sh "$P" > "$P/baseline.out" 2>&1; brc=$?
grep -E "stable_pass|REGRESSION" "$P/baseline.out" | sed 's/^/    /'; tail -1 "$P/baseline.out" | sed 's/^/    /'
echo "baseline exit: $brc"
if [ $brc -ne 0 ]; then
  # heavy regression tests hit the 900 s pytest timeout when the machine is shared: re-run the
  # regressed tests on their own (patched tree), one process, generous timeout
  ids=$(grep REGRESSION "$P/baseline.out" | awk '{print $2}' | sed 's/^tests\.\(.*\)\.\([A-Za-z0-9_]*\)::/tests\/\1.py::\2::/; s/\./\//g; s/\/py::/.py::/')
  echo "re-running regressed tests individually:"
  (cd "$P" && PYTHONPATH="$P" /venv/bin/python -m pytest -q -p no:cacheprovider --timeout=7200 $ids 2>&1 | tail -3 | sed 's/^/    /')
fi
} > "$LOG" 2>&1
rm -rf "$P" "$Q"
tail -4 "$LOG"
