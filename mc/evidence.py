"""Evidence writer, known-finding matcher, replay files (DESIGN.md section 3.6)."""

from __future__ import annotations

import json
import os
import time
from pathlib import Path

ROOT = Path(__file__).resolve().parent.parent
EVIDENCE_SCHEMA = Path("/root/.vp/EVIDENCE.schema.json")
EVIDENCE_SCHEMA_LOCAL = ROOT / "mc" / "EVIDENCE.schema.json"
KNOWN = ROOT / "known_findings.json"


def _schema():
    for p in (EVIDENCE_SCHEMA, EVIDENCE_SCHEMA_LOCAL):
        if p.exists():
            return json.loads(p.read_text())
    return None


def load_known(prop: str) -> list[dict]:
    if not KNOWN.exists():
        return []
    data = json.loads(KNOWN.read_text())
    return [f for f in data.get("findings", []) if f.get("property") == prop]


def match_known(violation: dict, known: list[dict]) -> dict | None:
    """A violation is suppressed only by a `known` entry naming its exact key or
    its exact family (a string naming the specific failing input pattern / call
    site, computed by the check).  `fixed` entries suppress nothing."""
    for f in known:
        if f.get("status") != "known":
            continue
        m = f.get("match", {})
        if "key" in m and m["key"] == violation.get("key"):
            return f
        if "family" in m and violation.get("family") is not None and m["family"] == violation.get("family"):
            return f
    return None


def jsonable(x):
    return json.loads(json.dumps(x, default=_default))


def _default(o):
    try:
        import numpy as np

        if isinstance(o, np.generic):
            return o.item()
        if isinstance(o, np.ndarray):
            return o.tolist()
    except Exception:
        pass
    if isinstance(o, (set, frozenset)):
        return sorted(map(repr, o))
    return repr(o)


def write_replay(prop: str, tier: str, violation: dict) -> str:
    d = ROOT / "replays" / prop
    d.mkdir(parents=True, exist_ok=True)
    n = 0
    while (d / f"{n}.json").exists():
        n += 1
    p = d / f"{n}.json"
    rec = {"property": prop, "tier": tier}
    rec.update(jsonable(violation))
    p.write_text(json.dumps(rec, indent=1))
    return str(p)


def clear_replays(prop: str):
    d = ROOT / "replays" / prop
    if d.exists():
        for f in d.glob("*.json"):
            f.unlink()


def write_evidence(prop: str, tier: str, seed: int, coverage: dict, assumptions: list[str],
                   wall_s: float, violations: int, extra: dict | None = None) -> Path:
    ev = {
        "property_id": prop,
        "tier": tier,
        "seed": int(seed),
        "level": "model_checking",
        "coverage": jsonable(coverage),
        "assumptions": assumptions,
        "wall_s": round(float(wall_s), 3),
        "violations": int(violations),
    }
    if extra:
        ev.update(jsonable(extra))
    sch = _schema()
    if sch is not None:
        import jsonschema

        jsonschema.validate(ev, sch)
    out = ROOT / "evidence" / f"{prop}.json"
    out.parent.mkdir(exist_ok=True)
    tmp = out.with_suffix(".json.tmp")
    tmp.write_text(json.dumps(ev, indent=1))
    os.replace(tmp, out)
    return out
