"""Small-spec family (DESIGN.md section 3.2): jinja-free YAML builders.

A *spec id* is a plain tuple/dict of choices; `build_spec(sid)` returns a fresh
`Spec`.  Everything here is deterministic text generation.
"""

from __future__ import annotations

import os
import tempfile
from dataclasses import dataclass, field, asdict
from typing import Any

INF = "inf"


# --------------------------------------------------------------------- workloads

@dataclass(frozen=True)
class WL:
    """Workload description.

    einsums: tuple of (name, out_tensor, out_ranks, ((in_tensor, in_ranks), ...))
             ranks are tuples of rank-variable names (dense, stride-1) or
             strings 'R: expr' for explicit projections.
    bounds:  tuple of (rank_variable, size)
    """

    einsums: tuple
    bounds: tuple
    bits: Any = 8  # int or tuple of (set-expression, bits)
    persistent: str | None = None
    n_instances: int = 1
    einsum_n_instances: tuple = ()  # ((einsum, n),...)

    def yaml(self) -> str:
        out = ["workload:"]
        if self.n_instances != 1:
            out.append(f"  n_instances: {self.n_instances}")
        out.append("  iteration_space_shape:")
        for v, n in self.bounds:
            out.append(f"    {v}: 0 <= {v} < {n}")
        if isinstance(self.bits, int):
            out.append(f"  bits_per_value: {{All: {self.bits}}}")
        else:
            out.append("  bits_per_value: {" + ", ".join(f'"{k}": {v}' for k, v in self.bits) + "}")
        if self.persistent:
            out.append(f"  persistent_tensors: {self.persistent}")
        out.append("  einsums:")
        eni = dict(self.einsum_n_instances)
        for name, ot, orank, ins in self.einsums:
            out.append(f"  - name: {name}")
            if name in eni:
                out.append(f"    n_instances: {eni[name]}")
            out.append("    tensor_accesses:")
            for t, rk in ins:
                out.append(f"    - {{name: {t}, projection: {_proj(rk)}}}")
            out.append(f"    - {{name: {ot}, projection: {_proj(orank)}, output: True}}")
        return "\n".join(out) + "\n"

    @property
    def einsum_names(self):
        return [e[0] for e in self.einsums]

    def tensors_of(self, einsum):
        for name, ot, orank, ins in self.einsums:
            if name == einsum:
                return [(t, rk, False) for t, rk in ins] + [(ot, orank, True)]
        raise KeyError(einsum)

    def bound(self, v):
        return dict(self.bounds)[v]


def _proj(rk):
    if isinstance(rk, dict):
        return "{" + ", ".join(f"{k}: {v}" for k, v in rk.items()) + "}"
    return "[" + ", ".join(rk) + "]"


def MM1(m, k, n, **kw) -> WL:
    return WL(einsums=(("E0", "T1", ("m", "n"), (("T0", ("m", "k")), ("W0", ("k", "n")))),),
              bounds=(("m", m), ("k", k), ("n", n)), **kw)


def MM2(m, k, n, p, **kw) -> WL:
    return WL(einsums=(("E0", "T1", ("m", "n"), (("T0", ("m", "k")), ("W0", ("k", "n")))),
                       ("E1", "T2", ("m", "p"), (("T1", ("m", "n")), ("W1", ("n", "p"))))),
              bounds=(("m", m), ("k", k), ("n", n), ("p", p)), **kw)


def MM3(m, k, n, p, q, **kw) -> WL:
    return WL(einsums=(("E0", "T1", ("m", "n"), (("T0", ("m", "k")), ("W0", ("k", "n")))),
                       ("E1", "T2", ("m", "p"), (("T1", ("m", "n")), ("W1", ("n", "p")))),
                       ("E2", "T3", ("m", "q"), (("T2", ("m", "p")), ("W2", ("p", "q"))))),
              bounds=(("m", m), ("k", k), ("n", n), ("p", p), ("q", q)), **kw)


def MV1(a, b, **kw) -> WL:
    return WL(einsums=(("E0", "Y", ("b",), (("A", ("a",)), ("B", ("a", "b")))),),
              bounds=(("a", a), ("b", b)), **kw)


def MV2(a, b, c, **kw) -> WL:
    return WL(einsums=(("E0", "Y", ("b",), (("A", ("a",)), ("B", ("a", "b")))),
                       ("E1", "Z", ("c",), (("Y", ("b",)), ("C", ("b", "c"))))),
              bounds=(("a", a), ("b", b), ("c", c)), **kw)


def MV3(a, b, c, d, **kw) -> WL:
    return WL(einsums=(("E0", "Y", ("b",), (("A", ("a",)), ("B", ("a", "b")))),
                       ("E1", "Z", ("c",), (("Y", ("b",)), ("C", ("b", "c")))),
                       ("E2", "U", ("d",), (("Z", ("c",)), ("D", ("c", "d"))))),
              bounds=(("a", a), ("b", b), ("c", c), ("d", d)), **kw)


def EW1(a, b, **kw) -> WL:
    """Z[a,b] = X[a,b] * Y[b]"""
    return WL(einsums=(("E0", "Z", ("a", "b"), (("X", ("a", "b")), ("Yv", ("b",)))),),
              bounds=(("a", a), ("b", b)), **kw)


def FAN3(m, k, n, p, q, **kw) -> WL:
    return WL(einsums=(("E0", "T1", ("m", "n"), (("T0", ("m", "k")), ("W0", ("k", "n")))),
                       ("E1", "T2", ("m", "p"), (("T1", ("m", "n")), ("W1", ("n", "p")))),
                       ("E2", "T3", ("m", "q"), (("T1", ("m", "n")), ("W2", ("n", "q"))))),
              bounds=(("m", m), ("k", k), ("n", n), ("p", p), ("q", q)), **kw)


# ----------------------------------------------------------------- architectures

@dataclass(frozen=True)
class Mem:
    name: str
    size: Any = INF
    read_energy: float = 1
    write_energy: float = 1
    read_throughput: Any = INF
    write_throughput: Any = INF
    leak: float = 0
    keep: str | None = None
    may_keep: str | None = "All"
    extra: tuple = ()  # ((key, yaml-text), ...) placed on the component
    tensors_extra: tuple = ()  # extra keys inside tensors: {...}
    action_extra: tuple = ()  # ((action, key, value), ...)
    kind: str = "Memory"  # or "Toll"
    direction: str | None = None  # Toll only
    spatial: tuple = ()  # ((name, fanout, extra-yaml-dict-text), ...)
    # structured model parameters (also read by the reference executor R-exec)
    skip: bool | None = None  # skip_initial_output_write (None = default True)
    bpv: tuple = ()  # ((set-expression, bits), ...)   component bits_per_value
    bpa: Any = None  # component bits_per_action
    vpa: tuple = ()  # ((set-expression, values), ...) component values_per_action
    act_bpa: tuple = ()  # ((action, bits), ...)         action bits_per_action
    act_vpa: tuple = ()  # ((action, set-expression, values), ...)

    def _model_yaml(self, indent):
        o = []
        if self.skip is not None:
            o.append(f"{indent}  skip_initial_output_write: {self.skip}")
        if self.bpv:
            o.append(f"{indent}  bits_per_value: {{" + ", ".join(f'"{k}": {v}' for k, v in self.bpv) + "}")
        if self.bpa is not None:
            o.append(f"{indent}  bits_per_action: {self.bpa}")
        if self.vpa:
            o.append(f"{indent}  values_per_action: {{" + ", ".join(f'"{k}": {v}' for k, v in self.vpa) + "}")
        return o

    def yaml(self, indent="  ") -> str:
        o = [f"{indent}- !{self.kind}", f"{indent}  name: {self.name}"]
        if self.kind == "Memory":
            o.append(f"{indent}  size: {self.size}")
        if self.direction is not None:
            o.append(f"{indent}  direction: {self.direction}")
        o.append(f"{indent}  leak_power: {self.leak}")
        o.append(f"{indent}  area: 0")
        o.extend(self._model_yaml(indent))
        for k, v in self.extra:
            o.append(f"{indent}  {k}: {v}")
        t = []
        if self.keep is not None:
            t.append(f"keep: \"{self.keep}\"")
        if self.may_keep is not None:
            t.append(f"may_keep: \"{self.may_keep}\"")
        for k, v in self.tensors_extra:
            t.append(f"{k}: {v}")
        o.append(f"{indent}  tensors: {{" + ", ".join(t) + "}")
        if self.spatial:
            o.append(f"{indent}  spatial:")
            for nm, fan, ex in self.spatial:
                o.append(f"{indent}  - {{name: {nm}, fanout: {fan}{(', ' + ex) if ex else ''}}}")
        o.append(f"{indent}  actions:")
        ae = {}
        for a, k, v in self.action_extra:
            ae.setdefault(a, []).append(f"{k}: {v}")
        for a, b in self.act_bpa:
            ae.setdefault(a, []).append(f"bits_per_action: {b}")
        avp = {}
        for a, k, v in self.act_vpa:
            avp.setdefault(a, []).append(f'"{k}": {v}')
        for a, items in avp.items():
            ae.setdefault(a, []).append("values_per_action: {" + ", ".join(items) + "}")
        if self.kind == "Memory":
            acts = [("read", self.read_energy, self.read_throughput),
                    ("write", self.write_energy, self.write_throughput)]
        else:
            acts = [("read", self.read_energy, self.read_throughput)]
        for a, e, th in acts:
            ex = "".join(", " + x for x in ae.get(a, []))
            o.append(f"{indent}  - {{name: {a}, energy: {e}, throughput: {th}{ex}}}")
        return "\n".join(o)


@dataclass(frozen=True)
class Comp:
    name: str = "MAC"
    energy: float = 1
    throughput: Any = 1
    leak: float = 0
    extra: tuple = ()
    spatial: tuple = ()
    skip: bool | None = None

    def yaml(self, indent="  ") -> str:
        o = [f"{indent}- !Compute", f"{indent}  name: {self.name}", f"{indent}  leak_power: {self.leak}",
             f"{indent}  area: 0"]
        if self.skip is not None:
            o.append(f"{indent}  skip_initial_output_write: {self.skip}")
        for k, v in self.extra:
            o.append(f"{indent}  {k}: {v}")
        if self.spatial:
            o.append(f"{indent}  spatial:")
            for nm, fan, ex in self.spatial:
                o.append(f"{indent}  - {{name: {nm}, fanout: {fan}{(', ' + ex) if ex else ''}}}")
        o.append(f"{indent}  actions:")
        o.append(f"{indent}  - {{name: compute, energy: {self.energy}, throughput: {self.throughput}}}")
        return "\n".join(o)


@dataclass(frozen=True)
class Arch:
    nodes: tuple  # of Mem / Comp / raw yaml strings
    variables: tuple = ()

    def yaml(self) -> str:
        o = ["arch:"]
        if self.variables:
            o.append("  variables:")
            for k, v in self.variables:
                o.append(f"    {k}: {v}")
        o.append("  nodes:")
        for n in self.nodes:
            o.append(n if isinstance(n, str) else n.yaml())
        return "\n".join(o) + "\n"

    @property
    def memories(self):
        return [n for n in self.nodes if isinstance(n, Mem) and n.kind == "Memory"]

    @property
    def holders(self):
        return [n for n in self.nodes if isinstance(n, Mem)]

    @property
    def compute(self):
        return [n for n in self.nodes if isinstance(n, Comp)][-1]


def H2(size=INF, e_main=10, e_buf=1, main_thr=INF, buf_thr=INF, leak=0,
       main_keep="~Intermediates", buf_keep="~Main", buf_may_keep="All", main_may_keep="All",
       mac_energy=1, mac_thr=1, **memkw) -> Arch:
    return Arch(nodes=(
        Mem("Main", INF, e_main, e_main, main_thr, main_thr, 0, main_keep, main_may_keep),
        Mem("Buf", size, e_buf, e_buf, buf_thr, buf_thr, leak, buf_keep, buf_may_keep, **memkw),
        Comp("MAC", mac_energy, mac_thr),
    ))


def H3(size=INF, rsize=INF, e_main=10, e_buf=3, e_reg=1, leak=0, main_keep="~Intermediates",
       buf_keep=None, buf_may_keep="All", reg_keep="~Main & ~Buf", reg_may_keep="All") -> Arch:
    return Arch(nodes=(
        Mem("Main", INF, e_main, e_main, INF, INF, 0, main_keep, "All"),
        Mem("Buf", size, e_buf, e_buf, INF, INF, leak, buf_keep, buf_may_keep),
        Mem("Reg", rsize, e_reg, e_reg, INF, INF, 0, reg_keep, reg_may_keep),
        Comp("MAC", 1, 1),
    ))


# ---------------------------------------------------------------------- mapper

@dataclass(frozen=True)
class Knobs:
    metrics: str = "E"  # key of METRIC_NAMES
    extra: tuple = ()  # ((FFM attribute, value), ...) applied with setattr

    def apply(self, spec):
        from accelforge.frontend.mapper.metrics import Metrics

        m = None
        for part in METRIC_NAMES[self.metrics].split("|"):
            v = getattr(Metrics, part.strip())
            m = v if m is None else (m | v)
        spec.mapper.metrics = m
        for k, v in self.extra:
            setattr(spec.mapper, k, v)
        return spec


METRIC_NAMES = {
    "E": "ENERGY", "L": "LATENCY", "EDP": "ENERGY_DELAY_PRODUCT", "EL": "ENERGY | LATENCY",
    "ELR": "ENERGY | LATENCY | RESOURCE_USAGE",
}


def spec_yaml(arch: Arch, wl: WL, knobs: Knobs | None = None, extra_yaml: str = "") -> str:
    return arch.yaml() + wl.yaml() + extra_yaml


def build_spec(arch: Arch, wl: WL, knobs: Knobs | None = None, extra_yaml: str = ""):
    from accelforge.frontend.spec import Spec

    txt = spec_yaml(arch, wl, knobs, extra_yaml)
    fd, path = tempfile.mkstemp(suffix=".yaml", prefix="verifspec-")
    try:
        with os.fdopen(fd, "w") as f:
            f.write(txt)
        spec = Spec.from_yaml(path)
        if knobs is not None:
            knobs.apply(spec)
        return spec
    finally:
        os.unlink(path)
