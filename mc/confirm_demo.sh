#!/bin/bash
# usage: confirm_demo.sh <seed-id>
# Runs the seed's demonstration on /repo + patch (must exit non-zero) and on pristine /repo (must exit 0),
# in scratch copies that are removed afterwards.  Writes /verif/seeded/<id>/confirm.log
ID="$1"; S="/verif/seeded/$ID"; LOG="$S/confirm.log"
P="/tmp/af-demo-$ID-patched"; Q="/tmp/af-demo-$ID-pristine"
rm -rf "$P" "$Q"; mkdir -p "$P" "$Q"
rsync -a --exclude .git --exclude '__pycache__' /repo/ "$P/"; rsync -a --exclude .git --exclude '__pycache__' /repo/ "$Q/"
{
echo "seed $ID demo confirmed against /repo at $(git -C /repo rev-parse --short HEAD) on $(date -u +%FT%TZ)"
(cd "$P" && patch -p1 -s < "$S/patch.diff") && echo "patch applies: yes" || { echo "patch applies: NO"; exit 3; }
cp "$S/demo.py" "$P/SEED_demo.py"; cp "$S/demo.py" "$Q/SEED_demo.py"
(cd "$P" && PYTHONPATH="$P" TQDM_DISABLE=1 timeout 3000 /venv/bin/python SEED_demo.py > "$P/demo.out" 2>&1); rc1=$?
echo "demo on patched tree: exit $rc1 (expected non-zero)"; tail -3 "$P/demo.out" | sed 's/^/    /'
(cd "$Q" && PYTHONPATH="$Q" TQDM_DISABLE=1 timeout 3000 /venv/bin/python SEED_demo.py > "$Q/demo.out" 2>&1); rc2=$?
echo "demo on pristine tree: exit $rc2 (expected 0)"; tail -3 "$Q/demo.out" | sed 's/^/    /'
} > "$LOG" 2>&1
rm -rf "$P" "$Q"
grep -E "^demo on" "$LOG"
