"""Writes /verif/seeded/<ID>/meta.json from the table below + confirm.log + detection log.
    /venv/bin/python -m mc.seed_meta
"""
import json
import re
from pathlib import Path

ROOT = Path(__file__).resolve().parent.parent
SEEDS = {
    "C01": ("C01", "two chained Einsums whose optimum tiles the intermediate along two rank variables (two non-trivial fused loops) under a tight buffer, default knobs", ["C01"]),
    "C03": ("C03", "a spatial fanout with a strict product loop bound (product< / product>) over >= 2 rank variables whose boundary value is reachable", ["C03"]),
    "C05": ("C05", "a non-backing memory holding an output whose read and write actions move different values per action, finite throughput (latency / leak energy only)", ["C05"]),
    "C06": ("C06", "persistent tensors kept in a finite memory and >= 2 Einsums joined; the branch that loses the persistent bytes sets the peak", ["C06"]),
    "C08": ("C08", "rank size with >= 2 distinct prime factors, 3-level hierarchy, >= 1000 partial tile shapes, tight buffers", ["C08"]),
    "C11": ("C11", ">= 3 varying columns, >= 16 mutually non-dominated rows, a row dominated only by the row in window slot 15/31/…", ["C11"]),
    "C13": ("C13", "fused join where the second Einsum holds a tile above the split and the first Einsum's table has the same reservation column with a different value; binding capacity", ["C13", "C03", "C04"]),
    "C07": ("C07", "compute-bound latency with an integer throughput that does not divide the operation count (an exact symengine Rational reaches the symengine->sympy conversion)", ["C07"]),
    "C10": ("C10", "imperfect factorisation with an inner size > 1 and an odd outer/inner ratio >= 3", ["C10"]),
    "C12": ("C12", "a tolerance > 0 and two values on both sides of 1.0 inside the widened log-scale bucket 0 but more than (1+t) apart", ["C12"]),
    "C15": ("C15", "a joined result that references >= 2 distinct pmapping rows of the same Einsum (multi-row Pareto front)", ["C15", "C04"]),
    "C21": ("C21", "a definition that mentions one sibling twice and another sibling (sorted after it / still waiting) once", ["C21"]),
    "C25": ("C25", "a nested plain Hierarchical with non-compute leaves on the path before the target compute and not containing it", ["C25"]),
    "C27": ("C27", ">= 3 chained calls where the second call calculates something the first did not and the third re-requests a quantity of the first (e.g. calc(area=False), calc(), calc())", ["C27"]),
    "C31": ("C31", "a Toll with direction 'up' on an output tensor below the backing store, child with skip_initial_output_write (default)", ["C31"]),
    "C23": ("C23", "a concise projection whose shorthand entry repeats a rank already defined by an earlier entry of the same tensor (e.g. I[M: m+1, m], V[b, b])", ["C23"]),
    "C24": ("C24", "a rank variable whose projection coefficient is not 1 (e.g. P: 2*p + r)", ["C24"]),
    "C26": ("C26", "a fanout > 1, then a Fork or a non-final Compute, then more components in the same node list", ["C26"]),
    "C28": ("C28", "energy() with per_tensor=True on a result with non-zero leak power", ["C28"]),
    "C29": ("C29", "'default' listed before an Einsum's own top-level entry, a name defined in both, not overridden locally", ["C29"]),
    "C30": ("C30", "mesh, unicast (Relevant) loop, odd fanout >= 3", ["C30"]),
    "C32": ("C32", "dict input, n_jobs >= 2, >= 2 jobs, at least one job completing before an earlier-submitted one", ["C32"]),
}


def main():
    det = {}
    dl = ROOT / "seeded" / "detection.json"
    if dl.exists():
        det = json.loads(dl.read_text())
    for sid, (prop, needs, checks) in SEEDS.items():
        d = ROOT / "seeded" / sid
        if not d.exists():
            continue
        conf = (d / "confirm.log").read_text() if (d / "confirm.log").exists() else ""
        m1 = re.search(r"demo on patched tree: exit (\d+)", conf)
        m2 = re.search(r"demo on pristine tree: exit (\d+)", conf)
        m3 = re.search(r"stable_pass=(\d+) passed=(\d+)", conf)
        meta = {
            "seed": sid, "breaks_property": prop, "needs_to_manifest": needs,
            "produced_by": "independent sub-agent given only the property text and a scratch worktree (see notes.md)",
            "files": {"patch": "patch.diff", "demonstration": "demo.py", "agent_notes": "notes.md", "confirmation_log": "confirm.log"},
            "confirmed_by_us": {
                "command": f"mc/confirm_seed.sh {sid}",
                "demo_exit_with_change": int(m1.group(1)) if m1 else None,
                "demo_exit_without_change": int(m2.group(1)) if m2 else None,
                "repo_tests_stable_pass": {"total": int(m3.group(1)), "passed": int(m3.group(2))} if m3 else None,
            },
            "detected_by": det.get(sid, {}),
            "how_to_run_checks_against_it": f"mc/seedtest.sh {sid} <check-id>   (or: git -C /repo apply seeded/{sid}/patch.diff; ./check <id>; git -C /repo checkout -- .)",
        }
        (d / "meta.json").write_text(json.dumps(meta, indent=1) + "\n")
        print(sid, meta["confirmed_by_us"])


if __name__ == "__main__":
    main()
