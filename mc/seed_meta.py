"""Writes /verif/seeded/<ID>/meta.json from the table below + confirm.log + detection log.
    /venv/bin/python -m mc.seed_meta
"""
import json
import re
from pathlib import Path

ROOT = Path(__file__).resolve().parent.parent
SEEDS = {
    "C01": ("C01", "two chained Einsums whose optimum tiles the intermediate along two rank variables (two non-trivial fused loops) under a tight buffer, default knobs", ["C01"]),
    "C03": ("C03", "a spatial fanout with a strict product loop bound (product< / product>) over >= 2 rank variables whose boundary value is reachable", ["C03"]),
    "C05": ("C05", "a non-backing memory holding an output whose read and write actions move different values per action, finite throughput (latency / leak energy only)", ["C05"]),
    "C06": ("C06", "persistent tensors kept in a finite memory and >= 2 Einsums joined; the branch that loses the persistent bytes sets the peak", ["C06"]),
    "C08": ("C08", "rank size with >= 2 distinct prime factors, 3-level hierarchy, >= 1000 partial tile shapes, tight buffers", ["C08"]),
    "C11": ("C11", ">= 3 varying columns, >= 16 mutually non-dominated rows, a row dominated only by the row in window slot 15/31/…", ["C11"]),
    "C07": ("C07", "compute-bound latency with an integer throughput that does not divide the operation count (an exact symengine Rational reaches the symengine->sympy conversion)", ["C07"]),
    "C10": ("C10", "imperfect factorisation with an inner size > 1 and an odd outer/inner ratio >= 3", ["C10"]),
    "C12": ("C12", "a tolerance > 0 and two values on both sides of 1.0 inside the widened log-scale bucket 0 but more than (1+t) apart", ["C12"]),
    "C15": ("C15", "a joined result that references >= 2 distinct pmapping rows of the same Einsum (multi-row Pareto front)", ["C15", "C04"]),
    "C21": ("C21", "a definition that mentions one sibling twice and another sibling (sorted after it / still waiting) once", ["C21"]),
    "C25": ("C25", "a nested plain Hierarchical with non-compute leaves on the path before the target compute and not containing it", ["C25"]),
    "C27": ("C27", ">= 3 chained calls where the second call calculates something the first did not and the third re-requests a quantity of the first (e.g. calc(area=False), calc(), calc())", ["C27"]),
    "C31": ("C31", "a Toll with direction 'up' on an output tensor below the backing store, child with skip_initial_output_write (default)", ["C31"]),
    "C23": ("C23", "a concise projection whose shorthand entry repeats a rank already defined by an earlier entry of the same tensor (e.g. I[M: m+1, m], V[b, b])", ["C23"]),
    "C24": ("C24", "a rank variable whose projection coefficient is not 1 (e.g. P: 2*p + r)", ["C24"]),
    "C26": ("C26", "a fanout > 1, then a Fork or a non-final Compute, then more components in the same node list", ["C26"]),
    "C28": ("C28", "energy() with per_tensor=True on a result with non-zero leak power", ["C28"]),
    "C29": ("C29", "'default' listed before an Einsum's own top-level entry, a name defined in both, not overridden locally", ["C29"]),
    "C30": ("C30", "mesh, unicast (Relevant) loop, odd fanout >= 3", ["C30"]),
    "C02": ("C02", "ENERGY|LATENCY (two varying objective columns, no RESOURCE_USAGE) and two front candidates that tie exactly on energy but differ in latency", ["C02"]),
    "C04": ("C04", ">= 2 returned rows sharing a pmapping template with different tile shapes, rebuilt in the same process (eval_in_detail=False, or serial eval_in_detail=True)", ["C04"]),
    "C09": ("C09", "a formula whose derivative in the chosen symbol is provably >= 0 but not provably > 0 (e.g. a*(b-1) - 3)", ["C09"]),
    "C14": ("C14", "metrics without RESOURCE_USAGE, a buffer between the largest single-Einsum footprint and the sum of footprints, and a tensor live across an Einsum that does not use it", ["C14"]),
    "C16": ("C16", "objective_tolerance > 0 and two pmappings of one Einsum whose energies differ by a ratio in (1+t, (1+t)^1.44]", ["C16"]),
    "C17": ("C17", "ENERGY_DELAY_PRODUCT metric, >= 2 Einsums, a dirty pre-join that prunes something (two cooperating edits)", ["C17"]),
    "C18": ("C18", "imperfect factorisation enabled and a perfect-square rank size whose optimum uses the square-root tile shape", ["C18"]),
    "C19": ("C19", "workload.n_instances > 1 together with non-zero leak power", ["C19"]),
    "C20": ("C20", "cache_dir given, a cache populated by a run that differs only in mapper.max_pmapping_templates_per_einsum", ["C20"]),
    "C22": ("C22", "a multi-Einsum workload and an arch set expression applying ~ to a tensor name the evaluated Einsum does not use", ["C22"]),
    "C32": ("C32", "dict input, n_jobs >= 2, >= 2 jobs, at least one job completing before an earlier-submitted one", ["C32"]),
}


def batch_result(sid):
    """Which batch run of the repository's test suite included this seed and what it showed."""
    for b in sorted((ROOT / "seeded").glob("batch-*.log")):
        t = b.read_text()
        head = t.splitlines()[0] if t else ""
        if f" {sid} " in head + " " or head.rstrip().endswith(" " + sid):
            m = re.search(r"stable_pass=(\d+) passed=(\d+)", t)
            rer = re.search(r"re-running regressed stable tests individually.*?\n(.*)$", t, re.S)
            return {"resolution_of_batch_failure": ("batch A failed one stable test (tpu_v4i gpt3 fused regression); group runs of "
                                                   "that test (batch-A-bisect.log) show it is caused by seed C13 alone (rejected, "
                                                   "seeded/rejected/C13); this seed belongs to a group that passes the test")
                    if b.name == "batch-A.log" else None,
                    "batch_log": b.name, "seeds_applied_together": head.split("seeds")[1].split(" on ")[0].split() if "seeds" in head else [],
                    "stable_pass_total": int(m.group(1)) if m else None, "stable_pass_passed": int(m.group(2)) if m else None,
                    "rerun_of_regressed_tests": (rer.group(1).strip().splitlines() or [None])[-1] if rer else None}
    return None


def main():
    det = {}
    dl = ROOT / "seeded" / "detection.json"
    if dl.exists():
        det = json.loads(dl.read_text())
    for sid, (prop, needs, checks) in SEEDS.items():
        d = ROOT / "seeded" / sid
        if not d.exists():
            continue
        conf = (d / "confirm.log").read_text() if (d / "confirm.log").exists() else ""
        m1 = re.search(r"demo on patched tree: exit (\d+)", conf)
        m2 = re.search(r"demo on pristine tree: exit (\d+)", conf)
        m3 = re.search(r"stable_pass=(\d+) passed=(\d+)", conf)
        meta = {
            "seed": sid, "breaks_property": prop, "needs_to_manifest": needs,
            "produced_by": "independent sub-agent given only the property text and a scratch worktree (see notes.md)",
            "files": {"patch": "patch.diff", "demonstration": "demo.py", "agent_notes": "notes.md", "confirmation_log": "confirm.log"},
            "confirmed_by_us": {
                "command": f"mc/confirm_demo.sh {sid}  (demo with / without the change, scratch copies) + mc/confirm_batch.sh (repository test suite on a scratch copy with the batch of seeds named under repo_tests)",
                "demo_exit_with_change": int(m1.group(1)) if m1 else None,
                "demo_exit_without_change": int(m2.group(1)) if m2 else None,
                "repo_tests": batch_result(sid),
            },
            "detected_by": det.get(sid, {}),
            "how_to_run_checks_against_it": f"mc/seedtest.sh {sid} <check-id>   (or: git -C /repo apply seeded/{sid}/patch.diff; ./check <id>; git -C /repo checkout -- .)",
        }
        (d / "meta.json").write_text(json.dumps(meta, indent=1) + "\n")
        print(sid, meta["confirmed_by_us"])


if __name__ == "__main__":
    main()
