#!/bin/bash
# usage: seedtest.sh <seed-id> <check-id> [tier]
# Applies /verif/seeded/<seed-id>/patch.diff to a scratch copy of /repo and runs the check against
# the copy (VERIF_REPO).  Equivalent to `git -C /repo apply` + run + `git -C /repo checkout -- .`
# but does not disturb other jobs reading /repo.  Exit status = the check's.
SEED="$1"; CHK="$2"; TIER="${3:-quick}"
D="/tmp/af-seed-$SEED-$CHK"
rm -rf "$D"; mkdir -p "$D"
rsync -a --exclude .git --exclude '__pycache__' /repo/ "$D/"
(cd "$D" && patch -p1 -s < "/verif/seeded/$SEED/patch.diff") || { echo "PATCH-FAILED"; rm -rf "$D"; exit 3; }
VERIF_REPO="$D" /verif/check "$CHK" --tier "$TIER" 2>&1 | grep -E "VIOLATION|KNOWN-FINDING|HARNESS|VACUOUS|tier=" | head -${LINES_OUT:-5}
rc=${PIPESTATUS[0]}
rm -rf "$D"
exit $rc
