"""Regenerates /verif/MANIFEST.json from the per-check metadata below and from the
check modules present under mc/checks (a property without a module is listed
under not_applicable with the reason 'check not built yet').

    /venv/bin/python -m mc.gen_manifest
"""

from __future__ import annotations

import importlib
import json
import sys
from pathlib import Path

ROOT = Path(__file__).resolve().parent.parent
BASELINE = ("cd /repo && /venv/bin/python -m pytest -ra -q -p no:cacheprovider --timeout=900 "
            "--continue-on-collection-errors --junitxml=/tmp/accelforge_baseline.junit.xml")

HOOK_COMMITS: list[str] = []


def main():
    props = [json.loads(l) for l in (ROOT / "properties.jsonl").read_text().splitlines() if l.strip()]
    checks, na = [], []
    for p in props:
        pid = p["id"]
        modp = ROOT / "mc" / "checks" / f"{pid.lower()}.py"
        if not modp.exists():
            na.append({"property_id": pid, "reason": "check not built yet (planned, see DESIGN.md section 4)"})
            continue
        sys.path.insert(0, str(ROOT))
        src = modp.read_text()
        meta = {}
        # metadata is read without importing accelforge: MANIFEST = {...} literal in the module
        ns: dict = {}
        start = src.find("MANIFEST = {")
        if start >= 0:
            depth, i = 0, src.index("{", start)
            j = i
            while True:
                if src[j] == "{":
                    depth += 1
                elif src[j] == "}":
                    depth -= 1
                    if depth == 0:
                        break
                j += 1
            meta = eval(src[i : j + 1], {})
        if meta.get("not_applicable"):
            na.append({"property_id": pid, "reason": meta["not_applicable"]})
            continue
        checks.append(
            {
                "property_id": pid,
                "quick_cmd": f"./check {pid} --tier quick",
                "thorough_cmd": f"./check {pid} --tier thorough",
                "evidence_file": f"/verif/evidence/{pid}.json",
                "replay_cmd_template": f"./check {pid} --replay {{path}}",
                "engine": "mc-explorer",
                "level_claimed": {
                    "category": "model_checking",
                    "text": meta.get("text", "bounded exhaustive exploration of the implementation against a reference model"),
                    "design_ref": f"DESIGN.md section 4, {pid}",
                },
                "level_note": meta.get("note", ""),
                "technique": meta.get("technique", "explicit-state bounded exhaustive enumeration on the real implementation vs reference model"),
            }
        )
    man = {
        "version": 1,
        "setup_cmd": "cd /verif && ./setup.sh",
        "hooks": {
            "guard": "ACCELFORGE_VERIF",
            "enable": "export ACCELFORGE_VERIF=1 (set by ./check); no source hooks are required: the harness rebinds accelforge.util.parallel.Parallel at run time",
            "baseline_off_cmd": BASELINE,
            "source_commits": HOOK_COMMITS,
            "add_only": True,
        },
        "engines": [
            {
                "name": "mc-explorer",
                "path": "/verif/mc/explorer.py",
                "serves_properties": [c["property_id"] for c in checks],
                "kind_free_text": "hand-written stateless explicit-state explorer: depth-first enumeration of choice sequences (inputs, configurations, operation histories, completion schedules) over the real Python implementation, sharded over forked workers, with per-execution reference-model oracles",
            }
        ],
        "checks": checks,
        "not_applicable": na,
        "notes": "All checks: ./check <ID> --tier quick|thorough; evidence in /verif/evidence/<ID>.json; known findings in /verif/known_findings.json; see DESIGN.md.",
    }
    (ROOT / "MANIFEST.json").write_text(json.dumps(man, indent=1) + "\n")
    sch = Path("/root/.vp/MANIFEST.schema.json")
    if sch.exists():
        import jsonschema

        jsonschema.validate(man, json.loads(sch.read_text()))
    print(f"MANIFEST.json: {len(checks)} checks, {len(na)} not_applicable")


if __name__ == "__main__":
    main()
