#!/bin/bash
# usage: mutant.sh <tag> <check-id> <file-relative-to-repo> <python-expr-old> <python-expr-new> [tier]
# Copies /repo to /tmp/af-mut-<tag>, replaces OLD by NEW (exactly once) in FILE, runs the check against
# the copy, prints the last lines, removes the copy.  Exit status = the check's.
set -u
TAG="$1"; CHK="$2"; FILE="$3"; OLD="$4"; NEW="$5"; TIER="${6:-quick}"
D="/tmp/af-mut-$TAG"
rm -rf "$D"; mkdir -p "$D"
rsync -a --exclude .git --exclude '__pycache__' /repo/ "$D/"
/venv/bin/python - "$D/$FILE" "$OLD" "$NEW" <<'PY' || { rm -rf "$D"; exit 3; }
import sys
p, old, new = sys.argv[1:4]
s = open(p).read()
n = s.count(old)
if n != 1:
    print(f"MUTANT-ERROR: pattern occurs {n} times in {p}"); sys.exit(1)
open(p, "w").write(s.replace(old, new))
PY
VERIF_REPO="$D" /verif/check "$CHK" --tier "$TIER" 2>&1 | grep -E "VIOLATION|KNOWN-FINDING|HARNESS|VACUOUS|tier=" | head -${LINES_OUT:-4}
rc=${PIPESTATUS[0]}
rm -rf "$D"
exit $rc
