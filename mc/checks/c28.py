"""C28 — result breakdowns aggregate consistently to the reported totals.

Alphabet: (T) every result table the real mapper returns for the specs of the shared
small family (1-3 Einsums, leak / throughput variants) x metric sets, in both
eval_in_detail modes, plus the single-row sub-tables `table[0]`, `table[-1]`; (S) the
single-row tables `evaluate_mapping` produces for every LoopTree of the reference
mapspace (mc/ref/mapspace.py) of MM1(2,2,2) / MV1(4,2) on a leaky, throughput-limited
H2.  On every table EVERY combination of the per_* flags is called: energy() 16,
actions() 8 (per_einsum/per_component/per_tensor; the action name is always part of the
key), latency() 4, resource_usage(); on single-row tables both list_if_one_mapping
forms.  Oracle (the property statement, computed from the raw `<SEP>` columns by an
independent parser): sum over the keys of every energy breakdown == energy() ==
`Total<SEP>energy` == sum of the raw energy columns; per action name, the sum of every
actions() breakdown == actions(per_component=False) == sum of the raw action columns;
latency() == `Total<SEP>latency` == sum over Einsums of the max raw component latency ==
sum of latency(per_einsum=True); latency(per_einsum, per_component) reproduces the raw
columns and latency(per_component) their per-component sum (documented);
resource_usage() == max over the raw `reservation<SEP><memory><SEP>...` columns.
Tolerance rel 2^-20 / abs 1e-9.

FINDING on the unchanged tree (kept firing, families `nodetail-table/...`): on tables
without breakdown columns -- `map_workload_to_arch(eval_in_detail=False)` and the public
`join_pmappings()` -- `energy()` returns the int 0 and `latency()` returns None although
the table has `Total<SEP>energy` / `Total<SEP>latency` columns (mappings.py:586-610 and
661-695: the accessors only sum `<einsum><SEP>energy|latency<SEP>...` columns and never
look at the Total columns).  The statement says "for any result set, energy() equals the
Total energy column".  resource_usage() is correct on those tables.

Mutation self-test (2026-09-21/22).  Full quick runs through mc/mutant.sh:
  * mappings.py energy(): leak rows only when not per_action            -> caught
    (model-table/energy-breakdown-sum!=total/per_action x247, mapper tables x4)
  * mappings.py latency(): np.maximum over components replaced by +     -> caught
    (model-table/latency()!=Total-latency x247, mapper tables x8)
Targeted runs (same oracle functions on a patched copy, 7 model tables + 3 mapper tables):
  * pmapping_dataframe.py merge_next: objective columns added twice     -> caught on 2-/3-Einsum
    tables (Total-energy-column!=sum-of-energy-columns, Total-latency-column!=...)
  * mappings.py actions(): key indices [.., per_tensor, per_component]  -> caught
    (actions(none)-raises, actions-breakdown-sum!=total/per_tensor, /per_einsum, ...)
  * mappings.py resource_usage(): last reservation column instead of max -> MISSED: every
    table reachable through the public API has exactly one reservation column per memory
    (the joiner frees to loop index -1 before returning), so max == last (known gap).
"""

from __future__ import annotations

import itertools

import numpy as np

from mc import afx
from mc import family as FAM
from mc import specs as S
from mc.explorer import Result
from mc.ref import mapspace as MS

MANIFEST = {
    "text": "every result table of the real mapper for a small spec family (both eval_in_detail modes, sub-tables) and "
            "the model table of every LoopTree of small reference mapspaces is queried with every combination of the "
            "per_* flags of energy/actions/latency and resource_usage; every breakdown must sum to the un-broken-down "
            "value, to the Total column and to the raw columns parsed independently. All flag combinations x tables "
            "within the bounds are enumerated; goldens compare one key at a time and never the cross-consistency",
    "note": "trusted: independent parser of the <SEP> column convention; bounds: <= 3 Einsums, <= 3 levels, rank sizes <= 6, "
            "tables of <= ~40 rows",
    "technique": "bounded exhaustive enumeration of result tables x accessor flag combinations vs column-level reference",
}
RULE = ("configuration = (spec id, metric set, eval_in_detail) or (workload, LoopTree); distinct by construction; "
        "non-trivial = the table has >= 2 components with non-zero energy and (a non-zero leak column or >= 2 Einsums "
        "or a storage node below the outermost level)")
ASSUMPTIONS = [
    "column convention: <einsum><SEP>energy<SEP><component><SEP><tensor><SEP><action> | <einsum><SEP>energy<SEP><component><SEP>leak | "
    "<einsum><SEP>action<SEP>... | <einsum><SEP>latency<SEP><component> | reservation<SEP><memory><SEP><index><SEP><side>",
    "only sums are compared (the statement promises aggregates, not the per-key attribution)",
]

REL = 2.0 ** -20
ABS = 1e-9


def close_arr(a, b):
    a = np.asarray(a, dtype=float)
    b = np.asarray(b, dtype=float)
    if a.shape != b.shape:
        return False
    return bool(np.all(np.abs(a - b) <= np.maximum(ABS, REL * np.maximum(np.abs(a), np.abs(b)))))


def as_arr(v, n):
    """Normalise an accessor value (scalar / list / Series) to a float array of length n; None if impossible."""
    try:
        if v is None:
            return None
        a = np.asarray(list(v) if hasattr(v, "__len__") and not isinstance(v, str) else [v], dtype=float)
        if a.shape != (n,):
            return None
        return a
    except Exception:
        return None


def raw_parse(T):
    """-> dict with raw per-row arrays parsed from the column names."""
    data = T.data
    n = len(data)
    einsums = list(T.einsum_names)
    energy = {}   # (e, comp, tensor|None, action) -> arr
    action = {}   # (e, comp, tensor, action) -> arr
    latency = {}  # (e, comp) -> arr
    reserv = {}   # mem -> [arr]
    for c in data.columns:
        p = c.split("<SEP>")
        if p[0] == "reservation" and len(p) == 4:
            reserv.setdefault(p[1], []).append(np.asarray(data[c], dtype=float))
        elif p[0] in einsums and len(p) >= 3:
            if p[1] == "energy" and len(p) == 5:
                energy[(p[0], p[2], p[3], p[4])] = np.asarray(data[c], dtype=float)
            elif p[1] == "energy" and len(p) == 4 and p[3] == "leak":
                energy[(p[0], p[2], None, "leak")] = np.asarray(data[c], dtype=float)
            elif p[1] == "action" and len(p) == 5:
                action[(p[0], p[2], p[3], p[4])] = np.asarray(data[c], dtype=float)
            elif p[1] == "latency" and len(p) == 3:
                latency[(p[0], p[2])] = np.asarray(data[c], dtype=float)
    return dict(n=n, einsums=einsums, energy=energy, action=action, latency=latency, reserv=reserv)


def call(f, **kw):
    try:
        return f(**kw), None
    except Exception as e:
        return None, f"{type(e).__name__}: {str(e)[:160]}"


def check_table(T, detailed, label=""):
    """-> (problems [(family, detail)], n_calls, info)"""
    raw = raw_parse(T)
    n = raw["n"]
    probs = []
    calls = 0
    zeros = np.zeros(n)

    def total_col(name):
        c = f"Total<SEP>{name}"
        return np.asarray(T.data[c], dtype=float) if c in T.data.columns else None

    forms = [True] if n != 1 else [True, False]

    # ---------------------------------------------------------------- energy
    tot_e = total_col("energy")
    have_energy_cols = bool(raw["energy"])
    raw_e = sum(raw["energy"].values(), zeros.copy()) if have_energy_cols else None
    if tot_e is not None or have_energy_cols:
        if tot_e is not None and have_energy_cols and not close_arr(raw_e, tot_e):
            probs.append(("Total-energy-column!=sum-of-energy-columns" + label,
                          {"sum_of_columns": raw_e[:4].tolist(), "Total": tot_e[:4].tolist()}))
        for lo in forms:
            base, err = call(T.energy, list_if_one_mapping=lo)
            calls += 1
            b = as_arr(base, n)
            ref = tot_e if tot_e is not None else raw_e
            if err or b is None or not close_arr(b, ref):
                fam = "energy()" + ("-raises" if err else "!=Total-energy")
                if not detailed:
                    fam = "nodetail-table/" + fam
                probs.append((fam + label, {"energy()": err or repr(base)[:120], "Total<SEP>energy": ref[:4].tolist(),
                                            "list_if_one_mapping": lo}))
                continue
            if not have_energy_cols:
                continue
            for flags in itertools.product([False, True], repeat=4):
                if not any(flags):
                    continue
                kw = dict(zip(("per_einsum", "per_component", "per_tensor", "per_action"), flags))
                v, err = call(T.energy, list_if_one_mapping=lo, **kw)
                calls += 1
                tag = "+".join(k for k, f in kw.items() if f)
                if err or not isinstance(v, dict):
                    probs.append((f"energy({tag})-raises" + label, {"error": err or repr(v)[:100]}))
                    continue
                s = zeros.copy()
                okv = True
                for key, val in v.items():
                    a = as_arr(val, n)
                    if a is None:
                        okv = False
                        break
                    s += a
                if not okv or not close_arr(s, ref):
                    probs.append((f"energy-breakdown-sum!=total/{tag}" + label,
                                  {"sum_of_breakdown": s[:4].tolist(), "energy()": ref[:4].tolist(),
                                   "keys": [repr(k) for k in list(v)[:6]]}))
    # ---------------------------------------------------------------- actions
    if raw["action"]:
        per_action = {}
        for (e, c, t, a), arr in raw["action"].items():
            per_action[a] = per_action.get(a, zeros.copy()) + arr
        for lo in forms:
            for flags in itertools.product([False, True], repeat=3):
                kw = dict(zip(("per_einsum", "per_component", "per_tensor"), flags))
                v, err = call(T.actions, list_if_one_mapping=lo, **kw)
                calls += 1
                tag = "+".join(k for k, f in kw.items() if f) or "none"
                if err or not isinstance(v, dict):
                    probs.append((f"actions({tag})-raises" + label, {"error": err or repr(v)[:100]}))
                    continue
                got = {}
                okv = True
                for key, val in v.items():
                    a = as_arr(val, n)
                    if a is None:
                        okv = False
                        break
                    name = key[-1] if isinstance(key, tuple) else key
                    got[name] = got.get(name, zeros.copy()) + a
                badk = [k for k in set(got) | set(per_action)
                        if not close_arr(got.get(k, zeros), per_action.get(k, zeros))]
                if not okv or badk:
                    probs.append((f"actions-breakdown-sum!=total/{tag}" + label,
                                  {"actions": {k: got.get(k, zeros)[:3].tolist() for k in badk[:4]},
                                   "sum_of_columns": {k: per_action.get(k, zeros)[:3].tolist() for k in badk[:4]}}))
    # ---------------------------------------------------------------- latency
    tot_l = total_col("latency")
    have_lat = bool(raw["latency"])
    if tot_l is not None or have_lat:
        per_e = {}
        for (e, c), arr in raw["latency"].items():
            per_e[e] = np.maximum(per_e[e], arr) if e in per_e else arr.copy()
        raw_l = sum(per_e.values(), zeros.copy()) if have_lat else None
        if tot_l is not None and have_lat and not close_arr(raw_l, tot_l):
            probs.append(("Total-latency-column!=sum-over-einsums-of-max-component" + label,
                          {"sum_max": raw_l[:4].tolist(), "Total": tot_l[:4].tolist()}))
        ref = tot_l if tot_l is not None else raw_l
        for lo in forms:
            base, err = call(T.latency, list_if_one_mapping=lo)
            calls += 1
            b = as_arr(base, n)
            if err or b is None or not close_arr(b, ref):
                fam = "latency()" + ("-raises" if err else "!=Total-latency")
                if not detailed:
                    fam = "nodetail-table/" + fam
                probs.append((fam + label, {"latency()": err or repr(base)[:120], "Total<SEP>latency": ref[:4].tolist()}))
                continue
            if not have_lat:
                continue
            v, err = call(T.latency, per_einsum=True, list_if_one_mapping=lo)
            calls += 1
            if err or not isinstance(v, dict):
                probs.append(("latency(per_einsum)-raises" + label, {"error": err or repr(v)[:100]}))
            else:
                s = zeros.copy()
                bad = False
                for e, val in v.items():
                    a = as_arr(val, n)
                    if a is None or e not in per_e or not close_arr(a, per_e[e]):
                        bad = True
                    if a is not None:
                        s += a
                if bad or not close_arr(s, ref) or set(v) != set(per_e):
                    probs.append(("latency(per_einsum)!=max-component-or-sum!=total" + label,
                                  {"got": {k: repr(x)[:60] for k, x in v.items()}, "latency()": ref[:4].tolist()}))
            v, err = call(T.latency, per_einsum=True, per_component=True, list_if_one_mapping=lo)
            calls += 1
            if err or not isinstance(v, dict):
                probs.append(("latency(per_einsum+per_component)-raises" + label, {"error": err or repr(v)[:100]}))
            else:
                pe = {}
                bad = False
                for key, val in v.items():
                    a = as_arr(val, n)
                    if a is None or not isinstance(key, tuple) or len(key) != 2:
                        bad = True
                        continue
                    pe[key[0]] = np.maximum(pe[key[0]], a) if key[0] in pe else a.copy()
                s = sum(pe.values(), zeros.copy())
                if bad or not close_arr(s, ref):
                    probs.append(("latency(per_einsum+per_component): sum-of-max!=total" + label,
                                  {"sum_max": s[:4].tolist(), "latency()": ref[:4].tolist()}))
            v, err = call(T.latency, per_component=True, list_if_one_mapping=lo)
            calls += 1
            if err or not isinstance(v, dict):
                probs.append(("latency(per_component)-raises" + label, {"error": err or repr(v)[:100]}))
            else:
                per_c = {}
                for (e, c), arr in raw["latency"].items():
                    per_c[c] = per_c.get(c, zeros.copy()) + arr
                bad = set(v) != set(per_c)
                for c, val in v.items():
                    a = as_arr(val, n)
                    if a is None or c not in per_c or not close_arr(a, per_c[c]):
                        bad = True
                if bad:
                    probs.append(("latency(per_component)!=sum-over-einsums" + label,
                                  {"got": {k: repr(x)[:60] for k, x in v.items()}}))
    # ---------------------------------------------------------------- resource usage
    if raw["reserv"]:
        exp = {m: np.maximum.reduce(cols) for m, cols in raw["reserv"].items()}
        for lo in forms:
            v, err = call(T.resource_usage, list_if_one_mapping=lo)
            calls += 1
            if err or not isinstance(v, dict):
                probs.append(("resource_usage()-raises" + label, {"error": err or repr(v)[:100]}))
                continue
            bad = set(v) != set(exp)
            for m, val in v.items():
                a = as_arr(val, n)
                if a is None or m not in exp or not close_arr(a, exp[m]):
                    bad = True
            if bad:
                probs.append(("resource_usage()!=max-reservation" + label,
                              {"got": {k: repr(x)[:60] for k, x in v.items()},
                               "expected": {k: x[:4].tolist() for k, x in exp.items()}}))
    # single-row forms must agree (documented list_if_one_mapping behaviour)
    if n == 1 and not probs and (tot_e is not None or have_energy_cols):
        a, _ = call(T.energy, list_if_one_mapping=True)
        b, _ = call(T.energy, list_if_one_mapping=False)
        calls += 2
        if not (isinstance(a, list) and len(a) == 1 and not isinstance(b, (list, dict)) and close_arr([a[0]], [b])):
            probs.append(("list_if_one_mapping-forms-disagree" + label, {"True": repr(a)[:80], "False": repr(b)[:80]}))
    # non-triviality info
    comps_nonzero = {k[1] for k, arr in raw["energy"].items() if np.any(arr != 0)}
    leak_nonzero = any(k[3] == "leak" and np.any(arr != 0) for k, arr in raw["energy"].items())
    lower = any(k[1] not in ("Main", "MAC") and np.any(arr != 0) for k, arr in raw["action"].items())
    info = dict(n=n, nontrivial=len(comps_nonzero) >= 2 and (leak_nonzero or len(raw["einsums"]) >= 2 or lower),
                energy=[round(float(x), 4) for x in (tot_e if tot_e is not None else (raw_e if raw_e is not None else zeros))])
    return probs, calls, info


# ------------------------------------------------------------------- phase T: mapper tables

EXTRA = {
    "MV3-2222/tight": (S.MV3(2, 2, 2, 2), 0.3),
    "MV3-2222/mid-leak": (S.MV3(2, 2, 2, 2), 0.6),
    "FAN3-22222/mid": (S.FAN3(2, 2, 2, 2, 2), 0.5),
}


def spec_of(sid):
    if sid in EXTRA:
        wl, frac = EXTRA[sid]
        if sid.endswith("leak"):
            return wl, S.H2(size=FAM.sized(wl, frac), leak=0.25, main_thr=8, buf_thr=4)
        return wl, S.H2(size=FAM.sized(wl, frac))
    return FAM.FAMILY[sid]


def body_T(cfg):
    from accelforge.mapper.FFM.main import map_workload_to_arch

    sid, metric, detail = cfg
    sample = {"phase": "T", "spec": sid, "metric": metric, "eval_in_detail": detail}
    wl, arch = spec_of(sid)
    spec = S.build_spec(arch, wl, S.Knobs(metric))
    try:
        r = map_workload_to_arch(spec, eval_in_detail=detail, print_progress=False)
    except Exception as e:
        return Result(outcome="mapper-raised", validated=False, sample=sample,
                      violation={"observed": f"{type(e).__name__}: {str(e)[:300]}", "expected": "a result table",
                                 "family": "mapper-raises/" + type(e).__name__, "config": sample})
    probs, calls, info = check_table(r, detail)
    if len(r.data) >= 1 and not probs:
        for idx, lab in ((0, "/sub-table[0]"), (len(r.data) - 1, "/sub-table[-1]")):
            p2, c2, _ = check_table(r[idx], detail, label=lab)
            probs += p2
            calls += c2
            if len(r.data) == 1:
                break
    viol = None
    if probs:
        fam = probs[0][0]
        if not detail and all(f.startswith("nodetail-table/") for f, _ in probs):
            # one family naming every accessor that ignores the Total column of a table without breakdown columns
            fam = "nodetail-table/" + "+".join(sorted({f.split("/")[1] for f, _ in probs}))
        viol = {"observed": [{"family": f, **d} for f, d in probs[:4]],
                "expected": "every breakdown sums to the un-broken-down value == Total column", "family": fam,
                "config": sample}
    return Result(outcome=(info["n"], tuple(info["energy"][:6])), nontrivial=info["nontrivial"], violation=viol,
                  evaluations=1 + calls, sample=dict(sample, rows=info["n"]),
                  outcome_class="detail" if detail else "nodetail")


# ------------------------------------------------------------------- phase S: model tables of LoopTrees

S_WORKLOADS = {"MM1-222": S.MM1(2, 2, 2), "MV1-42": S.MV1(4, 2), "MM1-232-x3": S.MM1(2, 3, 2, n_instances=3)}


def s_arch():
    return S.Arch(nodes=(
        S.Mem("Main", S.INF, 7, 11, read_throughput=8, write_throughput=4, leak=0.25, keep="~Intermediates", may_keep="All"),
        S.Mem("Buf", S.INF, 2, 3, read_throughput=2, write_throughput=3, leak=0.5, keep=None, may_keep="All",
              vpa=(("Outputs", 2),)),
        S.Comp("MAC", 5, 2, leak=0.125)))


_S_TREES: dict = {}
_S_FIX: dict = {}


def s_trees(wl_id):
    if wl_id not in _S_TREES:
        _S_TREES[wl_id] = list(MS.single_einsum_trees(s_arch(), S_WORKLOADS[wl_id], "E0"))
    return _S_TREES[wl_id]


def s_fixture(wl_id):
    if wl_id not in _S_FIX:
        _S_FIX.clear()
        _S_FIX[wl_id] = afx.prepare(S.build_spec(s_arch(), S_WORKLOADS[wl_id], S.Knobs("E")))
    return _S_FIX[wl_id]


def check_tree(wl_id, idx):
    tree = s_trees(wl_id)[idx]
    m = afx.evaluate_tree(s_fixture(wl_id), tree)
    probs, calls, info = check_table(m, True)
    return tree, probs, calls, info


CHUNK = 8


def make_tree_S(plan):
    def tree(p):
        if len(p) == 0:
            return list(range(len(plan)))
        wl_id, stride = plan[p[0]]
        idxs = list(range(0, len(s_trees(wl_id)), stride))
        if len(p) == 1:
            return list(range((len(idxs) + CHUNK - 1) // CHUNK))
        if len(p) == 2:
            return idxs[p[1] * CHUNK:(p[1] + 1) * CHUNK]
        return None
    return tree


def make_body_S(plan):
    def body(cfg):
        wl_id, _ = plan[cfg[0]]
        tree, probs, calls, info = check_tree(wl_id, cfg[2])
        sample = {"phase": "S", "workload": wl_id, "tree_index": cfg[2], "tree": afx.tree_str(tree)}
        viol = None
        if probs:
            viol = {"observed": [{"family": f, **d} for f, d in probs[:4]],
                    "expected": "every breakdown sums to the un-broken-down value == Total column",
                    "family": "model-table/" + probs[0][0], "config": sample}
        return Result(outcome=tuple(info["energy"]), nontrivial=info["nontrivial"], violation=viol,
                      evaluations=1 + calls, sample=sample, outcome_class="model-table")
    return body


QUICK = ["MM1-222/tight", "MM1-422/tight-thr", "MM1-224/mid-leak", "MV1-42/tight", "MM1-222/H3",
         "MV2-222/tight", "MV2-222/mid-thr", "MM2-2222/tight", "MV3-2222/mid-leak"]


def run(ctx):
    afx.serial()
    q = ctx.quick
    plan = [("MM1-222", 2), ("MV1-42", 5)] if q else [("MM1-222", 1), ("MV1-42", 1), ("MM1-232-x3", 1)]
    for it in plan:
        s_trees(it[0])
    # warm-up in the parent: imports, jitted kernels, caches are inherited by the forked workers
    check_tree(plan[0][0], 0)
    body_T(("MV2-222/tight", "ELR", True))
    ctx.explore("model-tables", make_tree_S(plan), make_body_S(plan), shard_depth=2, distinct_by_construction=True)
    sids = QUICK if q else list(FAM.FAMILY) + list(EXTRA)
    metrics = ["E", "ELR"] if q else ["E", "EL", "ELR", "EDP"]

    def tree(p):
        if len(p) == 0:
            return sids
        if len(p) == 1:
            return metrics
        if len(p) == 2:
            return [True, False]
        return None

    ctx.explore("mapper-tables", tree, body_T, shard_depth=3, distinct_by_construction=True)
    ctx.bound(model_tables=[{"workload": w, "stride": s, "trees": len(s_trees(w))} for w, s in plan], specs=sids,
              metrics=metrics, eval_in_detail=[True, False], energy_flag_combinations=16, actions_flag_combinations=8,
              latency_flag_combinations=4)


def replay(ctx, rec):
    afx.serial()
    c = rec["config"]
    if c["phase"] == "T":
        r = body_T((c["spec"], c["metric"], c["eval_in_detail"]))
        return {"observed": r.violation and r.violation["observed"], "violation": bool(r.violation)}
    tree, probs, calls, info = check_tree(c["workload"], c["tree_index"])
    return {"observed": [{"family": f, **d} for f, d in probs[:4]], "violation": bool(probs)}
