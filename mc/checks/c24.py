"""C24 — workload geometry equals explicit enumeration of the iteration space.

Alphabet: Workloads of 1 Einsum (quick + thorough) and chains of 2-3 Einsums with
<= 3 rank variables per Einsum, box iteration spaces 0 <= v < B (B <= 3 quick, <= 6
thorough) written in each of the four documented ways (Einsum / workload
``iteration_space_shape``, workload / Einsum ``rank_sizes``), an identity-projected
tensor plus 1-2 probe tensors with 1-2 ranks whose projections are *every* affine form
a*x + b*y (+ d*z) + c, a,b,d in {0,1,2}, c in {0,1}.
Oracle (R-iter, mc/ref/iterspace.py: itertools.product over the box + evaluating the
forms): rank-variable bounds and n_computes equal the enumerated ones; a tensor's size
equals the number of distinct projected points if that image is a box, otherwise either
that exact number or an exception; stride = enumerated step of the projection, halo =
enumerated extra extent (spread of the projected coordinate with the variable held
fixed).

Reading of "halo" for projections with a constant term: the implementation documents
halo as "(initial delta)" and evaluates the projection at (v=0, others=max), which is
the extra extent *plus the constant c*.  That offset reading is what its consumer
(`get_initial_delta_choices`) needs, and the property text ("extra extent") does not
rule it out, so for c != 0 both values are accepted; the count of configurations in
which the implementation reports extent + c is recorded in the evidence notes.  For
c == 0 both readings coincide and exactly one value is accepted.

SELFTEST (scratch copy /tmp/af-mut-c24 of accelforge/, VERIF_REPO, quick tier = 15070 configurations; copy
deleted afterwards)
  M1 _isl.py:get_dim_bounds  `shape = max_val - min_val + 1` -> `max_val - min_val`     caught  bounds (15070 cfgs)
  M2 _isl.py:get_tensor_size `if data_space.is_box():` -> `if True:` (bounding box
     returned for strided / skewed images)                                              caught  size-nonbox-wrong-count/{1,2}rank (7984)
  M3 _symbolic.py:get_stride_and_halo_of_einsum `shape[rank_var] = 1` -> `= 2`          caught  halo/c0 (15070)
  M4 _symbolic.py `stride = rank_projection.coeff(rank_var)` -> coeff of the
     alphabetically first variable of the rank                                          caught  stride (4896)
  M5 _isl.py:_card_box `dims.append(max_val - min_val + 1)` -> `max_val + 1`            caught  size-box-wrong/{1,2}rank (3861; needs c != 0)
  M6 _symbolic.py halo reduced by (stride - 1)                                          caught  halo/c0 (7291; needs coefficient 2)
  M7 _isl.py:get_tensor_data_space `.intersect(` -> `.union(` (read-only tensor shared
     by Einsums)                                                                        MISSED  known gap: when the Einsums' images of a
     shared read-only tensor differ the statement does not say which image is "the" tensor, so its size is not
     compared; when they agree union == intersection.
"""

from __future__ import annotations

import itertools

from mc.explorer import Result
from mc.ref import iterspace as R

MANIFEST = {
    "text": "every workload of the stated finite family (1-3 Einsums, <=3 rank variables with box bounds, "
            "every affine projection a*x+b*y(+d*z)+c with coefficients in {0,1,2}, c in {0,1}, on 1-2 probe "
            "tensors of 1-2 ranks, four ways of writing the bounds) is pushed through the real ISL/sympy "
            "geometry functions and compared with an itertools.product enumeration; right level because the "
            "functions are pure and their case splits (box / strided / skewed image, constant terms, bound 1) "
            "are all reached by tiny bounds",
    "note": "trusted: islpy, the enumeration reference; bounds <= 3 (quick) / <= 6 (thorough); rank variables "
            "start at 0; non-box iteration spaces are outside the property; for projections with a constant "
            "term the halo may be either the extra extent or extra extent + constant (see module docstring)",
    "technique": "bounded exhaustive input enumeration (explicit-state) vs reference model",
}

RULE = (
    "product of (style of writing bounds) x (probe role) x (bound vector) x (affine form per probe rank); "
    "distinct = distinct tuple; non-trivial = the space has > 1 point and some probe rank is not a plain "
    "single variable (coefficient 2, two or more variables, or a constant term), so that size / stride / halo "
    "differ from the trivial identity case"
)
ASSUMPTIONS = [
    "islpy set operations are trusted only as far as the enumeration agrees with them",
    "R-iter (mc/ref/iterspace.py) is the specification: product enumeration + affine evaluation",
    "halo for projections with constant term c != 0: extra extent and extra extent + c are both accepted",
    "a shared read-only tensor whose images differ between Einsums has no defined size in the statement; "
    "its size is not compared (everything else of that workload is)",
    "rank variables start at 0 (as in every documented example); lower bounds != 0 not covered",
]

VARS = ["x", "y", "z"]
PROBE_RANKS = [["R", "S"], ["U", "V"]]
STYLES = ["einsum_iss", "workload_iss", "workload_rank_sizes", "einsum_rank_sizes"]


# ----------------------------------------------------------------------------
# building the workload dict from a configuration
# ----------------------------------------------------------------------------

def form_str(form, names):
    coeffs, const = form
    terms = []
    for c, n in zip(coeffs, names):
        if c == 0:
            continue
        terms.append(n if c == 1 else f"{c}*{n}")
    if const or not terms:
        terms.append(str(const))
    return "+".join(terms)


def names_of(k, n):
    return [f"{v}{k}" for v in VARS[:n]]


def build_workload_dict(cfg):
    style, role, einsums = cfg["style"], cfg["role"], cfg["einsums"]
    wl = {"einsums": []}
    w_iss, w_rs = {}, {}
    for k, e in enumerate(einsums):
        bounds = e["bounds"]
        n = len(bounds)
        names = names_of(k, n)
        ident = {"name": f"T{k}", "projection": list(names)}
        probes = []
        for j, ranks in enumerate(e["probes"]):
            proj = {PROBE_RANKS[j][i]: form_str(_t(f), names) for i, f in enumerate(ranks)}
            probes.append({"name": f"P{j}", "projection": proj})
        link = []
        if k > 0:
            prev = names_of(k - 1, len(einsums[k - 1]["bounds"]))
            link = [{"name": f"T{k-1}", "projection": {p.upper(): v for p, v in zip(prev, names)}}]
        if role == "probe_out" and k == 0 and probes:
            probes[0]["output"] = True
            tas = [ident] + link + probes[1:] + [probes[0]]
        else:
            ident["output"] = True
            tas = probes + link + [ident]
        ed = {"name": f"E{k}", "tensor_accesses": tas}
        if style == "einsum_iss":
            ed["iteration_space_shape"] = [f"0 <= {v} < {b}" for v, b in zip(names, bounds)]
        elif style == "workload_iss":
            for v, b in zip(names, bounds):
                w_iss[v] = f"0 <= {v} < {b}"
        elif style == "workload_rank_sizes":
            for v, b in zip(names, bounds):
                w_rs[v.upper()] = b
        elif style == "einsum_rank_sizes":
            ed["rank_sizes"] = {v.upper(): b for v, b in zip(names, bounds)}
        else:
            raise ValueError(style)
        wl["einsums"].append(ed)
    if w_iss:
        wl["iteration_space_shape"] = w_iss
    if w_rs:
        wl["rank_sizes"] = w_rs
    return wl


def _t(form):
    return (tuple(form[0]), form[1])


# ----------------------------------------------------------------------------
# reference
# ----------------------------------------------------------------------------

def expected(cfg):
    einsums = cfg["einsums"]
    exp = {"bounds": {}, "n_computes": {}, "size": {}, "sh": {}}
    images = {}
    total = 0
    for k, e in enumerate(einsums):
        n = len(e["bounds"])
        names = names_of(k, n)
        pts = R.points([(0, b) for b in e["bounds"]])
        vb = R.variable_bounds(pts, n)
        assert R.prod(vb) == len(pts)  # the space is a box
        exp["bounds"][f"E{k}"] = dict(zip(names, vb))
        exp["n_computes"][f"E{k}"] = R.n_operations(pts)
        total += len(pts)
        ident = [(v.upper(), (tuple(int(i == j) for j in range(n)), 0)) for i, v in enumerate(names)]
        images.setdefault(f"T{k}", []).append((R.image(pts, ident), n))
        accesses = {f"T{k}": ident}
        if k > 0:
            prev = names_of(k - 1, len(einsums[k - 1]["bounds"]))
            accesses[f"T{k-1}"] = [(p.upper(), (tuple(int(i == j) for j in range(n)), 0))
                                   for i, p in enumerate(prev)]
        for j, ranks in enumerate(e["probes"]):
            acc = [(PROBE_RANKS[j][i], _t(f)) for i, f in enumerate(ranks)]
            accesses[f"P{j}"] = acc
            images.setdefault(f"P{j}", []).append((R.image(pts, acc), len(acc)))
        sh = {}
        for tname, acc in accesses.items():
            d = {}
            for rank, form in acc:
                for vi, v in enumerate(names):
                    if form[0][vi] == 0:
                        continue
                    step, extent = R.step_and_extra_extent(pts, n, form, vi)
                    alt = R.top_coordinate_with_var_at_origin(pts, form, vi)
                    d[f"{rank},{v}"] = {"step": step, "halo": sorted({extent, alt}), "extent": extent}
            sh[tname] = d
        exp["sh"][f"E{k}"] = sh
    exp["n_computes"]["*"] = total
    for tname, imgs in images.items():
        # intermediate T_k: the writer's image (first entry); shared probes: must agree
        first, nd = imgs[0]
        if tname.startswith("P") and any(im != first for im, _ in imgs[1:]):
            exp["size"][tname] = {"defined": False}
            continue
        exp["size"][tname] = {"defined": True, "n": len(first), "box": R.is_box_points(first, nd)}
    return exp


# ----------------------------------------------------------------------------
# implementation
# ----------------------------------------------------------------------------

def _api():
    from accelforge.frontend.workload import Workload
    from accelforge.frontend._workload_isl._isl import get_rank_variable_bounds
    from accelforge.frontend._workload_isl._symbolic import (
        get_stride_and_halo, get_stride_and_halo_of_einsum)

    return Workload, get_rank_variable_bounds, get_stride_and_halo_of_einsum, get_stride_and_halo


def _call(fn, *a):
    try:
        return fn(*a)
    except Exception as e:  # an exception is an observation
        return f"raise:{type(e).__name__}"


def _sh_json(d):
    if isinstance(d, str):
        return d
    out = {}
    for tname, pairs in d.items():
        out[str(tname)] = {f"{r},{v}": [_num(s), _num(h)] for (r, v), (s, h) in pairs.items()}
    return out


def _num(x):
    try:
        f = float(x)
        return int(f) if f == int(f) else f
    except Exception:
        return repr(x)


def observe(cfg):
    Workload, bounds_fn, sh_fn, sh_all_fn = _api()
    n_calls = 0
    try:
        wl = Workload(**build_workload_dict(cfg))
    except Exception as e:
        return {"construct": f"raise:{type(e).__name__}:{str(e)[:200]}"}, 1
    obs = {"bounds": {}, "n_computes": {}, "size": {}, "sh": {}}
    tensors = []
    for k, e in enumerate(cfg["einsums"]):
        name = f"E{k}"
        b = _call(bounds_fn, wl, name)
        obs["bounds"][name] = b if isinstance(b, str) else {str(a): _num(c) for a, c in b.items()}
        obs["n_computes"][name] = _num_or_str(_call(wl.n_computes, name))
        obs["sh"][name] = _sh_json(_call(sh_fn, name, wl))
        n_calls += 3
        for t in [f"T{k}"] + [f"P{j}" for j in range(len(e["probes"]))]:
            if t not in tensors:
                tensors.append(t)
    obs["n_computes"]["*"] = _num_or_str(_call(wl.n_computes))
    n_calls += 1
    if len(cfg["einsums"]) > 1:  # the workload-level aggregation is only interesting for several Einsums
        allsh = _call(sh_all_fn, wl)
        if isinstance(allsh, str):
            obs["sh_all"] = allsh
        else:
            regroup = {}
            for (en, tn), pairs in allsh.items():
                regroup.setdefault(str(en), {})[tn] = pairs
            obs["sh_all"] = {en: _sh_json(d) for en, d in regroup.items()}
        n_calls += 1
    for t in tensors:
        obs["size"][t] = _num_or_str(_call(wl.get_tensor_size, t))
        n_calls += 1
    return obs, n_calls


def _num_or_str(x):
    return x if isinstance(x, str) else _num(x)


# ----------------------------------------------------------------------------
# oracle
# ----------------------------------------------------------------------------

def compare(cfg, exp, obs):
    """-> (violation dict | None, classes set)"""
    classes = set()
    if "construct" in obs:
        return ({"family": "construct-raises", "observed": obs["construct"], "expected": "workload accepted",
                 "note": "documented workload rejected at construction"}, classes)

    def viol(fam, o, e, note):
        return {"family": fam, "observed": o, "expected": e, "note": note}

    for en, eb in exp["bounds"].items():
        if obs["bounds"][en] != eb:
            return viol("bounds", obs["bounds"][en], eb, f"rank-variable bounds of {en}"), classes
    for en, n in exp["n_computes"].items():
        if obs["n_computes"][en] != n:
            return viol("n_computes", obs["n_computes"][en], n, f"n_computes({en})"), classes
    for t, es in exp["size"].items():
        o = obs["size"][t]
        if not es["defined"]:
            classes.add("shared-images-differ")
            continue
        nranks = _nranks(cfg, t)
        if es["box"]:
            classes.add("box")
            if isinstance(o, str):
                return viol(f"size-box-raises/{nranks}rank", o, es["n"], f"size of {t}: image is a box"), classes
            if o != es["n"]:
                return viol(f"size-box-wrong/{nranks}rank", o, es["n"], f"size of {t}"), classes
        else:
            if isinstance(o, str):
                classes.add("nonbox-raise")
            elif o == es["n"]:
                classes.add("nonbox-count")
            else:
                return viol(f"size-nonbox-wrong-count/{nranks}rank", o, f"{es['n']} or an exception",
                            f"size of {t}: image is not a box"), classes
    for key in ("sh", "sh_all"):
        if key not in obs:
            continue
        for en, et in exp["sh"].items():
            ot = obs[key].get(en) if isinstance(obs[key], dict) else obs[key]
            if isinstance(ot, str) or ot is None:
                return viol("stride-halo-raises", ot, "a dict", f"{key} of {en}"), classes
            if sorted(ot) != sorted(et):
                return viol("stride-halo-tensors", sorted(ot), sorted(et), f"{key} of {en}"), classes
            for t, pairs in et.items():
                if sorted(ot[t]) != sorted(pairs):
                    return viol("stride-halo-keys", sorted(ot[t]), sorted(pairs), f"{key} {en}/{t}"), classes
                for pk, ex in pairs.items():
                    s, h = ot[t][pk]
                    if ex["step"] is not None and s != ex["step"]:
                        return viol("stride", s, ex["step"], f"{key} {en}/{t}/{pk}"), classes
                    if h not in ex["halo"]:
                        c = "c0" if len(ex["halo"]) == 1 else "c1"
                        return viol(f"halo/{c}", h, ex["halo"], f"{key} {en}/{t}/{pk}"), classes
                    if h != ex["extent"]:
                        classes.add("halo=extent+const")
    return None, classes


def _nranks(cfg, t):
    if t.startswith("T"):
        return len(cfg["einsums"][int(t[1:])]["bounds"])
    return len(cfg["einsums"][0]["probes"][int(t[1:])])


def nontrivial(cfg):
    for e in cfg["einsums"]:
        if R.prod(e["bounds"]) <= 1:
            continue
        for ranks in e["probes"]:
            for coeffs, const in ranks:
                nz = [c for c in coeffs if c]
                if const or len(nz) != 1 or nz[0] != 1:
                    return True
    return False


def check(cfg):
    exp = expected(cfg)
    obs, n_calls = observe(cfg)
    v, classes = compare(cfg, exp, obs)
    return exp, obs, v, classes, n_calls


# ----------------------------------------------------------------------------
# enumeration
# ----------------------------------------------------------------------------

def forms(n, coeff_alpha=(0, 1, 2), consts=(0, 1)):
    return [(cs, c) for cs in itertools.product(coeff_alpha, repeat=n) for c in consts]


def to_cfg(style, role, einsums):
    return {"style": style, "role": role,
            "einsums": [{"bounds": list(b), "probes": [[[list(f[0]), f[1]] for f in ranks] for ranks in probes]}
                        for b, probes in einsums]}


class Family:
    """One sub-space: (style) x (role) x (bound vector) x (probe choice per level)."""

    def __init__(self, name, kind, styles, roles, bound_vectors, menu, n_levels=1):
        self.name, self.kind, self.styles, self.roles = name, kind, styles, roles
        self.bound_vectors, self.menu, self.n_levels = bound_vectors, menu, n_levels


FAMILIES: dict = {}


def union_tree(p):
    """levels: family, style, role, bounds, then n_levels probe choices."""
    if len(p) == 0:
        return list(FAMILIES)
    f = FAMILIES[p[0]]
    if len(p) == 1:
        return f.styles
    if len(p) == 2:
        return f.roles
    if len(p) == 3:
        return f.bound_vectors
    if len(p) - 4 < f.n_levels:
        return f.menu(len(p[3]))
    return None


def union_body(cfg_t):
    f = FAMILIES[cfg_t[0]]
    style, role, bounds = cfg_t[1:4]
    if f.kind == "single":  # the probe choice is a tuple of tensors, each a tuple of forms
        return run_cfg(to_cfg(style, role, [(bounds, cfg_t[4])]), f.name)
    # chain: one W-projection per Einsum, identity intermediates, same bounds everywhere
    return run_cfg(to_cfg(style, role, [(bounds, ((g,),)) for g in cfg_t[4:]]), f.name)


def run_cfg(cfg, fam_name=""):
    exp, obs, v, classes, n_calls = check(cfg)
    nt = nontrivial(cfg)
    if v is not None:
        v = dict(v)
        v["config"] = cfg
        v["workload"] = build_workload_dict(cfg)
    return Result(outcome=obs, nontrivial=nt, validated=True, violation=v, sample=cfg,
                  evaluations=n_calls, outcome_class=fam_name + ":" + ("+".join(sorted(classes)) or "plain"))


def bvecs(ns, alpha):
    return [bv for n in ns for bv in itertools.product(alpha, repeat=n)]


def one_probe(n):  # one probe tensor with 1 or 2 ranks, every form
    fs = forms(n)
    return [((f,),) for f in fs] + [((f, g),) for f in fs for g in fs]


def one_probe_1rank(n):
    return [((f,),) for f in forms(n)]


def one_probe_2rank_c0(n):
    fs0 = forms(n, consts=(0,))
    return [((f, g),) for f in fs0 for g in fs0]


def two_probes(n):  # three tensors: identity + two probes of one rank each
    fs = forms(n)
    return [((f,), (g,)) for f in fs for g in fs]


def define_families(q):
    FAMILIES.clear()
    B = (1, 2, 3) if q else (1, 2, 3, 4, 5, 6)
    IN, OUT, BOTH = ["probe_in"], ["probe_out"], ["probe_in", "probe_out"]
    EI, RS = ["einsum_iss"], ["workload_rank_sizes"]

    def add(*a, **k):
        f = Family(*a, **k)
        FAMILIES[f.name] = f

    def two_rank(n):
        return [((f, g),) for f in forms(n) for g in forms(n)]

    def two_rank_3v(n):  # first rank: any c=0 form; second rank: coefficients from {0,1}
        return [((f, g),) for f in forms(n, consts=(0,)) for g in forms(n, coeff_alpha=(0, 1), consts=(0,))]

    if q:
        # A: 1-2 rank variables, one probe tensor of 1-2 ranks
        add("one-probe-1rank", "single", STYLES, IN, bvecs((1, 2), B), one_probe_1rank)
        add("one-probe-2rank", "single", EI, IN, bvecs((1, 2), B), two_rank)
        add("one-probe-2rank-rs", "single", RS, IN, bvecs((1, 2), (2, 3)), two_rank)
        add("one-probe-out-1rank", "single", EI, OUT, bvecs((1, 2), B), one_probe_1rank)
        add("one-probe-out-2rank", "single", EI, OUT, bvecs((1, 2), (2, 3)), two_rank)
        # B: three rank variables
        add("three-vars-1rank", "single", EI, IN, bvecs((3,), (1, 2, 3)), one_probe_1rank)
        add("three-vars-2rank", "single", EI, IN, bvecs((3,), (2, 3)), two_rank_3v)
        # C: three tensors (identity + two probes of one rank each)
        add("two-probes", "single", EI, IN, bvecs((2,), (1, 2, 3)), two_probes)
        add("two-probes-out", "single", EI, OUT, [(2, 3)], two_probes)
        # D: chains of Einsums sharing a read-only tensor and passing identity intermediates
        add("chain-2", "chain", EI, IN, bvecs((1,), (1, 2, 3)) + bvecs((2,), (2, 3)), lambda n: forms(n), n_levels=2)
        add("chain-2-rs", "chain", RS, IN, [(2, 3)], lambda n: forms(n), n_levels=2)
        add("chain-3", "chain", EI, IN, bvecs((2,), (2, 3)),
            lambda n: forms(n, consts=(0,), coeff_alpha=(1, 2)), n_levels=3)
    else:
        add("one-probe", "single", STYLES, BOTH, bvecs((1, 2), B), one_probe)
        add("three-vars", "single", EI + RS, IN, bvecs((3,), (1, 2, 3)), one_probe)
        add("three-vars-b4", "single", EI, IN, [bv for bv in bvecs((3,), (1, 2, 4, 6)) if max(bv) > 3],
            lambda n: one_probe_1rank(n) + one_probe_2rank_c0(n))
        add("two-probes", "single", STYLES, BOTH, bvecs((2,), (1, 2, 3)), two_probes)
        add("chain-2", "chain", EI + RS, IN, bvecs((1, 2), (1, 2, 3)), lambda n: forms(n), n_levels=2)
        add("chain-3", "chain", EI + RS, IN, bvecs((1, 2), (1, 2, 3)), lambda n: forms(n, consts=(0,)), n_levels=3)
    return B


def run(ctx):
    q = ctx.quick
    # warm-up: import accelforge / islpy / sympy once in the parent
    check(to_cfg("einsum_iss", "probe_in", [((2, 2), ((((1, 1), 0),),))]))
    check(to_cfg("workload_rank_sizes", "probe_in", [((2,), ((((2,), 1),),))]))
    B = define_families(q)
    # one explore (one worker pool) over the union of all families
    ctx.explore("geometry", union_tree, union_body, shard_depth=4, distinct_by_construction=True)

    ctx.bound(rank_variables="<=3 per Einsum", einsums="1 (all families), 2 and 3 (chain families)",
              bound_alphabet=list(B), coefficients=[0, 1, 2], constants=[0, 1],
              probe_tensors="1 tensor x 1-2 ranks (all forms) ; 2 tensors x 1 rank (all forms)",
              styles=STYLES,
              families={k: {"styles": f.styles, "roles": f.roles, "n_bound_vectors": len(f.bound_vectors),
                            "levels": f.n_levels} for k, f in FAMILIES.items()},
              three_var_bounds="{1,2,3}^3 (1 rank, all forms) / {2,3}^3 (2 ranks: any c=0 form x coefficients {0,1})" if q else
              "{1,2,3}^3 all probes, two styles; {1,2,4,6}^3 with max>3, 1 rank all forms / 2 ranks c=0")
    tot = ctx.total.outcome_classes
    n_off = sum(v for k, v in tot.items() if "halo=extent+const" in k)
    ctx.note(f"{n_off} configurations in which the implementation reports halo = extra extent + constant term "
             f"(accepted offset reading; only possible when c != 0)")
    ctx.note("outcome classes: <family>:<observations>; box = size returned for a box image; nonbox-raise = "
             "exception for a non-box image; nonbox-count = exact count returned for a non-box image; "
             "shared-images-differ = shared read-only tensor with different images per Einsum (size not compared)")


def replay(ctx, rec):
    cfg = rec["config"]
    exp, obs, v, classes, _ = check(cfg)
    return {"observed": (v or {}).get("observed", obs), "expected": (v or {}).get("expected", "matches R-iter"),
            "family": (v or {}).get("family"), "violation": v is not None}
