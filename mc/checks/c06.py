"""C06 — reported memory usage == execution-time peak occupancy; over-capacity mappings rejected.

Alphabet: (A) every single-Einsum LoopTree of the reference mapspace (all storage
placements / interleavings / divisor chains / which storage node of a block sits
directly above the loops) on hierarchies with finite sizes; (B) every fused
two-Einsum LoopTree obtained by merging every pair of single-Einsum trees that agree
on the shared tensor's backing node and on the loops above it (shared fused loops
above a sequential split), plus the full unfused cross product for the smallest
workload; (C) every mapping the mapper returns for 2- and 3-Einsum specs
(ENERGY|LATENCY|RESOURCE_USAGE fronts), with persistent tensors and instance counts.
Oracle: R-exec occupancy simulation (alloc/free events over the executed loop nest,
mc/ref/looptree_exec.py:peak_occupancy): reported usage == peak bits / size for every
memory; a tree whose peak exceeds a size must be rejected and vice versa.
"""

from __future__ import annotations

from fractions import Fraction as F

from mc import afx
from mc import specs as S
from mc.explorer import Result
from mc.ref import looptree_exec as X
from mc.ref import mapspace as MS

MANIFEST = {
    "text": "every single-Einsum LoopTree and every fused two-Einsum LoopTree (shared loops above a sequential "
            "split) of small workloads on finite-size hierarchies, plus every mapping returned by the mapper for "
            "2-3 Einsum specs, is evaluated by the real model; the reported per-memory usage must equal the peak of "
            "an explicit alloc/free simulation of the executed loop nest, and validity (capacity) must agree in both "
            "directions",
    "note": "trusted: R-exec liveness rules (streaming through directly-following relevant loops; head-of-split "
            "allocations live from first to last using branch); bounds: rank sizes <= 4, <= 3 Einsums, 2-3 levels",
    "technique": "bounded exhaustive enumeration of (fused) LoopTrees on the real model vs explicit occupancy simulation",
}
RULE = ("configuration = (spec, LoopTree); distinct by construction (phase C: de-duplicated by tree string); "
        "non-trivial = at least one storage node below the outermost level under a loop, or a fused split")
ASSUMPTIONS = [
    "R-exec occupancy rules are the reading of 'tiles live from first to last use' (calibrated on 1250 fused trees)",
    "spatial loops / partially relevant (strided) ranks are outside the quantifier",
    "the order of adjacent storage nodes is significant (only the node directly above relevant loops streams)",
]

TOL = 1e-6

SPECS = {
    # id: (workload, arch)
    "MM1-422/H2-96": (S.MM1(4, 2, 2), S.H2(size=96)),
    "MM1-224/H2-64": (S.MM1(2, 2, 4), S.H2(size=64)),
    "MV1-24/H2-40": (S.MV1(2, 4), S.H2(size=40)),
    "MV1-42/H3-40-16": (S.MV1(4, 2), S.H3(size=40, rsize=16)),
    "EW1-42/H2-48": (S.EW1(4, 2), S.H2(size=48)),
    "MV2-424/H2-40": (S.MV2(4, 2, 4), S.H2(size=40)),
    "MV2-242/H2-40": (S.MV2(2, 4, 2), S.H2(size=40)),
    "MV2-222/H2-24": (S.MV2(2, 2, 2), S.H2(size=24)),
    "MM2-2222/H2-64": (S.MM2(2, 2, 2, 2), S.H2(size=64)),
    "MM2-2242/H2-96": (S.MM2(2, 2, 4, 2), S.H2(size=96)),
}

_FIX: dict = {}


def fixture(sid):
    if sid not in _FIX:
        wl, arch = SPECS[sid]
        spec = S.build_spec(arch, wl, S.Knobs("E"))
        _FIX.clear()
        _FIX[sid] = (wl, arch, afx.prepare(spec))
    return _FIX[sid]


def sizes(arch):
    out = {}
    for m in arch.memories:
        out[m.name] = float("inf") if str(m.size) == "inf" else float(m.size)
    return out


def compare(sid, tree, persistent=()):
    wl, arch, prep = fixture(sid)
    peak = X.peak_occupancy(tree, arch, wl, persistent=persistent, full_iteration=True)
    if peak != X.peak_occupancy(tree, arch, wl, persistent=persistent):
        raise AssertionError("R-exec: one-iteration shortcut differs from full execution on " + afx.tree_str(tree))
    sz = sizes(arch)
    exp_valid = all(float(peak[m]) <= sz[m] for m in sz)
    exp_usage = {m: (0.0 if sz[m] == float("inf") else float(peak[m]) / sz[m]) for m in sz}
    try:
        r = afx.evaluate_tree(prep, tree)
        if len(r.data) == 0:
            got_valid, got_usage, err = False, None, "empty result"
        else:
            got_valid = True
            ru = r.resource_usage()
            got_usage = {m: float(ru.get(m, 0.0)) for m in sz}
            err = None
    except Exception as e:
        if type(e).__name__ in ("InvalidMappingError", "ValueError", "AssertionError"):
            got_valid, got_usage, err = False, None, f"{type(e).__name__}: {str(e)[:160]}"
        else:
            got_valid, got_usage, err = False, None, f"UNEXPECTED {type(e).__name__}: {str(e)[:200]}"
    viol = None
    if got_valid != exp_valid:
        viol = {"observed": {"valid": got_valid, "error": err, "usage": got_usage},
                "expected": {"valid": exp_valid, "usage": exp_usage},
                "family": "accepts-over-capacity" if got_valid else "rejects-valid-tree"}
    elif got_valid:
        bad = {m: (got_usage[m], exp_usage[m]) for m in sz if abs(got_usage[m] - exp_usage[m]) > TOL}
        if bad:
            fam = "usage-too-low" if any(g < e for g, e in bad.values()) else "usage-too-high"
            viol = {"observed": got_usage, "expected": exp_usage, "family": fam}
    outcome = ("valid", tuple(round(v, 5) for v in exp_usage.values())) if exp_valid else ("invalid",)
    return outcome, viol


def block_variants(tree):
    """Variants of a tree in which, for every maximal run of >= 2 adjacent storage nodes
    that is followed by a loop, each node in turn is placed last (directly above the
    loops); the other orders are occupancy-equivalent to one of these."""
    runs = []
    i = 0
    outer = tree[0][1]
    while i < len(tree):
        if tree[i][0] == "S" and tree[i][1] != outer:
            j = i
            while j < len(tree) and tree[j][0] == "S":
                j += 1
            if j - i >= 2 and j < len(tree) and tree[j][0] == "T":
                runs.append((i, j))
            i = j
        else:
            i += 1
    variants = [list(tree)]
    for (a, b) in runs:
        new = []
        for v in variants:
            for k in range(a, b):
                blk = v[a:b]
                last = blk[k - a]
                rest = [x for x in blk if x is not last]
                new.append(v[:a] + rest + [last] + v[b:])
        variants = new
    # de-duplicate
    seen, out = set(), []
    for v in variants:
        key = afx.tree_str(v)
        if key not in seen:
            seen.add(key)
            out.append(v)
    return out


_TREES: dict = {}


def single_trees(sid, einsum="E0", variants=True):
    k = (sid, einsum, variants)
    if k not in _TREES:
        wl, arch = SPECS[sid]
        out = []
        for t in MS.single_einsum_trees(arch, wl, einsum):
            out.extend(block_variants(t) if variants else [t])
        _TREES[k] = out
    return _TREES[k]


def fused_pairs(sid, include_unfused):
    k = (sid, "fused", include_unfused)
    if k in _TREES:
        return _TREES[k]
    wl, arch = SPECS[sid]
    inter = MS.intermediates(wl)
    (Y, prod, cons), = inter
    ranks = set(dict((t, rk) for t, rk, _ in wl.tensors_of(prod))[Y])
    groups = {}
    for e in (prod, cons):
        for t in MS.single_einsum_trees(arch, wl, e):
            top, pre, b, rest = MS.split_at_backing(t, Y)
            if pre is None:
                key = ("unfused",)
            else:
                kk = MS.fused_prefix_key(pre, ranks)
                if kk is None:
                    continue
                key = (b[1], kk)
            groups.setdefault(key, {}).setdefault(e, []).append(t)
    out = []
    for key, g in sorted(groups.items(), key=lambda kv: str(kv[0])):
        if key == ("unfused",) and not include_unfused:
            continue
        for a in g.get(prod, []):
            for b in g.get(cons, []):
                m = MS.merge_two(a, b, Y)
                if m is not None:
                    out.append(m)
    _TREES[k] = out
    return out


def nontrivial(tree):
    s = afx.tree_str(tree)
    return "SEQ" in s or any(n[0] == "S" and n[1] != tree[0][1] for n in tree if n[0] == "S")


CHUNK = 20


def plan_tree(plan, getter):
    def tree(p):
        if len(p) == 0:
            return list(range(len(plan)))
        n = len(getter(plan[p[0]]))
        if len(p) == 1:
            return list(range((n + CHUNK - 1) // CHUNK))
        if len(p) == 2:
            return list(range(p[1] * CHUNK, min(n, (p[1] + 1) * CHUNK)))
        return None
    return tree


def body_for(plan, getter, phase):
    def body(cfg):
        item = plan[cfg[0]]
        sid = item[0]
        tree = getter(item)[cfg[2]]
        outcome, viol = compare(sid, tree)
        sample = {"phase": phase, "spec": sid, "item": list(item), "index": cfg[2], "tree": afx.tree_str(tree)}
        if viol:
            viol["config"] = sample
        return Result(outcome=outcome, nontrivial=nontrivial(tree), violation=viol, sample=sample)
    return body


# ---------------------------------------------------------- phase C: mapper rows

MAPPER_SPECS = {
    "MV2-424/H2-40/ELR": (S.MV2(4, 2, 4), S.H2(size=40), ()),
    "MV2-242/H2-24/ELR": (S.MV2(2, 4, 2), S.H2(size=24), ()),
    "MM2-2222/H2-64/ELR": (S.MM2(2, 2, 2, 2), S.H2(size=64), ()),
    "MV3-2222/H2-24/ELR": (S.MV3(2, 2, 2, 2), S.H2(size=24), ()),
    "MV3-2422/H2-40/ELR": (S.MV3(2, 4, 2, 2), S.H2(size=40), ()),
    "FAN3-22222/H2-64/ELR": (S.FAN3(2, 2, 2, 2, 2), S.H2(size=64), ()),
    "MV2-424/H2-40/pers-x3": (S.MV2(4, 2, 4, persistent="B | C", n_instances=3), S.H2(size=40), ("B", "C")),
    "MV2-224/Hfin/pers-x2": (S.MV2(2, 2, 4, persistent="B | C", n_instances=2),
                             S.Arch(nodes=(S.Mem("Main", 400, 10, 10, keep="~Intermediates", may_keep="All"),
                                           S.Mem("Buf", 40, 1, 1, keep="~Main", may_keep="All"), S.Comp())), ("B", "C")),
}


def mapper_rows(mid):
    """Run the real mapper, return (wl, arch, prep, [trees])"""
    from accelforge.mapper.FFM.main import map_workload_to_arch

    wl, arch, pers = MAPPER_SPECS[mid]
    spec = S.build_spec(arch, wl, S.Knobs("ELR"))
    r = map_workload_to_arch(spec, print_progress=False, eval_in_detail=False)
    trees, reported = [], []
    for i in range(len(r.data)):
        row = r.data.iloc[i]
        m = row["Total<SEP>mapping"](_for_model=True)
        trees.append(afx.mapping_to_tree(m))
        ru = r[i].resource_usage() if hasattr(r[i], "resource_usage") else {}
        reported.append({k: float(v) for k, v in ru.items()})
    return wl, arch, pers, trees, reported


def body_mapper(cfg):
    mid = cfg[0]
    try:
        wl, arch, pers, trees, reported = mapper_rows(mid)
    except Exception as e:
        return Result(outcome="mapper-raised", validated=False,
                      violation={"observed": f"{type(e).__name__}: {str(e)[:300]}", "expected": "mappings",
                                 "family": "mapper-raises", "config": {"phase": "mapper", "spec": mid}},
                      sample={"phase": "mapper", "spec": mid})
    sz = sizes(arch)
    bad = []
    outcomes = []
    for tree, rep in zip(trees, reported):
        if any(n[0] == "P" for n in _flat(tree)):
            continue
        peak = X.peak_occupancy(tree, arch, wl, persistent=pers)
        exp = {m: (0.0 if sz[m] == float("inf") else float(peak[m]) / sz[m]) for m in sz}
        outcomes.append(tuple(round(v, 5) for v in exp.values()))
        for m in sz:
            if abs(rep.get(m, 0.0) - exp[m]) > TOL or exp[m] > 1 + TOL:
                bad.append({"tree": afx.tree_str(tree), "memory": m, "reported": rep.get(m, 0.0), "expected": exp[m]})
    viol = None
    if bad:
        fam = "mapper-row-usage-too-low" if any(b["reported"] < b["expected"] for b in bad) else "mapper-row-usage-too-high"
        viol = {"observed": bad[:4], "expected": "reported usage == R-exec peak / size and <= 1", "family": fam,
                "config": {"phase": "mapper", "spec": mid}}
    return Result(outcome=tuple(sorted(outcomes)), nontrivial=len(trees) > 1, violation=viol,
                  evaluations=len(trees), sample={"phase": "mapper", "spec": mid, "rows": len(trees),
                                                  "first_tree": afx.tree_str(trees[0]) if trees else None})


def _flat(tree):
    for n in tree:
        if n[0] == "SEQ":
            for b in n[1]:
                yield from _flat(b)
        else:
            yield n


def run(ctx):
    afx.serial()
    q = ctx.quick
    # Phase A
    singles = ["MM1-422/H2-96", "MV1-24/H2-40", "EW1-42/H2-48"] if q else \
        ["MM1-422/H2-96", "MM1-224/H2-64", "MV1-24/H2-40", "MV1-42/H3-40-16", "EW1-42/H2-48"]
    planA = [(s,) for s in singles]
    getA = lambda item: single_trees(item[0])
    for it in planA:
        getA(it)
    ctx.explore("single-einsum", plan_tree(planA, getA), body_for(planA, getA, "single"), shard_depth=2,
                distinct_by_construction=True)
    # Phase B
    fused = [("MV2-424/H2-40", False), ("MV2-222/H2-24", False)] if q else \
        [("MV2-424/H2-40", False), ("MV2-242/H2-40", False), ("MV2-222/H2-24", True), ("MM2-2222/H2-64", False),
         ("MM2-2242/H2-96", False)]
    getB = lambda item: fused_pairs(item[0], item[1])
    for it in fused:
        getB(it)
    ctx.explore("fused-two-einsum", plan_tree(fused, getB), body_for(fused, getB, "fused"), shard_depth=2,
                distinct_by_construction=True)
    # Phase C
    mids = list(MAPPER_SPECS) if not q else ["MV2-424/H2-40/ELR", "MM2-2222/H2-64/ELR", "MV3-2222/H2-24/ELR",
                                             "MV2-424/H2-40/pers-x3", "MV2-224/Hfin/pers-x2"]
    ctx.explore("mapper-rows", lambda p: mids if len(p) == 0 else None, body_mapper, shard_depth=1,
                distinct_by_construction=True)
    ctx.bound(single=singles, fused=[f[0] + ("+unfused" if f[1] else "") for f in fused], mapper_specs=mids,
              n_single={s: len(single_trees(s)) for s in singles},
              n_fused={f[0]: len(fused_pairs(*f)) for f in fused})


def replay(ctx, rec):
    afx.serial()
    c = rec["config"]
    if c["phase"] == "mapper":
        r = body_mapper((c["spec"],))
        return {"observed": r.violation and r.violation["observed"], "violation": bool(r.violation)}
    item = tuple(c["item"])
    tree = (single_trees(item[0]) if c["phase"] == "single" else fused_pairs(item[0], item[1]))[c["index"]]
    outcome, viol = compare(c["spec"], tree)
    return {"observed": viol and viol["observed"], "expected": viol and viol["expected"], "violation": bool(viol)}
