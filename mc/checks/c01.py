"""C01 — the mapper's optimum equals the optimum over the whole mapspace.

Phase 1 enumerates EVERY LoopTree of the reference mapspace (mc/ref/mapspace.py: all
storage placements allowed by keep/may_keep, all interleavings, all divisor chains,
all fused loop prefixes for two-Einsum workloads; none of the mapper's pruning rules)
for every spec of the bound and evaluates each with the real model.  Phase 2 runs the
real `map_workload_to_arch` for ENERGY, LATENCY and ENERGY_DELAY_PRODUCT and demands
min(returned) == min(mapspace) (relative 1e-5) in both directions.
"""

from __future__ import annotations

from mc import family as FAM
from mc.explorer import Result

MANIFEST = {
    "text": "for every spec of a small family (1-2 Einsums, rank sizes with several divisors, tight/mid/infinite "
            "buffers, 2-3 level hierarchies) the complete reference mapspace (10^3-10^4 LoopTrees per spec, no pruning "
            "rules) is evaluated by the real model and its optimum must equal the optimum the mapper returns for "
            "energy, latency and EDP; an exhaustive small-scope comparison is the only way to see a pruning rule "
            "that loses the optimum",
    "note": "trusted: evaluate_mapping as the cost oracle (itself checked against explicit execution by C05/C06), the "
            "reference enumerator's reading of the documented mapspace (no loops above the outermost storage, at most "
            "one fused loop per rank variable, hierarchy order forced); loop order inside a slot is alphabetical in "
            "quick and fully permuted in thorough; spatial fanout not in the reference mapspace",
    "technique": "bounded exhaustive enumeration of the mapspace (explicit-state) x real model vs real mapper",
}
RULE = ("phase 1: one state per LoopTree of the reference mapspace of each spec; phase 2: one state per (spec, metric) "
        "mapper run compared with the reference optimum. non-trivial = the spec's capacity constraint binds (some "
        "enumerated LoopTree is invalid) and the optimum differs from the all-in-outermost-memory mapping")
ASSUMPTIONS = [
    "the real model is the cost oracle for enumerated LoopTrees",
    "unfused two-Einsum mappings: energy and latency add over sequential Einsums, usage is the max (checked on a full cross product in C06)",
    "float32 result tables: relative tolerance 1e-5",
]

METRICS = ["E", "L", "EDP"]
REL = 1e-5
_REFS: dict = {}


def body(cfg):
    sid, metric = cfg
    ref = _REFS[sid]
    exp = FAM.ref_min(ref, metric)
    res = FAM.run_mapper(sid, metric)
    sample = {"spec": sid, "metric": metric, "reference_trees": ref["n_trees"], "reference_valid": ref["n_valid"]}
    if res["error"] is not None or not res["rows"]:
        got = None
    else:
        got = min(FAM.row_metric(r, metric) for r in res["rows"])
    sample["mapper_best"], sample["reference_best"] = got, exp
    viol = None
    if exp is None and got is None:
        pass
    elif exp is None or got is None:
        viol = {"observed": {"mapper_best": got, "error": res["error"]}, "expected": {"reference_best": exp},
                "family": "mapper-finds-nothing" if got is None else "mapper-returns-mapping-outside-reference-mapspace"}
    elif got > exp * (1 + REL) + 1e-9:
        best = min(ref["points"], key=lambda p: p[0] if metric == "E" else (p[1] if metric == "L" else p[0] * p[1]))
        viol = {"observed": {"mapper_best": got}, "expected": {"reference_best": exp, "witness": best[3]},
                "family": f"mapper-misses-optimum/{metric}"}
    elif got < exp * (1 - REL) - 1e-9:
        w = min(res["rows"], key=lambda r: FAM.row_metric(r, metric))
        viol = {"observed": {"mapper_best": got, "tree": w["tree"]}, "expected": {"reference_best": exp},
                "family": f"mapper-better-than-mapspace/{metric}"}
    if viol:
        viol["config"] = sample
    allmain = max(p[0] for p in ref["points"]) if ref["points"] else None
    nontrivial = ref["n_valid"] < ref["n_trees"] and exp is not None
    return Result(outcome=(sid, metric, got), nontrivial=nontrivial, violation=viol, sample=sample)


def run(ctx):
    sids = FAM.QUICK_SIDS if ctx.quick else FAM.THOROUGH_SIDS
    refs = FAM.compute_refs(ctx, sids, orders="alpha")
    if not ctx.quick:
        small = ["MM1-222/tight", "MM1-422/tight", "MV1-42/tight"]
        refs_all = FAM.compute_refs(ctx, small, orders="all")
        for sid in small:
            for m in METRICS:
                a, b = FAM.ref_min(refs[sid], m), FAM.ref_min(refs_all[sid], m)
                if a is None or b is None or abs(a - b) > REL * abs(b):
                    ctx.note(f"loop-order canonicalisation differs on {sid}/{m}: alpha={a} all={b}")
                    refs[sid] = refs_all[sid]
    _REFS.update(refs)
    ctx.explore("mapper-vs-reference", lambda p: sids if len(p) == 0 else (METRICS if len(p) == 1 else None),
                body, shard_depth=2, distinct_by_construction=True)
    ctx.bound(specs=sids, metrics=METRICS, loop_orders="alphabetical per slot" if ctx.quick else "alphabetical + all permutations on the 3 smallest specs")


def replay(ctx, rec):
    c = rec["config"]

    class _C:  # minimal ctx for compute_refs
        seed = 0
        extra_cov = {}

        def absorb(self, *a, **k):
            pass

    _REFS.update(FAM.compute_refs(_C(), [c["spec"]]))
    r = body((c["spec"], c["metric"]))
    return {"observed": r.violation and r.violation["observed"], "expected": r.violation and r.violation["expected"],
            "violation": bool(r.violation)}
