"""C20 — the mapper's result does not depend on scheduling, hashing or caching.

Alphabet / bound / oracle (DESIGN.md section 4, C20; scheduler: section 3.5, mc/sched.py).
For every spec of a small family the real ``map_workload_to_arch`` is run in every
configuration of

  (a) n_jobs in {1,2,3,4,16} under the virtual scheduler (submission-order schedule;
      n_jobs changes the join's split fan-out and switches the pickle boundary on),
  (b) n_jobs=4 and, for every ``Parallel`` call site of the run that has a menu (they are
      all ``generator_unordered``: sched records them in a first run), every schedule of
      that site within the bound -- all completion orders when N<=5 jobs, every <=1
      (thorough: <=2 up to 12 jobs) deviation schedule + reversal/rotations/interleave for
      larger N, named orders only for the sites beyond the spec's ``dev1_upto`` -- one
      site perturbed at a time, plus the joint schedules "every site reversed / rotated /
      interleaved",
  (c) execution mode isolated (each job in a fresh fork) for the default and the reversed
      schedule (shared mode is what (a)/(b) use; the pickle boundary is always on);
      thorough tier only, on the specs flagged ``isolated`` (a run costs ~100 CPU-s),
  (d) PYTHONHASHSEED in {0,1,2,3,4242}: serial mapper in a separate interpreter,
  (e) cache history: fresh cache_dir, cold -> warm -> warm in one interpreter and warm
      again in a second interpreter (whether ``_make_pmappings`` really ran is observed),
  (f) cache histories over DIFFERENT settings: for each mapper setting of VARIANTS (one
      non-default value each) the cache_dir is first filled by a run with that setting,
      then used by the spec itself, then by the other setting again (warm); every run must
      return what the same call returns without a cache,

and the canonical result -- the sorted list of (energy, latency, per-memory usage, all to
9 significant digits; canonical LoopTree string of ``Total<SEP>mapping(_for_model=True)``)
over the returned rows; no uuids, no row order -- must equal the one of the serial
(n_jobs=1, hash seed 0, no cache) run of the same spec.

``traces_validated_against_impl`` counts ONLY runs on the REAL joblib/loky backend
(DESIGN 3.6): per spec free-running runs with n_jobs 2 and 16 and 2-3 runs whose
completion order at the biggest call site was forced with engineered sleeps
(sched.conformance_run, force="listed") and which agreed with the virtual run of the same
schedule and with the baseline.  The virtual-vs-baseline comparisons are counted in
coverage["virtual_configs_compared"].

FINDING on the unchanged tree (2026-09-22): family
``schedule/make_pmappings_from_templates/tie-structure``.  Spec MM1-422/ELR (matmul 4x2x2,
H2 with a 96-bit Buf, ENERGY|LATENCY|RESOURCE_USAGE), n_jobs=4: whenever job 5 of the
16-job "Generating pmappings" site (make_pmappings.py:398-410, return_as=
"generator_unordered") is delivered before job 4 -- smallest schedule: ONE deviation, choices
(0,0,0,0,1) = completion order [0,1,2,3,5,4,6,...]; also reversal, and the same order forced
on the real loky backend -- the row (2224, 16, Buf 0.583) comes back as
``[W0@Buf] for m [T1@Buf] for k [T0@Buf] for n`` instead of ``[W0@Buf] for m [T0@Buf] for n
[T1@Buf] for k``: two templates produce equal-cost pmappings and the first ARRIVING one
survives (pmapping_groups[...].extend() in arrival order, then first-of-duplicates Pareto).
Objective vectors are unaffected.  Thorough tier, same family: with ENERGY|LATENCY only
(spec MM1-422/thr/EL) the tie is between mappings of equal (energy, latency) but different
Buf usage (0.917 vs 0.583 of the buffer), 19 of the 123 <=1-deviation / named schedules of the
site flip it, e.g. choices (4,); MM2-2222/EL shows it too; free-running real loky runs with
n_jobs=2 hit it as well (the two tied jobs race).  Proposed patch (checked on a scratch copy: removes the
violation): consume that site in job order, i.e. drop ``return_as="generator_unordered"``
from the ``parallel(calls, pbar="Generating pmappings")`` call (list mode keeps the progress
bar behaviour and re-orders by index).

Mutation self-test (2026-09-22; ``VERIF_C20_SPECS=MM1-422/ELR VERIF_C20_NO_REAL=1 mc/mutant.sh
<tag> C20 <file> <old> <new>``, quick tier, 42 configurations; the finding above fires in
every run, a mutant counts as caught when a NEW family appears):
  (1a) FFM/main.py eval_in_detail loop ``results[i] = result`` -> ``results.append(result)``:
       NEUTRAL, legitimately: the rows come back in completion order but every row is
       self-contained (mapping and costs travel together) and row order is not part of the
       property, so the sorted canonical front is unchanged.  No new family.
  (1b) same line -> ``results[0] = result`` (only the last ARRIVING row survives): CAUGHT by
       the schedule dimension, family schedule/eval_mapping/objectives (19 of the 23
       non-default orders of the 4-job eval site; + joint orders).
  (2)  _make_pmappings/make_pmappings.py ``pmapping_groups[einsum_name].extend(new_pmapping_groups)``
       -> only while fewer than 6 groups have arrived (late arrivals dropped): CAUGHT by the
       schedule dimension, family schedule/make_pmappings_from_templates/objectives (8: all
       named orders at the site and all joint orders); n_jobs / hash seed / cache do not see it.
  (3a) make_storages.py ``powerset(sorted(may_keep, key=str))`` -> ``powerset(set(may_keep))`` and
  (3b) util/_frozenset.py ``oset.__iter__`` iterating like a plain set: both NEUTRAL on this
       spec (no new family under 5 hash seeds): every consumer downstream sorts again.
  (3c) make_pmappings.py job submission order made hash dependent (``for job in
       sorted(job_list.split(), key=lambda sj: hash(<template string>))``): CAUGHT by the
       hash-seed dimension only, family hashseed/tie-structure (one of the four non-zero
       seeds flips the tie); the schedule dimension cannot see it (same process, same seed).
"""

from __future__ import annotations

import functools
import hashlib
import json
import os
import shutil
import subprocess
import sys
import tempfile
import time

from mc import sched as SC
from mc.explorer import Result, pmap

MANIFEST = {
    "text": "for each spec of a small family the real mapper is run under every n_jobs in 1/2/3/4/16, under every "
            "completion order (N<=5 jobs) or every <=1/<=2-deviation order + reversal/rotations (larger N) of each of its "
            "parallel call sites (controlled scheduler substituted for joblib.Parallel), in shared and isolated execution, "
            "under 5 hash seeds in fresh interpreters, with a cold/warm/warm on-disk cache and with a cache shared by runs that "
            "differ in one mapper setting (every setting of a small alphabet), and the canonical front "
            "(objective vectors + LoopTree strings) must equal the serial baseline; right level because the only sources of "
            "nondeterminism are the completion order, the hash seed and the cache, all of which are enumerated",
    "note": "trusted: joblib's delivery contract as modelled by mc/sched.VirtualParallel (tied to real loky by free-running "
            "and forced-order runs); one call site perturbed at a time (+ joint named orders); 5 hash seeds are a "
            "configuration bound, not a proof; specs with 1-3 Einsums and <= 54 jobs per site",
    "technique": "bounded exhaustive schedule / configuration enumeration (stateless explicit-state model checking) vs serial baseline",
}
RULE = (
    "one state per (spec, configuration): n_jobs value | (call site, schedule as canonical choice sequence) | joint "
    "named order | isolated x {default, reversal} | hash seed | cache history | real-loky run; distinct by "
    "construction (schedules of a site are enumerated without repetition, the default schedule appears once as "
    "n_jobs=4); NON-TRIVIAL = the configuration differs from the baseline in a way the mapper can observe: >=1 "
    "deviation actually delivered, n_jobs>1, isolated execution, hash seed != 0, or a warm cache that really "
    "skipped _make_pmappings"
)
ASSUMPTIONS = [
    "joblib contract as in C32: only generator_unordered sites have a completion-order menu; every completion order is "
    "considered possible",
    "canonical result = sorted (energy, latency, per-memory usage to 9 significant digits, LoopTree string) rows; row "
    "order, uuids and timing columns are not part of the property",
    "one call site is perturbed at a time (all others in submission order) plus four joint named orders; sites opened "
    "inside a job (nested) run in submission order",
    "five PYTHONHASHSEED values; cache history cold/warm/warm + warm in a second interpreter; cache histories "
    "other-setting -> this spec -> other-setting over a shared cache_dir for one non-default value of each setting in "
    "VARIANTS; the spec YAML is read from a content-named file so that equal specs really hit the cache",
    "per-process memo caches of the harness worker (it runs many configurations) are part of the environment",
]

N_JOBS = (1, 2, 3, 4, 16)
SCHED_N_JOBS = 4
HASHSEEDS = (0, 1, 2, 3, 4242)
JOINT = ("reversal", "rot+1", "rot-1", "interleave")

# name -> workload, H2 kwargs, metrics, schedule policy (full_upto, dev2_upto, dev1_upto: sites with more jobs than
# dev1_upto get the named orders only), isolated runs?, tiers.  dev2 only applies in the thorough tier.
SPECS = {
    "MM1-422/ELR": dict(wl=("MM1", (4, 2, 2)), h2=dict(size=96), metrics="ELR",
                        policy=(5, 12, 54), quick_policy=(5, 0, 12), isolated=True, real=True,
                        tiers=("quick", "thorough")),  # isolated: thorough only (see configs_for)
    "MV2-222/bufY/ELR": dict(wl=("MV2", (2, 2, 2)), h2=dict(size=24, buf_may_keep="Y"), metrics="ELR",
                             policy=(5, 12, 54), isolated=False, real=True, tiers=("quick", "thorough")),
    "MV2-222/ELR": dict(wl=("MV2", (2, 2, 2)), h2=dict(size=24), metrics="ELR",
                        policy=(5, 0, 12), quick_policy=(0, 0, 0), isolated=False, real=False,
                        tiers=("quick", "thorough")),
    "MM1-422/thr/EL": dict(wl=("MM1", (4, 2, 2)), h2=dict(size=96, main_thr=8, buf_thr=16), metrics="EL",
                           policy=(5, 12, 54), isolated=False, real=True, tiers=("thorough",)),
    "MV2-222/bufYZ/ELR": dict(wl=("MV2", (2, 2, 2)), h2=dict(size=24, buf_may_keep="Y | Z"), metrics="ELR",
                              policy=(5, 0, 12), isolated=False, real=True, tiers=("thorough",)),
    "MM2-2222/bufT1/ELR": dict(wl=("MM2", (2, 2, 2, 2)), h2=dict(size=64, buf_may_keep="T1"), metrics="ELR",
                               policy=(4, 0, 12), isolated=False, real=True, tiers=("thorough",)),
    "MM2-2222/EL": dict(wl=("MM2", (2, 2, 2, 2)), h2=dict(size=64), metrics="EL",
                        policy=(0, 0, 0), isolated=False, real=False, tiers=("thorough",)),
    "MV3-2222/ELR": dict(wl=("MV3", (2, 2, 2, 2)), h2=dict(size=24, buf_may_keep="Y | Z"), metrics="ELR",
                         policy=(0, 0, 0), named=("reversal",), isolated=False, real=False, tiers=("thorough",)),
    "FAN3-22222/EL": dict(wl=("FAN3", (2, 2, 2, 2, 2)), h2=dict(size=64, buf_may_keep="T1"), metrics="EL",
                          policy=(0, 0, 0), named=("reversal",), isolated=False, real=False, tiers=("thorough",)),
}

# accelforge's numba kernels are declared cache=True; without a writable cache every fresh interpreter
# (hash-seed / cache children, loky workers) spends ~40 CPU-s re-compiling them.  Keyed by source path + mtime.
NUMBA_CACHE = "/tmp/verif-numba-cache"

_BASE: dict = {}  # spec -> canonical baseline
_SITES: dict = {}  # spec -> [(seq, n)] menu sites of the n_jobs=4 default run
_LABELS: dict = {}  # spec -> {seq: job-function name of the call site}
_REAL: dict = {}  # (spec, item json) -> result dict computed by the real-backend child


# ----------------------------- running the mapper -----------------------------

def _sig(x):
    return float(f"{float(x):.9g}")


# one non-default value per mapper setting that changes which pmappings / mappings are produced: the
# alphabet of the cache-HISTORY configurations (a cache_dir shared by runs that differ in one setting)
VARIANTS = (
    ("max_pmapping_templates_per_einsum", 1),
    ("max_fused_loops", 0),
    ("metrics", "E"),
    ("max_loops_minus_ranks", 0),
    ("explore_loop_orders", False),
    ("objective_tolerance", 0.5),
    ("explore_imperfect_temporal_loops", True),
)
QUICK_VARIANTS = 3


def build(name, knobs=()):
    from mc import specs as S

    d = SPECS[name]
    wl = getattr(S, d["wl"][0])(*d["wl"][1])
    arch = S.H2(**d["h2"])
    metrics = dict(knobs).get("metrics", d["metrics"])
    extra = tuple((k, v) for k, v in knobs if k != "metrics")
    # The Spec remembers the path of the YAML it was read from (_yaml_source) and joblib.Memory hashes it
    # with the rest of the Spec: a randomly named temporary file would make every run a cache miss.  The
    # file name is therefore a function of the content (as for a user who maps the same file twice).
    from accelforge.frontend.spec import Spec

    txt = S.spec_yaml(arch, wl)
    sdir = os.environ.get("VERIF_C20_SPECDIR") or os.path.join(tempfile.gettempdir(), "verif-c20-specs")
    os.makedirs(sdir, exist_ok=True)
    path = os.path.join(sdir, f"spec-{hashlib.sha1(txt.encode()).hexdigest()[:16]}.yaml")
    if not os.path.exists(path):
        tmp = f"{path}.{os.getpid()}"
        with open(tmp, "w") as f:
            f.write(txt)
        os.replace(tmp, path)
    spec = S.Knobs(metrics, extra).apply(Spec.from_yaml(path))
    return spec, [m.name for m in arch.memories]


def canonical(r, mems):
    from mc import afx

    rows = []
    for i in range(len(r.data)):
        row = r.data.iloc[i]
        ru = r[i].resource_usage()
        tree = afx.tree_str(afx.mapping_to_tree(row["Total<SEP>mapping"](_for_model=True)))
        vec = [_sig(row["Total<SEP>energy"]), _sig(row["Total<SEP>latency"])] + [_sig(ru.get(m, 0.0)) for m in mems]
        rows.append([vec, tree])
    rows.sort()
    return rows


def run_mapper(name, cache_dir=None, knobs=()):
    """One run of the real mapper in this process under whatever Parallel / n_jobs is
    installed.  An implementation exception is an observation."""
    from accelforge.mapper.FFM.main import map_workload_to_arch

    spec, mems = build(name, tuple(tuple(k) for k in knobs))
    tmp = tempfile.mkdtemp(prefix="run-")  # accelforge's _memmap_read leaves files behind
    old = tempfile.tempdir
    tempfile.tempdir = tmp
    try:
        r = map_workload_to_arch(spec, print_progress=False, cache_dir=cache_dir)
        return canonical(r, mems)
    except SC.ScheduleError:
        raise
    except Exception as e:  # noqa: BLE001
        return f"raise:{type(e).__name__}:{str(e)[:300]}"
    finally:
        tempfile.tempdir = old
        shutil.rmtree(tmp, ignore_errors=True)


def run_virtual(name, n_jobs, schedule):
    with SC.installed(schedule, n_jobs):
        out = run_mapper(name)
    return out


def menu_sites(schedule):
    return [(r.seq, r.n) for r in schedule.trace if not r.nested and r.has_menu and r.n >= 2]


def site_labels(schedule):
    return {r.seq: r.label for r in schedule.trace if not r.nested}


# ----------------------------- child interpreters -----------------------------

_CHILD_CODE = "from mc.checks import c20; c20.child_main()"


def child_main():
    """Entry point of the separate interpreters (hash seeds, cache history, real backend)."""
    args = json.loads(sys.argv[1])
    out = {}
    if args["kind"] == "serial":
        from mc import afx
        import accelforge.mapper.FFM.main as M

        afx.serial()
        made = []
        orig = M._make_pmappings

        @functools.wraps(orig)  # make_pmappings asserts on inspect.signature(_make_pmappings)
        def counting(**kw):
            made[-1] = True
            return orig(**kw)

        M._make_pmappings = counting  # observe cache hits (module global, no source change)
        res = []
        for run in args["runs"]:
            made.append(False)
            res.append(run_mapper(args["spec"], cache_dir=run.get("cache_dir"), knobs=run.get("knobs", ())))
        out = {"results": res, "made": made, "hashseed": os.environ.get("PYTHONHASHSEED")}
    elif args["kind"] == "real":
        out = {"items": []}
        try:
            for item in args["items"]:
                t = time.time()
                r = run_real_item(item)
                r["wall_s"] = round(time.time() - t, 2)
                out["items"].append([item, r])
        finally:
            SC.shutdown_real_backend()
    sys.stdout.write("\n@@C20@@" + json.dumps(out) + "\n")
    sys.stdout.flush()


def spawn_child(args, hashseed=0, tag="child"):
    d = tempfile.mkdtemp(prefix=f"{tag}-", dir=os.getcwd())
    env = dict(os.environ, PYTHONHASHSEED=str(hashseed), TQDM_DISABLE="1")
    env["TMPDIR"] = d
    env.setdefault("NUMBA_CACHE_DIR", NUMBA_CACHE)
    so, se = open(os.path.join(d, "stdout.txt"), "w"), open(os.path.join(d, "stderr.txt"), "w")
    try:
        proc = subprocess.Popen([sys.executable, "-c", _CHILD_CODE, json.dumps(args)], cwd=d, env=env,
                                stdout=so, stderr=se)
    finally:
        so.close()
        se.close()
    return proc, d


def collect_child(proc, d, timeout=3000):
    try:
        try:
            proc.wait(timeout=timeout)
        except subprocess.TimeoutExpired:
            proc.kill()
            proc.wait()
        so = open(os.path.join(d, "stdout.txt")).read()
        se = open(os.path.join(d, "stderr.txt")).read()
    finally:
        shutil.rmtree(d, ignore_errors=True)
    for line in reversed(so.splitlines()):
        if line.startswith("@@C20@@"):
            return json.loads(line[7:])
    raise RuntimeError(f"child failed (rc={proc.returncode}); stderr tail: {se[-2000:]}")


def run_child(args, hashseed=0, tag="child"):
    p, d = spawn_child(args, hashseed, tag)
    return collect_child(p, d)


# ----------------------------- real joblib / loky -----------------------------

_WARM: set = set()


def _prepare_real(n_jobs):
    if n_jobs not in _WARM:
        SC.warm_real_backend(n_jobs, modules=("accelforge.mapper.FFM.main", "mc.checks.c20"), timeout=240)
        _WARM.add(n_jobs)


def run_real_item(item):
    """item = {"spec", "kind": "free"|"forced", "n_jobs", ["seq", "order", "step"]} ->
    {"real": canon, ["virtual": canon, "achieved", "attempts", "step"], "out_of_order_sites"}"""
    name, n_jobs = item["spec"], item["n_jobs"]
    _prepare_real(n_jobs)
    if item["kind"] == "free":
        sch = SC.Schedule()
        with SC.real_backend(sch, n_jobs, step=0):
            real = run_mapper(name)
        orders = {str(r.seq): list(r.order) for r in sch.trace
                  if r.seq is not None and r.return_as == "generator_unordered" and r.n >= 2}
        ooo = sum(1 for o in orders.values() if o != sorted(o))
        return {"real": real, "sites": len(sch.trace), "out_of_order_sites": ooo, "site_orders": orders}
    sch = SC.Schedule({item["seq"]: ("order", tuple(item["order"]))})
    r = SC.conformance_run(lambda: run_mapper(name), sch, n_jobs=n_jobs, step=item.get("step", 0.2),
                           retries=2, force="listed")
    orders = {str(t["seq"]): t["order"] for t in r["real_trace"]
              if t["seq"] is not None and t["return_as"] == "generator_unordered" and t["n"] >= 2}
    return {"real": r["real"], "virtual": r["virtual"], "achieved": bool(r["achieved"]),
            "same_sites": r["same_sites"], "attempts": r["attempts"], "step": r["step"], "site_orders": orders}


REAL_FORCED_N_JOBS = SCHED_N_JOBS  # the call-site numbering was recorded for this worker count


def forced_orders(n, workers, how_many):
    """Completion orders of n jobs that `workers` FIFO workers can produce."""
    cands = [("reversal", SC.named_order("reversal", n)), ("rot+1", SC.named_order("rot+1", n)),
             ("swap-pairs", [i ^ 1 if (i ^ 1) < n else i for i in range(n)]),
             (f"block-reverse-{workers}", [b + j for b in range(0, n, workers)
                                           for j in reversed(range(min(workers, n - b)))]),
             ("interleave", SC.named_order("interleave", n))]
    out = []
    for nm, o in cands:
        if SC.min_workers_for(o) <= workers and o != sorted(o) and all(o != p for _, p in out):
            out.append((nm, o))
    return out[:how_many]


def real_items(names, quick):
    items = []
    for name in names:
        if not SPECS[name]["real"]:
            continue
        for nj in (2, 16):
            items.append({"spec": name, "kind": "free", "n_jobs": nj})
        sites = [s for s in _SITES[name] if s[1] <= 16] if quick else list(_SITES[name])
        if not sites:
            continue
        seq, n = max(sites, key=lambda s: (s[1], -s[0]))
        for nm, order in forced_orders(n, REAL_FORCED_N_JOBS, 2 if quick else 3):
            items.append({"spec": name, "kind": "forced", "n_jobs": REAL_FORCED_N_JOBS, "seq": seq, "site_n": n,
                          "site_label": _LABELS.get(name, {}).get(seq), "order_name": nm, "order": order,
                          "step": 0.2})
    items.sort(key=lambda it: it["n_jobs"])  # the loky executor only grows: 2, 4, 16
    return items


# ----------------------------- configurations -----------------------------

def site_choice_lists(n, policy, quick, named=SC.NAMED_ORDERS):
    """Non-default schedules (canonical choice tuples) explored for a site of n jobs."""
    full_upto, dev2_upto, dev1_upto = policy
    if n <= full_upto:
        lst = list(SC.iter_site_schedules(n, None))
    else:
        k = 0
        if n <= dev1_upto:
            k = 1
        if not quick and n <= dev2_upto:
            k = 2
        lst = SC.site_schedules(n, k, full_upto=-1, named=named)
    return [c for c in lst if c]


def configs_for(name, quick):
    d = SPECS[name]
    policy = d.get("quick_policy", d["policy"]) if quick else d["policy"]
    out = [("cache",)]
    out += [("cachehist", i) for i in range(QUICK_VARIANTS if quick else len(VARIANTS))]
    out += [("hashseed", s) for s in HASHSEEDS]
    if d["isolated"] and not quick:  # ~100 CPU-s per run (jobs in fresh forks run ~100x slower): thorough only
        out += [("isolated", "default"), ("isolated", "reversal")]
    out += [("njobs", n) for n in N_JOBS]
    out += [("joint", j) for j in JOINT]
    for seq, n in _SITES[name]:
        out += [("site", seq, n, ch) for ch in site_choice_lists(n, policy, quick, d.get("named", SC.NAMED_ORDERS))]
    return out


def tree_for(names, quick):
    menus = {name: configs_for(name, quick) for name in names}

    def tree(p):
        if len(p) == 0:
            return list(names)
        if len(p) == 1:
            return menus[p[0]]
        return None

    return tree, menus


def diff_kind(got, base, name=None):
    """exception | objectives (the sets of OPTIMISED objective vectors differ: energy and
    latency, plus the memory usages when RESOURCE_USAGE is among the spec's metrics) |
    tie-structure (same optimised objectives, another LoopTree -- possibly with another,
    non-optimised, memory usage -- for some of them)."""
    if isinstance(got, str) or isinstance(base, str):
        return "exception"
    k = None if name is None or "R" in SPECS[name]["metrics"] else 2
    return "tie-structure" if sorted(r[0][:k] for r in got) == sorted(r[0][:k] for r in base) else "objectives"


def diff_note(got, base):
    if isinstance(got, str) or isinstance(base, str):
        return f"exception vs result: {got if isinstance(got, str) else base}"[:300]
    g, b = [json.dumps(x) for x in got], [json.dumps(x) for x in base]
    extra = [x for x in g if x not in b][:2]
    missing = [x for x in b if x not in g][:2]
    return f"{len(got)} rows vs {len(base)} baseline rows; only in this run: {extra}; only in baseline: {missing}"


def attribute(name, n_jobs, orders, observed):
    """Which single call site, perturbed alone with its order from `orders` ({seq: order}),
    reproduces `observed`?  -> (label, seq, order) or None.  Only run for violations."""
    for seq, order in sorted(orders.items()):
        order = list(order)
        if order == sorted(order):
            continue
        sch = SC.Schedule({seq: ("order", tuple(order))})
        try:
            out = run_virtual(name, n_jobs, sch)
        except SC.ScheduleError:
            continue
        if out == observed:
            rec = [r for r in sch.trace if r.seq == seq]
            return (rec[0].label if rec else None), seq, order
    return None


def evaluate(name, cfg):
    """Run one configuration -> (observed canonical results, nontrivial, info, schedule)."""
    k = cfg[0]
    info = {}
    if k == "njobs":
        sch = SC.Schedule()
        obs = [run_virtual(name, cfg[1], sch)]
        info["sites"] = len(sch.trace)
        return obs, cfg[1] > 1, info, sch
    if k in ("site", "joint", "isolated"):
        if k == "site":
            sch = SC.Schedule({cfg[1]: tuple(cfg[3])})
        elif k == "joint":
            sch = SC.Schedule(default=cfg[1])
        else:
            sch = SC.Schedule(default=None if cfg[1] == "default" else cfg[1], mode="isolated")
        obs = [run_virtual(name, SCHED_N_JOBS, sch)]
        info["deviations_taken"] = sch.deviations()
        if k == "site":
            rec = [r for r in sch.trace if r.seq == cfg[1]]
            info["site_label"] = rec[0].label if rec else None
            info["site_n_seen"] = rec[0].n if rec else None
            info["delivery_order"] = rec[0].order if rec else None
        return obs, (k == "isolated") or sch.deviations() > 0, info, sch
    if k == "hashseed":
        r = run_child({"kind": "serial", "spec": name, "runs": [{}]}, hashseed=cfg[1], tag="hs")
        info["child_hashseed"] = r["hashseed"]
        return r["results"], cfg[1] != 0, info, None
    if k == "cache":
        cdir = tempfile.mkdtemp(prefix="cache-", dir=os.getcwd())
        try:
            a = run_child({"kind": "serial", "spec": name, "runs": [{"cache_dir": cdir}] * 3}, tag="cache")
            b = run_child({"kind": "serial", "spec": name, "runs": [{"cache_dir": cdir}]}, tag="cache")
        finally:
            shutil.rmtree(cdir, ignore_errors=True)
        info["make_pmappings_ran"] = a["made"] + b["made"]  # expected [True, False, False, False]
        return a["results"] + b["results"], not all(info["make_pmappings_ran"][1:]), info, None
    if k == "cachehist":
        # history: [other setting, cold] -> [this spec, same cache_dir] -> [other setting, warm]; every run must
        # return what the same call returns without a cache (the variant's own cache-less run is its reference)
        kn = [list(VARIANTS[cfg[1]])]
        cdir = tempfile.mkdtemp(prefix="cache-", dir=os.getcwd())
        try:
            a = run_child({"kind": "serial", "spec": name,
                           "runs": [{"knobs": kn}, {"knobs": kn, "cache_dir": cdir}, {"cache_dir": cdir},
                                    {"knobs": kn, "cache_dir": cdir}]}, tag="cachehist")
        finally:
            shutil.rmtree(cdir, ignore_errors=True)
        ref, cold, mine, warm = a["results"]
        base = _BASE[name]
        info.update(setting=kn[0], make_pmappings_ran=a["made"],  # expected [True, True, True, False]
                    setting_changes_result=ref != base)
        obs = [mine] + [base if r == ref else r for r in (cold, warm)]
        info["runs_differing"] = [n for n, o in zip(("this-spec-after-other-setting", "other-setting-cold",
                                                     "other-setting-warm"), obs) if o != base]
        return obs, (not a["made"][3]) and ref != base, info, None
    raise ValueError(cfg)


def family_of(name, cfg, info, sch, observed, base):
    """Names the varied dimension; schedule violations are named after the CALL SITE (the job
    function of the perturbed Parallel call) and the kind of difference, not after the spec,
    so that the same defect seen on several specs / through a joint order is one family."""
    k, kind = cfg[0], diff_kind(observed, base, name)
    if k == "site":
        return f"schedule/{info.get('site_label')}/{kind}", None
    if k in ("joint", "isolated"):
        orders = {r.seq: r.order for r in sch.trace if not r.nested and r.has_menu}
        hit = attribute(name, SCHED_N_JOBS, orders, observed)
        if hit is not None:
            return f"schedule/{hit[0]}/{kind}", {"attributed_to_site": hit[1], "site_order": hit[2]}
        if k == "joint":
            return f"schedule/joint-{cfg[1]}/{kind}", None
        return f"mode-isolated/{kind}", None
    return {"njobs": "n_jobs", "hashseed": "hashseed", "cache": "cache", "cachehist": "cache-history"}[k] + f"/{kind}", None


def body(cfg):
    name, c = cfg
    base = _BASE[name]
    sample = {"spec": name, "config": _j(c)}
    try:
        obs, nontrivial, info, sch = evaluate(name, c)
    except SC.ScheduleError as e:
        # the recorded site no longer has the recorded shape under this schedule: nothing to compare
        sample["schedule_error"] = str(e)[:200]
        return Result(outcome=("site-shape-changed", name), nontrivial=False, validated=False, sample=sample,
                      outcome_class=f"{name}|{c[0]}|site-shape-changed")
    sample.update(info)
    bad = [o for o in obs if o != base]
    viol = None
    if bad:
        fam, extra = family_of(name, c, info, sch, bad[0], base)
        if extra:
            sample.update(extra)
        viol = {"observed": bad[0], "expected": base, "family": fam,
                "note": f"{name}: canonical front differs from the serial baseline ({diff_note(bad[0], base)})"
                        + (f"; run {obs.index(bad[0])} of cold/warm/warm/warm-2nd-process" if c[0] == "cache" else ""),
                "config": sample}
    return Result(outcome=(name, json.dumps(obs[-1])), nontrivial=nontrivial, validated=False, violation=viol,
                  sample=sample, evaluations=len(obs), outcome_class=f"{name}|{c[0]}|{'differs' if bad else 'same'}")


def real_body(cfg):
    item = cfg[1]
    name = item["spec"]
    base = _BASE[name]
    key = json.dumps(item, sort_keys=True)
    r = _REAL.get(key)
    if r is None:  # replay / fallback: run here
        r = run_real_item(item)
    sample = {"spec": name, "config": ["real", item],
              **{k: v for k, v in r.items() if k not in ("real", "virtual", "site_orders")}}
    viol = None
    forced = item["kind"] == "forced"
    ok = (not forced) or (r["achieved"] and r["same_sites"])
    if r["real"] != base:
        kind = diff_kind(r["real"], base, name)
        orders = {int(s): o for s, o in (r.get("site_orders") or {}).items()}
        hit = attribute(name, item["n_jobs"], orders, r["real"]) if orders else None
        if hit is not None:  # the virtual scheduler reproduces it from the recorded completion order of one site
            fam = f"schedule/{hit[0]}/{kind}"
            sample.update({"attributed_to_site": hit[1], "site_order": hit[2]})
        else:
            fam = "real-loky/" + ("free" if not forced else "forced") + f"/{kind}"
        viol = {"observed": r["real"], "expected": base, "family": fam, "config": sample,
                "note": f"{name}: real joblib/loky run differs from the serial baseline ({diff_note(r['real'], base)})"}
    elif forced and r["virtual"] != base:
        viol = {"observed": r["virtual"], "expected": base,
                "family": f"schedule/{item.get('site_label')}/{diff_kind(r['virtual'], base, name)}",
                "config": sample, "note": f"{name}: virtual run of a conformance schedule differs from the baseline"}
    return Result(outcome=(name, json.dumps(r["real"])), nontrivial=ok, validated=ok, violation=viol, sample=sample,
                  evaluations=2 if forced else 1,
                  outcome_class=f"{name}|real-{item['kind']}|" + ("ok" if ok else "order-not-achieved")
                                + (f"|attempts={r['attempts']}" if forced else ""))


def _j(c):
    return json.loads(json.dumps(c))


# ----------------------------- run -----------------------------

def _prep(item):
    name, what = item
    if what == "base":
        from mc import afx

        afx.serial()
        return run_mapper(name)
    sch = SC.Schedule()
    out = run_virtual(name, SCHED_N_JOBS, sch)
    return out, menu_sites(sch), [(r.seq, r.n, r.return_as, r.nested, r.label) for r in sch.trace]


def _worker_init():
    d = tempfile.mkdtemp(prefix="w-", dir=os.getcwd())
    os.chdir(d)  # mapping.svg of this worker's runs


def run(ctx):
    saved = (tempfile.tempdir, os.environ.get("TMPDIR"))
    try:
        _run(ctx)
    finally:  # the scratch directory (and with it our TMPDIR) disappears after run()
        tempfile.tempdir = saved[0]
        if saved[1] is None:
            os.environ.pop("TMPDIR", None)
        else:
            os.environ["TMPDIR"] = saved[1]


def _run(ctx):
    q = ctx.quick
    tier = "quick" if q else "thorough"
    names = [n for n, d in SPECS.items() if tier in d["tiers"]]
    only = [x for x in os.environ.get("VERIF_C20_SPECS", "").split(",") if x]
    if only:  # mutation self-tests only: restrict the family (recorded in the evidence)
        names = [n for n in names if n in only]
        ctx.note(f"VERIF_C20_SPECS restricts this run to {names}")
    no_real = bool(os.environ.get("VERIF_C20_NO_REAL"))
    tmp = os.path.join(ctx.scratch, "tmp")
    os.makedirs(tmp, exist_ok=True)
    tempfile.tempdir = tmp  # NOT os.environ["TMPDIR"]: pydot's vendored tempfile caches it for good
    os.environ.setdefault("NUMBA_CACHE_DIR", NUMBA_CACHE)
    os.environ["VERIF_C20_SPECDIR"] = os.path.join(ctx.scratch, "specs")  # inherited by the child interpreters
    import accelforge.mapper.FFM.main  # noqa: F401  (import once, before forking)

    # baselines (serial, hash seed of this process = 0, no cache) and the call-site traces
    assert os.environ.get("PYTHONHASHSEED") == "0", "the baseline must run under PYTHONHASHSEED=0 (./check sets it)"
    prep = [(n, w) for n in names for w in ("base", "trace")]
    for (n, w), r in zip(prep, pmap(_prep, prep, init=_worker_init)):
        if w == "base":
            _BASE[n] = r
        else:
            _SITES[n] = r[1]
            _LABELS[n] = {t[0]: t[4] for t in r[2] if t[0] is not None}
            ctx.extra_cov.setdefault("call_sites", {})[n] = {"jobs_per_menu_site": [s[1] for s in r[1]],
                                                             "labels": [t[4] for t in r[2] if t[0] is not None],
                                                             "all_sites": len(r[2]),
                                                             "nested_sites": sum(1 for s in r[2] if s[3])}
    for n in names:
        if isinstance(_BASE[n], str) or not _BASE[n]:
            raise RuntimeError(f"baseline of {n} is unusable: {_BASE[n]!r}")
    ctx.extra_cov["baseline_rows"] = {n: len(_BASE[n]) for n in names}

    # real joblib/loky runs: in a separate interpreter, concurrently with the virtual exploration
    ritems = [] if no_real else real_items(names, q)
    if no_real:
        ctx.note("VERIF_C20_NO_REAL set: real-backend runs skipped (mutation self-tests only)")
    child = spawn_child({"kind": "real", "items": ritems}, tag="real") if ritems else None

    tree, menus = tree_for(names, q)
    try:
        ctx.explore("virtual-scheduler+hashseed+cache", tree, body, shard_depth=2, distinct_by_construction=True,
                    init=_worker_init)
    finally:
        if child is not None:
            try:
                res = collect_child(*child)
                for item, r in res["items"]:
                    _REAL[json.dumps(item, sort_keys=True)] = r
            except Exception as e:  # noqa: BLE001
                ctx.note(f"real-backend child failed, items re-run in process: {str(e)[-400:]}")
    n_virtual = ctx.total.configs
    if ritems:
        try:
            st = ctx.explore("real-joblib-loky", lambda p: ([("real", it) for it in ritems] if not p else None),
                             lambda cfg: real_body(("real", cfg[0][1])), shard_depth=1, workers=1, seed=0,
                             distinct_by_construction=True)
        finally:
            SC.shutdown_real_backend()
        ctx.extra_cov["real_backend_runs"] = {"battery": len(ritems), "validated": st.validated,
                                              "wall_s_in_child": [r.get("wall_s") for r in _REAL.values()]}
        ctx.note(f"{st.validated} of {len(ritems)} runs on the real joblib/loky backend (free-running n_jobs 2/16 and "
                 f"forced completion orders at the biggest call site) equal the baseline; only these are counted in "
                 f"traces_validated_against_impl")
    ctx.extra_cov["virtual_configs_compared"] = n_virtual
    ctx.extra_cov["configs_per_spec"] = {n: len(m) for n, m in menus.items()}
    ctx.bound(specs={n: {"workload": list(SPECS[n]["wl"]), "H2": SPECS[n]["h2"], "metrics": SPECS[n]["metrics"],
                         "jobs_per_menu_site": [s[1] for s in _SITES[n]],
                         "policy_full/dev2/dev1_upto": list(SPECS[n].get("quick_policy", SPECS[n]["policy"]) if q
                                                            else SPECS[n]["policy"])} for n in names},
              n_jobs=list(N_JOBS), schedule_n_jobs=SCHED_N_JOBS, hashseeds=list(HASHSEEDS), joint_orders=list(JOINT),
              max_deviations="1 (named orders only beyond dev1_upto)" if q else "2 up to dev2_upto jobs, else 1",
              cache="cold,warm,warm + warm in a 2nd interpreter",
              cache_history_settings=[list(v) for v in (VARIANTS[:QUICK_VARIANTS] if q else VARIANTS)])


# ----------------------------- replay -----------------------------

def replay(ctx, rec):
    c = rec["config"]
    name = c["spec"]
    if name not in _BASE:
        from mc import afx

        afx.serial()
        _BASE[name] = run_mapper(name)
        SC.parallel_module().set_n_parallel_jobs(os.cpu_count())
    cfg = c["config"]
    if cfg[0] == "real":
        try:
            r = real_body(("real", cfg[1]))
        finally:
            SC.shutdown_real_backend()
            _WARM.clear()
    else:
        cfg = tuple(tuple(x) if isinstance(x, list) else x for x in cfg)
        r = body((name, cfg))
    v = r.violation
    out = {"observed": v and v["observed"], "expected": _BASE[name], "violation": bool(v)}
    if os.environ.get("C20_DEBUG"):
        with open(os.environ["C20_DEBUG"], "a") as fh:
            fh.write(json.dumps({"cfg": _j(cfg), "out": out, "sample": r.sample}, default=repr) + "\n")
    return out
