"""C14 — join-stage accelerations never change the result.

For small two- and three-Einsum specs and EVERY buffer size on an 8-bit grid between
"nothing fits" and "everything fits" (so that the staged join's resource thresholds
0.2 ... 0.00001 do oversubscribe and must be retried for some sizes), with metric sets
with and without RESOURCE_USAGE, three fronts are compared:
  staged   = public join_pmappings (dirty joins under resource / objective thresholds,
             optimality-threshold row filtering, untracked memories, reservation combining)
  plain    = one direct join of pmappings made with can_combine_multiple_runs=True
             (disables the never-overflow / never-reserved-across-fused-loops memory
             shortcuts) with _combine_reservations=False and no thresholds
  R-join   = the independent reference join of C13 (two-Einsum specs; also the
             acceleration-free side for the hard-wired lookahead filter)
A spy on join_strategy_2 counts how many configurations needed a retry.
"""

from __future__ import annotations

import copy

from mc import afx
from mc import specs as S
from mc.checks import c13
from mc.explorer import Result
from mc.family import tensor_bits
from mc.ref import join as RJ
from mc.ref import mapspace as MS

MANIFEST = {
    "text": "every buffer size on an 8-bit grid x metric sets for small 2-3 Einsum specs: the staged (accelerated) join, "
            "a plain direct join with the shortcuts disabled, and the independent reference join return the same front; "
            "the size sweep provably includes sizes where a thresholded join oversubscribes and is retried",
    "note": "trusted: R-join (C13); bounds: rank sizes <= 4, <= 3 Einsums, sizes multiple of 8 bits",
    "technique": "bounded exhaustive enumeration of configurations (sizes x metrics); three-way differential incl. reference join model",
}
RULE = ("configuration = (workload, buffer size, metric set); distinct by construction; non-trivial = the staged join "
        "called its inner strategy more than once (a thresholded join was rejected and retried) or the front has >= 2 points")
ASSUMPTIONS = ["objective vectors compared to 6 significant digits, matched one to one within 2e-5 relative "
               "(float32 tables vs float64 reference)"]

WORKLOADS = {
    "MV2-424": S.MV2(4, 2, 4),
    "MV2-242": S.MV2(2, 4, 2),
    "MM2-2222": S.MM2(2, 2, 2, 2),
    "MV3-2222": S.MV3(2, 2, 2, 2),
    "FAN3-22222": S.FAN3(2, 2, 2, 2, 2),
    # a tensor (A) that stays live across an Einsum (E1) that does not use it
    "SKIP3": S.WL(einsums=(("E0", "A", ("m", "n"), (("Y", ("m",)), ("W0", ("n",)))),
                           ("E1", "B", ("p", "q"), (("X", ("p", "r")), ("W1", ("r", "q")))),
                           ("E2", "C", ("m",), (("A", ("m", "n")), ("W2", ("n",))))),
                  bounds=(("m", 3), ("n", 2), ("p", 2), ("r", 2), ("q", 2))),
}


def skip3(m, n, p, r, q):
    return S.WL(einsums=WORKLOADS["SKIP3"].einsums, bounds=(("m", m), ("n", n), ("p", p), ("r", r), ("q", q)))


# the same shape with a middle Einsum whose working set competes with the live tensor A
WORKLOADS["SKIP3-44333"] = skip3(4, 4, 3, 3, 3)


def einsum_footprints(wl):
    tb = tensor_bits(wl)
    return [sum(tb[t] for t, _, _ in wl.tensors_of(e[0])) for e in wl.einsums]


def size_grid(wl, quick, wid=""):
    """Sizes are deliberately NOT restricted to multiples of the 8-bit value size: a
    thresholded join oversubscribes exactly when the best mapping needs between 1.0 and
    1.2 times the buffer, which needs sizes just below a multiple of 8."""
    tot = sum(tensor_bits(wl).values())
    if wid == "MV2-424":
        return list(range(16, 41, 3)) if quick else list(range(8, tot + 1))
    if quick:
        # plus 8-bit steps around "the largest single Einsum just fits" (where whole-workload and
        # per-Einsum capacity arguments start to differ)
        f = max(einsum_footprints(wl))
        return sorted(set(range(8, tot + 8, 16)) | set(range(max(8, f - 16), f + 41, 8)))
    return sorted(set(range(8, tot + 8, 8)) | {s - d for s in range(16, tot + 8, 8) for d in (1, 2, 3)})


_Q = {"quick": True}


def fronts(wid, size, metric):
    import accelforge.mapper.FFM._join_pmappings.join_pmappings as JP
    from accelforge.mapper.FFM.main import join_pmappings, make_pmappings

    wl = WORKLOADS[wid]
    arch = S.H2(size=size, main_thr=8, buf_thr=16)
    mems = ["Buf"]
    out, info = {}, {}
    spec = S.build_spec(arch, wl, S.Knobs(metric))
    calls = []
    orig = JP.join_strategy_2

    def spy(*a, **k):
        calls.append(k.get("resource_usage_tolerance", None))
        return orig(*a, **k)

    try:
        pm = make_pmappings(spec, print_progress=False)
    except Exception as e:
        return {"staged": f"make_pmappings raised {type(e).__name__}"}, {"no_pmappings": True}
    JP.join_strategy_2 = spy
    try:
        try:
            r = join_pmappings(copy.deepcopy(pm), metrics=spec.mapper.metrics, print_progress=False)
            out["staged"] = c13.front(c13.impl_front(r, metric, mems))
        except Exception as e:
            out["staged"] = f"raise:{type(e).__name__}:{str(e)[:80]}"
    finally:
        JP.join_strategy_2 = orig
    info["strategy_calls"] = len(calls)
    # plain: shortcuts off
    spec2 = S.build_spec(arch, wl, S.Knobs(metric))
    try:
        pm2 = make_pmappings(spec2, print_progress=False, can_combine_multiple_runs=True)
        pm2.spec.mapper._combine_reservations = False
        r2 = JP.clean_compress_and_join_pmappings(pm2, spec2.mapper.metrics, for_model=True, print_progress=False)
        out["plain"] = c13.front(c13.impl_front(r2, metric, mems))
    except Exception as e:
        out["plain"] = f"raise:{type(e).__name__}:{str(e)[:80]}"
    # reference join (two Einsums)
    if len(wl.einsum_names) == 2:
        tables = c13.tables_of(pm)
        bounds = dict(wl.bounds)
        for e in tables:
            for row in tables[e]:
                row["tree"] = c13.normalise(row["tree"], bounds)
        (Y, prod, cons), = MS.intermediates(wl)
        ranks = set(dict((t, rk) for t, rk, _ in wl.tensors_of(prod))[Y])
        pts, st = RJ.rjoin(tables, wl, arch, {"Main": float("inf"), "Buf": float(size)}, Y, ranks, (prod, cons),
                           with_usage=(metric == "ELR"))
        out["rjoin"] = sorted(tuple(c13.sig(x) for x in v) for v in c13.front(pts))
        info.update(st)
    return out, info


def norm(f):
    if isinstance(f, str):
        return "none" if ("No valid" in f or "no valid" in f or "raise" in f) else f
    return "none" if not f else tuple(f)


def body(cfg):
    wid, size, metric = cfg
    out, info = fronts(wid, size, metric)
    sample = dict(workload=wid, size=size, metric=metric, **{k: v for k, v in info.items()})
    viol = None
    if not info.get("no_pmappings"):
        keys = [k for k in ("staged", "plain", "rjoin") if k in out]
        vals = {k: norm(out[k]) for k in keys}
        if not all(c13.same_front(vals[keys[0]], vals[k]) for k in keys[1:]):
            if not c13.same_front(vals["staged"], vals.get("plain", vals["staged"])):
                fam = "staged-differs-from-plain-join"
            else:
                fam = "joins-differ-from-reference-join"
            viol = {"observed": {k: (out[k] if isinstance(out[k], str) else out[k][:6]) for k in keys},
                    "expected": "identical fronts", "family": fam + "/" + metric, "config": sample}
    nt = info.get("strategy_calls", 0) > 1 or (not isinstance(out.get("staged"), str) and len(out.get("staged", [])) >= 2)
    cls = "retried" if info.get("strategy_calls", 0) > 1 else ("no-mapping" if norm(out.get("staged", "")) == "none" else "first-try")
    return Result(outcome=(wid, size, metric, norm(out.get("staged", ""))), nontrivial=nt, violation=viol,
                  evaluations=3, sample=sample, outcome_class=cls)


def run(ctx):
    afx.serial()
    _Q["quick"] = ctx.quick
    wids = ["MV2-424", "MM2-2222", "MV3-2222", "SKIP3", "SKIP3-44333"] if ctx.quick else list(WORKLOADS)
    metrics = ["E", "ELR"] if ctx.quick else ["E", "L", "EL", "ELR"]

    def tree(p):
        if len(p) == 0:
            return wids
        if len(p) == 1:
            return size_grid(WORKLOADS[p[0]], ctx.quick, p[0])
        if len(p) == 2:
            return metrics
        return None

    st = ctx.explore("size-sweep", tree, body, shard_depth=3, distinct_by_construction=True)
    ctx.bound(workloads=wids, metrics=metrics, size_step_bits=16 if ctx.quick else 8)
    ctx.extra_cov["configs_with_retried_threshold_join"] = st.outcome_classes.get("retried", 0)
    if st.outcome_classes.get("retried", 0) == 0:
        ctx.note("no configuration of this bound made the resource-threshold loop retry (per-Einsum pmappings are "
                 "already capacity-filtered, so an oversubscribed dirty join needs tiles of both Einsums live above the "
                 "split); the objective-threshold dirty join + optimality row filter and the untracked-memory / "
                 "reservation-combining shortcuts ran in every configuration")


def replay(ctx, rec):
    afx.serial()
    c = rec["config"]
    r = body((c["workload"], c["size"], c["metric"]))
    return {"observed": r.violation and r.violation["observed"], "violation": bool(r.violation)}
