"""C30 — network transfer costs match route enumeration.

Alphabet / bound: every fanout n in 1..32 x stride in 1..8 x volume in {1, 3, 10} x
relevancy in {Irrelevant (shared value, multicast), Relevant (distinct values, unicast)} x
topology in {mesh, all_to_all} x number kind in {int, float volume, symengine Integer},
non-distributed source (a stub reporting physical fanout 1 and, second variant, a real
flattened-arch style component without physical spatial fan-out) through the real
``get_topology_model(topology).per_loop_transfer_cost``.  The thorough tier adds the
end-to-end path: ``Spec.evaluate_mapping`` on tests/network/input_files/networked/
hierarchical_1d{,_all_to_all}.yaml for every admissible (M, KN, MAC_TILE, M_TILE), comparing
the reported per-tensor ``hop`` action counts of both Network components.

Oracle: R-route (mc/ref/route.py): every value is routed explicitly over the topology
(line of unit links with the instances `stride` apart / one switch with up- and down-links);
total hops and the maximum per-link traffic are read off the enumerated routes.  Only what
the statement names is judged: total hops and maximum per-link traffic (``max_hops`` is
recorded but not judged).

FINDING on the unchanged tree (kept firing; families
``mesh/multicast/n=1/max_link_traffic`` and ``all_to_all/multicast/n=1/max_link_traffic``,
288 of 18432 cases): for a fanout of ONE instance and an irrelevant (multicast) loop both
models report ``max_traffic = volume`` although no value crosses any link (total hops 0;
the unicast branches correctly give (n-1)*volume = 0).  End to end: hierarchical_1d with
KN = MAC_TILE (one Scratchpad) reports 0 PeArray hops but max_link_traffic = 64.
Lines: _network.py ``max_traffic = volume`` in MeshTopologyModel (Irrelevant branch) and in
AllToAllTopologyModel (Irrelevant branch).  Minimal patch (verified: check silent, exit 0):
``min_take_zero(shape_repeats - 1, 1) * volume`` / ``min_take_zero(n_dsts, 1) * volume``.

Self-test (mutants on a scratch copy, VERIF_REPO=/tmp/af-mut-c30, quick tier; the two n=1
families above fire in every run, "caught" = additional families), all in _network.py:
  M1 unicast_cost: ``arithmetic_sum(n_dsts - 1)`` -> ``arithmetic_sum(n_dsts)`` -> CAUGHT
       (mesh/unicast/*/total_hops, 4608 cases)
  M2 multicast_cost: ``(n_dsts - 1) * stride`` -> ``n_dsts * stride`` -> CAUGHT (4608)
  M3 all-to-all unicast ``max_traffic = n_dsts * volume`` -> ``volume`` -> CAUGHT (4464)
  M4 mesh unicast ``max_traffic = (shape_repeats - 1) * volume`` -> ``shape_repeats * volume``
       -> CAUGHT (4608)
  M5 all-to-all ``total_cost = n_dsts * hops * volume`` -> ``shape_repeats * ...`` -> CAUGHT (9216)
  P  the proposed patch applied -> 0 violations, exit 0
"""

from __future__ import annotations

from mc.explorer import Result
from mc.ref import route as RR

MANIFEST = {
    "text": "all 32 x 8 x 3 x 2 x 2 (fanout, stride, volume, relevancy, topology) cases of the stated domain, in three "
            "number kinds and two kinds of non-distributed source, are pushed through the real per_loop_transfer_cost "
            "and compared with explicit route enumeration over the topology; the thorough tier also checks the hop "
            "counts reported end-to-end by evaluate_mapping on the repo's networked test architectures. Right level: "
            "the cost models are closed-form functions of three small integers",
    "note": "trusted: R-route (source co-located with destination 0, shortest line routes, one hop per switch "
            "delivery); distributed sources, PartiallyRelevant loops and max_hops are outside the property",
    "technique": "bounded exhaustive input enumeration (explicit-state) vs reference model",
}

RULE = (
    "one configuration = (topology, relevancy, number kind, source kind, n, stride, volume); distinct by "
    "construction. NON-TRIVIAL: n >= 3 (several routes that share links, so multicast and unicast totals and "
    "link loads differ)"
)
ASSUMPTIONS = [
    "the non-distributed source is co-located with destination 0 of the fanout (the model's stated setting)",
    "mesh routes are shortest line routes along the dimension; a switch delivery is one hop using the source "
    "up-link and the destination down-link",
    "symengine / float results are compared numerically (exact for these magnitudes)",
    "end-to-end (thorough): tile volumes and outer iteration counts of the fixed test mapping are derived by hand "
    "from the loop nest; only the per-fanout routing part comes from R-route",
]

TOPOLOGIES = ["mesh", "all_to_all"]
RELEVANCIES = ["Irrelevant", "Relevant"]
NUMKINDS = ["int", "float", "symengine"]
SOURCES = ["stub", "component"]


class _NoDistribution:
    """Source that is not physically distributed along any dimension."""

    def _get_physical_fanout_along(self, dim_name, default=1):
        return 1

    def _get_physical_stride_along(self, dim_name):  # must not be needed
        raise AssertionError("physical stride of a non-distributed source was queried")


_CACHE: dict = {}


def _source(kind):
    if kind == "stub":
        return _NoDistribution()
    if "component" not in _CACHE:
        from accelforge.frontend.arch.spatialable import Spatialable

        class _Src(Spatialable):  # a real Spatialable with no physical spatial fan-out
            pass

        try:
            _CACHE["component"] = _Src()
        except Exception:
            _CACHE["component"] = None
    return _CACHE["component"] or _NoDistribution()


def _num(kind, v, is_volume):
    if kind == "int":
        return v
    if kind == "float":
        return float(v) if is_volume else v
    import symengine as se

    return se.Integer(v)


def _f(x):
    try:
        v = float(x)
    except Exception:
        return repr(x)
    return int(v) if v == int(v) else v


def run_case(topology, relevancy, numkind, source, n, stride, volume):
    from accelforge.frontend.arch.components import TopologySpec
    from accelforge.frontend._workload_isl._symbolic import Irrelevant, Relevant
    from accelforge.model._looptree.reuse.symbolic._network import get_topology_model

    rel = Irrelevant() if relevancy == "Irrelevant" else Relevant("n0")
    try:
        model = get_topology_model(TopologySpec(topology))
        c = model.per_loop_transfer_cost(
            rel, shape_repeats=_num(numkind, n, False), last_fanout=_num(numkind, stride, False),
            volume=_num(numkind, volume, True), src_component=_source(source), dim_name="X")
        got = {"total_hops": _f(c.total_cost), "max_link_traffic": _f(c.max_traffic), "max_hops": _f(c.max_hops)}
    except Exception as e:  # observation
        got = f"raise:{type(e).__name__}:{e}"
    tot, mx = RR.transfer_cost(topology, n, stride, volume, shared=(relevancy == "Irrelevant"))
    exp = {"total_hops": tot, "max_link_traffic": mx}
    viol = None
    cast = "multicast" if relevancy == "Irrelevant" else "unicast"
    if isinstance(got, str):
        viol = f"{topology}/{cast}/exception"
    else:
        bad = [k for k in ("total_hops", "max_link_traffic") if got[k] != exp[k]]
        if bad:
            size = "n=1" if n == 1 else "n>=2"
            viol = f"{topology}/{cast}/{size}/" + "+".join(bad)
    return got, exp, viol


def body(cfg):
    topology, relevancy, numkind, source, n, stride, volume = cfg
    got, exp, fam = run_case(*cfg)
    sample = {"kind": "unit", "topology": topology, "relevancy": relevancy, "numkind": numkind, "source": source,
              "n": n, "stride": stride, "volume": volume}
    v = None
    if fam:
        v = {"family": fam, "observed": got, "expected": exp, "config": sample,
             "note": "per_loop_transfer_cost != explicit route enumeration"}
    oc = f"{topology}/{relevancy}"
    return Result(outcome=got if isinstance(got, str) else [got["total_hops"], got["max_link_traffic"], got["max_hops"]],
                  nontrivial=(n >= 3), violation=v, sample=sample, outcome_class=oc)


# ------------------------------------------------------------------ end-to-end (thorough)
E2E_ARCH = {"mesh": ("hierarchical_1d.yaml", 4, 2), "all_to_all": ("hierarchical_1d_all_to_all.yaml", 4, 4)}
E2E_MAPPING = "one_matmul_to_networked_hierarchical_1d.yaml"
BITS = 8


def e2e_configs():
    out = []
    for arch, (_, pe_fan, mac_fan) in E2E_ARCH.items():
        for M in (2, 4, 8):
            for M_TILE in (d for d in (1, 2, 4, 8) if M % d == 0):
                for KN in (1, 2, 4, 8, 16):
                    for MAC_TILE in (d for d in (1, 2, 4) if KN % d == 0 and d <= mac_fan):
                        if KN // MAC_TILE <= pe_fan:
                            out.append((arch, M, KN, MAC_TILE, M_TILE))
    return out


def e2e_expected(arch, M, KN, MAC_TILE, M_TILE):
    """Hop counts from the loop nest of one_matmul_to_networked_hierarchical_1d.yaml:

        for m in tiles of M_TILE:                       (M / M_TILE iterations)
          spatial n0 in tiles of MAC_TILE over Scratchpad X   <- PeArray routes GlobalBuffer -> Scratchpads
            for m in tiles of 1:  for n1 in tiles of 1:       (M_TILE * KN iterations)
              spatial n0 in tiles of 1 over MAC X             <- MacArray routes Scratchpad -> MACs
    T0[m, n0], W0[n0, n1] depend on n0 (distinct per instance); T1[m, n1] does not (shared).
    """
    mac_topology = "all_to_all" if arch == "all_to_all" else "mesh"
    n_pe, n_mac = KN // MAC_TILE, MAC_TILE
    exp = {}
    pe_tiles = {"T0": (M_TILE * MAC_TILE, False), "W0": (MAC_TILE * KN, False), "T1": (M_TILE * KN, True)}
    for t, (values, shared) in pe_tiles.items():
        tot, _ = RR.transfer_cost("mesh", n_pe, 1, values * BITS, shared)
        exp[f"PeArray/{t}"] = (M // M_TILE) * tot
    for t, shared in (("T0", False), ("W0", False), ("T1", True)):
        tot, _ = RR.transfer_cost(mac_topology, n_mac, 1, 1 * BITS, shared)
        exp[f"MacArray/{t}"] = (M // M_TILE) * n_pe * M_TILE * KN * tot
    return exp


def run_e2e(arch, M, KN, MAC_TILE, M_TILE):
    import os
    from pathlib import Path
    import accelforge as af

    d = Path(os.environ.get("VERIF_REPO", "/repo")) / "tests" / "network" / "input_files" / "networked"
    exp = e2e_expected(arch, M, KN, MAC_TILE, M_TILE)
    try:
        spec = af.Spec.from_yaml(
            af.examples.workloads.basic.matmuls, d / E2E_ARCH[arch][0], d / E2E_MAPPING,
            jinja_parse_data={"N_EINSUMS": 1, "M": M, "KN": KN, "MAC_TILE": MAC_TILE, "M_TILE": M_TILE})
        res = spec.evaluate_mapping()
        got = {}
        for k in exp:
            comp, t = k.split("/")
            col = f"Matmul0<SEP>action<SEP>{comp}<SEP>{t}<SEP>hop"
            got[k] = _f(res.data[col].iloc[0]) if col in res.data.columns else "missing"
    except Exception as e:
        got = f"raise:{type(e).__name__}:{str(e)[:200]}"
    fam = None
    if isinstance(got, str):
        fam = f"e2e/{arch}/exception"
    else:
        bad = sorted(k for k in exp if got[k] != exp[k])
        if bad:
            fam = f"e2e/{arch}/" + "+".join(bad)
    return got, exp, fam


def body_e2e(cfg):
    import importlib

    importlib.import_module("accelforge.util.parallel").set_n_parallel_jobs(1)
    arch, M, KN, MAC_TILE, M_TILE = cfg[0]
    got, exp, fam = run_e2e(arch, M, KN, MAC_TILE, M_TILE)
    sample = {"kind": "e2e", "arch": arch, "M": M, "KN": KN, "MAC_TILE": MAC_TILE, "M_TILE": M_TILE}
    v = None
    if fam:
        v = {"family": fam, "observed": got, "expected": exp, "config": sample,
             "note": "hop action counts of evaluate_mapping != loop nest x route enumeration"}
    return Result(outcome=got if isinstance(got, str) else sorted(got.items()),
                  nontrivial=(MAC_TILE >= 2 and KN // MAC_TILE >= 2), violation=v, sample=sample,
                  outcome_class=f"e2e/{arch}")


def run(ctx):
    run_case("mesh", "Relevant", "symengine", "component", 3, 2, 3)  # imports in the parent
    levels = [TOPOLOGIES, RELEVANCIES, NUMKINDS, SOURCES, list(range(1, 33)), list(range(1, 9)), [1, 3, 10]]

    def tree(p):
        return levels[len(p)] if len(p) < len(levels) else None

    ctx.explore("unit", tree, body, shard_depth=5, distinct_by_construction=True)
    ctx.bound(n="1..32", stride="1..8", volume=[1, 3, 10], relevancy=RELEVANCIES, topology=TOPOLOGIES,
              number_kinds=NUMKINDS, sources=SOURCES)
    if not ctx.quick:
        cfgs = e2e_configs()

        def tree2(p):
            return cfgs if len(p) == 0 else None

        ctx.explore("e2e", tree2, body_e2e, shard_depth=1, distinct_by_construction=True)
        ctx.bound(e2e="every admissible (M in {2,4,8}, M_TILE | M, KN in {1,2,4,8,16}, MAC_TILE | KN) on "
                      "hierarchical_1d (mesh/mesh) and hierarchical_1d_all_to_all (mesh/switch): %d mappings" % len(cfgs))


def replay(ctx, rec):
    c = rec["config"]
    if c.get("kind") == "e2e":
        import importlib

        importlib.import_module("accelforge.util.parallel").set_n_parallel_jobs(1)
        got, exp, fam = run_e2e(c["arch"], c["M"], c["KN"], c["MAC_TILE"], c["M_TILE"])
    else:
        got, exp, fam = run_case(c["topology"], c["relevancy"], c["numkind"], c["source"], c["n"], c["stride"],
                                 c["volume"])
    return {"observed": got, "expected": exp, "violation": fam is not None, "family": fam}
