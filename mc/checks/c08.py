"""C08 — tile-shape exploration prunes without losing any Pareto-optimal choice.

For every template of small single-Einsum specs (metrics E / L / EDP / E|L, tight and
infinite buffers, 2- and 3-level hierarchies) the implementation's pruned enumeration
`make_tile_shapes(job)` is compared with the exhaustive enumeration of ALL perfectly
factorising tile assignments: each assignment is evaluated through the template's
symbolic formulas (which C07 ties to the concrete model on every assignment), invalid
ones (usage > 1) are dropped, and both sides are Pareto-filtered by the reference
filter on the objective and reservation columns.  The two sets of objective vectors
must be equal.  A *big-template set* (3-level hierarchy, rank bound 60 = 12 divisors)
makes the partial enumeration cross 1000 rows so that mid-enumeration pruning
(padding, goal coalescing, sign verdicts) really runs; a spy on makepareto_numpy
records the row counts and goal kinds seen.
"""

from __future__ import annotations

import copy

from mc import afx
from mc import specs as S
from mc import tiles as T
from mc.explorer import Result
from mc.ref import pareto as RP

MANIFEST = {
    "text": "every template of small single-Einsum specs: the Pareto front (objectives + reservations) of the "
            "implementation's pruned tile-shape enumeration equals the front of the exhaustive enumeration of all "
            "perfectly factorising assignments (thousands per big template), including templates whose partial "
            "enumeration crosses the 1000-row threshold that enables mid-enumeration pruning",
    "note": "trusted: symbolic formulas (tied to the concrete model by C07 on every assignment), R-pareto; bounds: rank "
            "sizes <= 12 (60 for the big-template set), perfect factorisation, zero tolerance, temporal loops",
    "technique": "bounded exhaustive enumeration of tile assignments per template vs the real pruned enumeration",
}
RULE = ("configuration = (spec, template); all assignments of the template are enumerated inside one configuration "
        "(counted as evaluations); non-trivial = at least one assignment is dropped by dominance or invalidity and the "
        "front is non-empty")
ASSUMPTIONS = ["formulas == concrete model (C07)", "float32 rounding: vectors compared to 6 significant digits"]


def specs(quick):
    from mc.family import sized
    out = {}
    for tag, dims in (("422", (4, 2, 2)), ("662", (6, 6, 2))) + (() if quick else (("1262", (12, 6, 2)), ("346", (3, 4, 6)))):
        wl = S.MM1(*dims)
        out[f"MM1-{tag}/H2-tight/E"] = (wl, S.H2(size=sized(wl, 0.4)), "E", None)
        out[f"MM1-{tag}/H2-tight-thr/EL"] = (wl, S.H2(size=sized(wl, 0.4), main_thr=8, buf_thr=16), "EL", None)
        out[f"MM1-{tag}/H2-mid-leak/EDP"] = (wl, S.H2(size=sized(wl, 0.75), main_thr=8, leak=0.25), "EDP", None)
        if not quick or tag == "422":
            out[f"MM1-{tag}/H3/EL"] = (wl, S.H3(size=sized(wl, 0.75), rsize=sized(wl, 0.25)), "EL", None)
    out["MV1-122/H2/L"] = (S.MV1(12, 2), S.H2(size=64, main_thr=8, buf_thr=4), "L", None)
    # big-template set: only the templates with the most symbols are taken (cap = number)
    big = S.MM1(60, 12, 12)
    out["BIG-MM1-60-12-12/H3/EL"] = (big, S.H3(size=sized(big, 0.3), rsize=sized(big, 0.02)), "EL", 4 if quick else 30)
    if not quick:
        out["BIG-MM1-60-12-12/H3/E"] = (big, S.H3(size=sized(big, 0.3), rsize=sized(big, 0.02)), "E", 12)
    # throughput-bound 3-level hierarchies with Reg keeping everything (templates selected by
    # index in quick; all templates in thorough)
    p36 = S.Arch(nodes=(S.Mem("Main", S.INF, 100, 100, 0.5, 0.5, keep="~Intermediates", may_keep="All"),
                        S.Mem("Buf", 8000, 10, 10, 1, 1, keep="All", may_keep=None),
                        S.Mem("Reg", 128, 1, 1, S.INF, S.INF, keep="All", may_keep=None), S.Comp("MAC", 1, 1)))
    out["THR-MM1-36-36-36/H3-keepall/EL"] = (S.MM1(36, 36, 36), p36, "EL", [13, 14, 15, 21] if quick else None)
    p60 = S.Arch(nodes=(S.Mem("Main", S.INF, 100, 100, 0.25, 0.25, keep="~Intermediates", may_keep="All"),
                        S.Mem("Buf", 16000, 10, 10, 1, 1, keep="~Main", may_keep="All"),
                        S.Mem("Reg", 512, 1, 1, S.INF, S.INF, keep="All", may_keep=None), S.Comp("MAC", 1, 1)))
    out["THR-MM1-60-60-60/H3/EL"] = (S.MM1(60, 60, 60), p60, "EL", [46, 50, 57, 60] if quick else None)
    return out


_FIX: dict = {}


def fixture(sid, quick):
    if sid not in _FIX:
        wl, arch, metric, cap = specs(quick)[sid]
        spec = S.build_spec(arch, wl, S.Knobs(metric))
        jobs = T.template_jobs(spec)
        if isinstance(cap, list):
            jobs = [jobs[i] for i in cap if i < len(jobs)]
        elif cap:
            from accelforge.frontend.mapping import Loop

            def nsym(j):
                return sum(1 for n in j.mapping.nodes if isinstance(n, Loop))
            order = sorted(range(len(jobs)), key=lambda i: (-nsym(jobs[i]), i))[:cap]
            jobs = [jobs[i] for i in sorted(order)]
        _FIX.clear()
        _FIX[sid] = (wl, arch, spec, jobs)
    return _FIX[sid]


def sig(x):
    return float(f"{x:.6g}")


def _short(s):
    import hashlib
    return hashlib.blake2b(s.encode(), digest_size=4).hexdigest()


def check_template(sid, ti, quick):
    from accelforge.mapper.FFM._make_pmappings.make_pmappings_from_templates import make_tile_shapes as MTS

    wl, arch, spec, jobs = fixture(sid, quick)
    job = jobs[ti]
    spy = []
    orig = MTS.makepareto_numpy

    def wrapped(mappings, goals, *a, **k):
        spy.append((int(mappings.shape[0]), tuple(sorted(set(goals)))))
        return orig(mappings, goals, *a, **k)

    MTS.makepareto_numpy = wrapped
    try:
        try:
            df, _ = MTS.make_tile_shapes(copy.deepcopy(job))
            rows = df.to_dict("records")
            cols = list(df.columns)
            err = None
        except Exception as e:
            rows, cols, err = [], [], f"{type(e).__name__}: {str(e)[:200]}"
    finally:
        MTS.makepareto_numpy = orig
    j2, symbols, formulas = T.symbolic(job)
    ev = T.evaluator(symbols, formulas)
    bounds = {str(k): int(v) for k, v in job.rank_variable_bounds.items()}
    obj_cols = [c for c in cols if c.startswith("Total<SEP>") or c.startswith("reservation<SEP>")]
    if not cols:
        # fall back to what the formulas offer for the job's metric
        obj_cols = [c for c in ("Total<SEP>energy", "Total<SEP>latency") if c in formulas or c == "Total<SEP>energy"]
    n_all = n_valid = 0
    vecs, vecs_not_full = [], []
    for a in T.assignments(j2, bounds):
        n_all += 1
        fv = ev(a)
        us = [v for k, v in fv.items() if k.startswith("usage<SEP>")]
        if any(v > 1 + 1e-9 for v in us):
            continue
        n_valid += 1
        fv["Total<SEP>energy"] = fv.get("Total<SEP>dynamic_energy", 0.0) + fv.get("Total<SEP>leak_energy", 0.0)
        vecs.append(tuple(sig(fv[c]) for c in obj_cols))
        if not any(abs(v - 1) <= 1e-9 for v in us):  # no memory filled to exactly 100 %
            vecs_not_full.append(vecs[-1])
    exh = sorted(set(front(vecs)))
    impl_vecs = [tuple(sig(float(r[c])) for c in obj_cols) for r in rows]
    impl = sorted(set(front(impl_vecs)))
    viol = None
    if err is not None and exh:
        viol = {"observed": err, "expected": f"{len(exh)} front points", "family": "make_tile_shapes-raises"}
    elif impl != exh:
        lost = [v for v in exh if v not in impl]
        extra = [v for v in impl if v not in exh]
        fam = "pruning-loses-pareto-point" if lost else "pruning-keeps-point-outside-front"
        tstr = job.mapping.compact_str()
        if lost and impl == sorted(set(front(vecs_not_full))):
            # the implementation's front is exactly the front of the assignments that leave every memory
            # below 100 %: only assignments that fill a memory to exactly its capacity were lost
            fam = "pruning-loses-exactly-full-assignment"
        viol = {"observed": {"impl_front": impl[:8], "extra": extra[:4]}, "expected": {"front": exh[:8], "lost": lost[:4]},
                "family": (f"{fam}/{sid}" if fam.endswith("exactly-full-assignment") else
                           f"{fam}/{sid}/template-{_short(tstr)}"), "columns": obj_cols, "template": tstr,
                # a finding is identified by the exact (spec, template): another template of the
                # same spec, or another spec, is a different violation
                "key": f"C08|{sid}|{tstr}"}
    info = {"assignments": n_all, "valid": n_valid, "front": len(exh), "impl_rows": len(rows),
            "pareto_calls": len(spy), "max_rows_in_pareto_call": max([s[0] for s in spy], default=0),
            "calls_ge_1000": sum(1 for s in spy if s[0] >= 1000),
            "goal_kinds": sorted({g for s in spy for g in s[1]})}
    return viol, info, exh


def front(vecs):
    vs = sorted(set(vecs))
    if not vs:
        return []
    mask = RP.pareto_mask([list(v) for v in vs], ["min"] * len(vs[0]))
    return [v for v, k in zip(vs, mask) if k]


_Q = {"quick": True}


def body(cfg):
    sid, ti = cfg
    viol, info, exh = check_template(sid, ti, _Q["quick"])
    sample = dict(spec=sid, template=ti, **info)
    if viol:
        viol["config"] = sample
    cls = "big(>=1000 rows mid-enumeration)" if info["calls_ge_1000"] else "small"
    return Result(outcome=(sid, tuple(exh[:6])), nontrivial=info["front"] > 0 and info["front"] < info["assignments"],
                  violation=viol, evaluations=info["assignments"] + 1, sample=sample, outcome_class=cls)


def run(ctx):
    afx.serial()
    _Q["quick"] = ctx.quick
    sp = specs(ctx.quick)
    counts = {}
    for sid in sp:
        counts[sid] = len(fixture(sid, ctx.quick)[3])
    _FIX.clear()

    def tree(p):
        if len(p) == 0:
            return list(sp)
        if len(p) == 1:
            return list(range(counts[p[0]]))
        return None

    st = ctx.explore("templates", tree, body, shard_depth=2, distinct_by_construction=True)
    ctx.bound(specs=list(sp), templates=counts)
    big = st.outcome_classes.get("big(>=1000 rows mid-enumeration)", 0)
    ctx.extra_cov["templates_with_pareto_call_ge_1000_rows"] = big
    if big == 0:
        raise RuntimeError("vacuous: no template reached a >=1000-row Pareto call; mid-enumeration pruning not exercised")


def replay(ctx, rec):
    afx.serial()
    c = rec["config"]
    q = rec.get("tier", "quick") == "quick"
    viol, info, exh = check_template(c["spec"], c["template"], q)
    return {"observed": viol and viol["observed"], "expected": viol and viol["expected"], "violation": bool(viol)}
