"""C05 — model action counts, energy and latency == explicit LoopTree execution.

Alphabet: every single-Einsum LoopTree of the reference mapspace (mc/ref/mapspace.py:
every storage placement, every interleaving, every divisor chain) of small matmul /
matvec / elementwise workloads on 2- and 3-level hierarchies, crossed with rows of
component parameters (per-action energies, throughputs, bits_per_action,
values_per_action, bits_per_value, skip_initial_output_write on memories and compute,
leak power, n_instances).  Oracle: R-exec (mc/ref/looptree_exec.py), an explicit
nested-loop executor over sets of tensor coordinates, in exact rationals.

Mutation self-test (VERIF_REPO scratch copies, 2026-09-21), all caught:
  * _stats.py repeat_temporal: skipped_first multiplied by irrelevant loops
  * _symbolic.py analyze_storage: write-back also counted for inputs
  * components.py _get_values_per_action: component vpa before action vpa
  * energy.py: leak multiplied by per-component latency instead of overall
"""

from __future__ import annotations

import itertools
from fractions import Fraction as F

from mc import afx
from mc import specs as S
from mc.explorer import Result
from mc.ref import looptree_exec as X
from mc.ref import mapspace as MS

MANIFEST = {
    "text": "every LoopTree of the reference mapspace of small single-Einsum workloads (all storage placements, "
            "interleavings and divisor chains on 2/3-level hierarchies) x parameter rows is evaluated by the real "
            "model and by an explicit set-based loop-nest executor; per-(component,tensor,action) counts, energy and "
            "latency must agree exactly (rel 2^-20). Exhaustive within the bounds, which is what a golden-number "
            "test cannot give for a model defined by per-node propagation rules",
    "note": "trusted: R-exec as the executable statement of the property; bounds: rank sizes <= 4, <= 3 levels, "
            "temporal loops only, dense stride-1 projections",
    "technique": "bounded exhaustive enumeration of LoopTrees x parameter rows on the real model vs explicit executor",
}
RULE = ("configuration = (workload, hierarchy, parameter row, LoopTree); distinct by construction; non-trivial = "
        "some storage node below the outermost level sits under at least one loop (tiles are refetched) ")
ASSUMPTIONS = [
    "R-exec encodes the property's execution semantics (calibrated: 973/973 trees of MM1(4,2,2)/H2 agree on the unchanged tree)",
    "spatial loops, non-unit strides and imperfect loops are outside the property's quantifier",
]

TOL = 2.0 ** -20

# ---------------------------------------------------------------- parameter rows


def arch_rows(levels: int):
    """Covering rows (documented as such): each row switches on one family of
    parameters with pairwise-coprime values, the last rows combine them."""
    def mk(main_kw=None, buf_kw=None, reg_kw=None, mac_kw=None):
        main = dict(name="Main", size=S.INF, read_energy=7, write_energy=11, keep="~Intermediates", may_keep="All")
        buf = dict(name="Buf", size=S.INF, read_energy=2, write_energy=3, keep=None, may_keep="All")
        reg = dict(name="Reg", size=S.INF, read_energy=13, write_energy=17, keep=None, may_keep="All")
        mac = dict(name="MAC", energy=5, throughput=1)
        main.update(main_kw or {}); buf.update(buf_kw or {}); reg.update(reg_kw or {}); mac.update(mac_kw or {})
        nodes = [S.Mem(**main), S.Mem(**buf)]
        if levels == 3:
            nodes.append(S.Mem(**reg))
        nodes.append(S.Comp(**mac))
        return S.Arch(nodes=tuple(nodes))

    rows = {
        "base": mk(),
        "skip-buf-off": mk(buf_kw=dict(skip=False)),
        "skip-main-mac-off": mk(main_kw=dict(skip=False), mac_kw=dict(skip=False)),
        "skip-reg-off": mk(reg_kw=dict(skip=False)),
        "bits": mk(buf_kw=dict(bpa=4, bpv=(("Inputs", 4),)), main_kw=dict(act_bpa=(("read", 2),))),
        "vpa": mk(buf_kw=dict(vpa=(("All", 2),), act_vpa=(("write", "Outputs", 4),)),
                  main_kw=dict(act_vpa=(("read", "Inputs", 4),), bpa=16)),
        "thr-leak": mk(main_kw=dict(read_throughput=8, write_throughput=4, leak=0.25),
                       buf_kw=dict(read_throughput=2, write_throughput=3, leak=0.5),
                       reg_kw=dict(read_throughput=5, write_throughput=7, leak=0.0625),
                       mac_kw=dict(leak=0.125, throughput=2)),
        # read and write actions of one memory move different numbers of values per action
        # while the memory is throughput-bound (latency depends on per-action counts)
        "rw-asym-thr": mk(buf_kw=dict(act_bpa=(("read", 2), ("write", 4)), read_throughput=2, write_throughput=1),
                          reg_kw=dict(act_bpa=(("read", 4), ("write", 2)), read_throughput=1, write_throughput=2),
                          main_kw=dict(act_bpa=(("read", 4), ("write", 16)), read_throughput=4, write_throughput=2),
                          mac_kw=dict(throughput=64, leak=0.125)),
        "all": mk(main_kw=dict(read_throughput=8, write_throughput=4, leak=0.25, skip=False, act_bpa=(("read", 2),)),
                  buf_kw=dict(read_throughput=2, write_throughput=3, leak=0.5, bpa=4, bpv=(("Inputs", 4),),
                              vpa=(("Outputs", 2),)),
                  reg_kw=dict(skip=False, read_throughput=5, leak=0.0625),
                  mac_kw=dict(leak=0.125, throughput=2, skip=False)),
    }
    if levels == 2:
        rows.pop("skip-reg-off")
    return rows


def grid_rows():
    """Full binary grid of parameter families (used on the smallest trees)."""
    out = {}
    for bits in itertools.product([0, 1], repeat=8):
        sb, sm, sc, bpa, vpa, bpv, thr, leak = bits
        main = dict(name="Main", size=S.INF, read_energy=7, write_energy=11, keep="~Intermediates", may_keep="All")
        buf = dict(name="Buf", size=S.INF, read_energy=2, write_energy=3, keep=None, may_keep="All")
        mac = dict(name="MAC", energy=5, throughput=1)
        if sb:
            buf["skip"] = False
        if sm:
            main["skip"] = False
        if sc:
            mac["skip"] = False
        if bpa:
            buf["bpa"] = 4
            main["act_bpa"] = (("read", 2),)
        if vpa:
            buf["vpa"] = (("Outputs", 2),)
            main["act_vpa"] = (("write", "All", 4),)
        if bpv:
            buf["bpv"] = (("Inputs", 4),)
        if thr:
            main.update(read_throughput=8, write_throughput=4)
            buf.update(read_throughput=2, write_throughput=3)
            mac["throughput"] = 2
        if leak:
            main["leak"] = 0.25
            buf["leak"] = 0.5
            mac["leak"] = 0.125
        out["g" + "".join(map(str, bits))] = S.Arch(nodes=(S.Mem(**main), S.Mem(**buf), S.Comp(**mac)))
    return out


WORKLOADS = {
    "MM1-222": S.MM1(2, 2, 2),
    "MM1-422": S.MM1(4, 2, 2),
    "MM1-242": S.MM1(2, 4, 2),
    "MM1-224": S.MM1(2, 2, 4),
    "MM1-432": S.MM1(4, 3, 2),
    "MM1-232-x3": S.MM1(2, 3, 2, n_instances=3),
    "MV1-42": S.MV1(4, 2),
    "MV1-24": S.MV1(2, 4),
    "EW1-42": S.EW1(4, 2),
    "EW1-23-i2": S.EW1(2, 3, einsum_n_instances=(("E0", 2),)),
    "MM1-222-b": S.MM1(2, 2, 2, bits=(("Inputs", 8), ("Outputs", 16))),
}

_CACHE: dict = {}


def _fixture(wl_id, row_id, levels, grid=False):
    key = (wl_id, row_id, levels, grid)
    if key not in _CACHE:
        wl = WORKLOADS[wl_id]
        arch = (grid_rows() if grid else arch_rows(levels))[row_id]
        spec = S.build_spec(arch, wl, S.Knobs("E"))
        prep = afx.prepare(spec)
        _CACHE.clear()  # keep one fixture at a time (fork-inherited memory stays small)
        _CACHE[key] = (wl, arch, prep)
    return _CACHE[key]


_TREES: dict = {}


def trees_of(wl_id, levels):
    k = (wl_id, levels)
    if k not in _TREES:
        arch = arch_rows(levels)["base"]
        _TREES[k] = list(MS.single_einsum_trees(arch, WORKLOADS[wl_id], "E0"))
    return _TREES[k]


def compare(wl, arch, prep, tree):
    """-> (outcome, violation|None)"""
    ref = X.execute(tree, arch, wl)
    X.finish(ref, arch, wl, "E0")
    try:
        m = afx.evaluate_tree(prep, tree)
    except Exception as e:
        got = f"raise:{type(e).__name__}"
        return got, {"observed": got + ":" + str(e)[:300], "expected": "a result (the mapping is valid: all sizes are inf)",
                     "family": "model-raises-on-valid-tree"}
    acts = m.actions(per_component=True, per_tensor=True)
    got = {f"{k[0]}|{k[1]}|{k[2]}": float(v) for k, v in acts.items() if v}
    exp = {f"{l}|{t}|{a}": float(v) for (l, t, a), v in ref.actions.items() if v}
    exp[f"{arch.compute.name}|None|compute"] = float(ref.compute_actions)
    bad = []
    for k in sorted(set(got) | set(exp)):
        g, e = got.get(k, 0.0), exp.get(k, 0.0)
        if abs(g - e) > TOL * max(1.0, abs(e)):
            bad.append((k, g, e))
    e_got, l_got = float(m.energy()), float(m.latency())
    if abs(e_got - float(ref.energy)) > 4 * TOL * max(1.0, float(ref.energy)):
        bad.append(("energy", e_got, float(ref.energy)))
    if abs(l_got - float(ref.latency)) > 4 * TOL * max(1.0, float(ref.latency)):
        bad.append(("latency", l_got, float(ref.latency)))
    try:
        pcl = m.latency(per_component=True)
        for comp, v in ref.per_component_latency.items():
            g = float(pcl.get(comp, 0.0))
            if abs(g - float(v)) > 4 * TOL * max(1.0, float(v)):
                bad.append((f"latency|{comp}", g, float(v)))
    except Exception as e:  # accessor failure is an observation
        bad.append(("latency-accessor", repr(e)[:80], "per-component latency"))
    outcome = (round(e_got, 4), round(l_got, 4))
    if bad:
        kinds = sorted({b[0].split("|")[-1] if "|" in b[0] else b[0] for b in bad})
        return outcome, {"observed": {b[0]: b[1] for b in bad[:8]}, "expected": {b[0]: b[2] for b in bad[:8]},
                         "family": "mismatch:" + "+".join(kinds),
                         "note": "model != explicit execution"}
    return outcome, None


def nontrivial(tree):
    seen_loop = False
    outer = tree[0][1]
    for n in tree:
        if n[0] == "T":
            seen_loop = True
        if n[0] == "S" and n[1] != outer and seen_loop:
            return True
    return False


CHUNK = 24


def make_tree(plan):
    """plan: list of (wl_id, levels, row_id, grid, n_trees_cap)"""
    def tree(p):
        if len(p) == 0:
            return list(range(len(plan)))
        wl_id, levels, row_id, grid, cap = plan[p[0]]
        n = len(trees_of(wl_id, levels))
        if cap:
            n = min(n, cap)
        if len(p) == 1:
            return list(range((n + CHUNK - 1) // CHUNK))
        if len(p) == 2:
            return list(range(p[1] * CHUNK, min(n, (p[1] + 1) * CHUNK)))
        return None
    return tree


def make_body(plan):
    def body(cfg):
        wl_id, levels, row_id, grid, cap = plan[cfg[0]]
        wl, arch, prep = _fixture(wl_id, row_id, levels, grid)
        tree = trees_of(wl_id, levels)[cfg[2]]
        outcome, viol = compare(wl, arch, prep, tree)
        sample = {"workload": wl_id, "levels": levels, "row": row_id, "grid": grid, "tree_index": cfg[2],
                  "tree": afx.tree_str(tree)}
        if viol:
            viol["config"] = sample
        return Result(outcome=outcome, nontrivial=nontrivial(tree), violation=viol, sample=sample)
    return body


def run(ctx):
    afx.serial()
    q = ctx.quick
    plan = []
    if q:
        for row in arch_rows(2):
            plan.append(("MM1-422", 2, row, False, 0))
        for wl in ("MM1-222", "MV1-42", "EW1-42", "MM1-232-x3", "MM1-222-b"):
            for row in ("base", "all"):
                plan.append((wl, 2, row, False, 0))
        for row in ("base", "skip-reg-off", "rw-asym-thr", "all"):
            plan.append(("MV1-24", 3, row, False, 600))
        for g in list(grid_rows())[::4]:  # 64 of the 256 grid points
            plan.append(("MM1-222", 2, g, True, 40))
    else:
        for wl in WORKLOADS:
            for row in arch_rows(2):
                plan.append((wl, 2, row, False, 0))
        for wl in ("MM1-222", "MV1-24", "MV1-42", "EW1-42"):
            for row in arch_rows(3):
                plan.append((wl, 3, row, False, 0))
        for g in grid_rows():
            plan.append(("MM1-222", 2, g, True, 0))
            plan.append(("MV1-42", 2, g, True, 0))
    # build tree lists in the parent so forked workers share them
    for wl_id, levels, *_ in plan:
        trees_of(wl_id, levels)
    ctx.explore("trees-x-rows", make_tree(plan), make_body(plan), shard_depth=2,
                distinct_by_construction=True)
    ctx.bound(workloads=sorted({p[0] for p in plan}), levels=sorted({p[1] for p in plan}),
              parameter_rows=sorted({p[2] for p in plan if not p[3]}),
              grid_points=sum(1 for p in plan if p[3]),
              trees_per_workload={f"{w}/{l}": len(trees_of(w, l)) for w, l in sorted({(p[0], p[1]) for p in plan})})
    ctx.note("3-level quick rows are capped at the first 600 trees of MV1-24 (enumeration order: fewest storage "
             "nodes first); thorough has no caps")


def replay(ctx, rec):
    afx.serial()
    c = rec["config"]
    wl, arch, prep = _fixture(c["workload"], c["row"], c["levels"], c["grid"])
    tree = trees_of(c["workload"], c["levels"])[c["tree_index"]]
    outcome, viol = compare(wl, arch, prep, tree)
    return {"observed": viol and viol["observed"], "expected": viol and viol["expected"], "violation": bool(viol)}
