"""C16 — objective_tolerance / resource_usage_tolerance stay within their documented bound.

Alphabet: specs of the small family x (objective_tolerance, resource_usage_tolerance) in
{0, .01, .1, .5}^2 minus (0,0) x metric in {E, L, EDP}.  Phase 1 runs the mapper at zero
tolerance for every (spec, metric) and compares it with the exact optimum of the reference
mapspace (every LoopTree through the real model, FAM.compute_refs, shared with C01; the
sub-grid specs of the thorough tier use the zero-tolerance run itself as the optimum).  Phase
2 runs the mapper with every tolerance pair: the best returned objective must satisfy
opt <= best <= (1 + objective_tolerance) * opt (relative 1e-5), a mapping must be returned
whenever one exists, and every returned row must pass the structural validator
mc/validate.py (incl. explicit peak-occupancy simulation against the memory sizes).

Mutation self-test (scratch copies /tmp/af-mut-*; under the machine load of the session each mutant
was run through `./check C16 --replay` on configurations of the quick grid, not the whole tier):
  1. pareto.py logscale_to_tolerance: bucket width log(1+t) -> 2*log(1+t) (tolerance applied twice,
     multiplicatively): CAUGHT on MV2-222/tight, E, (0.5, 0): "No mappings found for E0 <--> E1"
     -> tolerance-loses-all-mappings/ot (MM1-622/tight E ratio 1.21 stays inside the bound).
  2. make_tile_shapes.py validity check `result <= objective.max_value` ->
     `result <= objective.max_value * (1 + objective.tolerance)` (resource tolerance applied to the
     capacity check): CAUGHT on MM1-422/tight, E, (0, 0.5): the mapper picks a mapping using 88 of
     64 bits of Buf and its own final evaluation raises -> tolerance-loses-all-mappings/rt.
  3. pmapping_dataframe.py limit_capacity `<= 1 + tolerance` -> `< 1 + tolerance`: MISSED on
     MV2-222/tight and MM1-422/tight at (0.01, 0) (no optimum of the bound sits exactly at 100%).
"""

from __future__ import annotations

from mc import afx
from mc import family as FAM
from mc import treehash
from mc import validate as V
from mc.explorer import Result

MANIFEST = {
    "text": "for every spec of a small family and every pair of tolerances of the documented grid the real mapper is "
            "run for energy, latency and EDP; the best returned objective is compared with the exact optimum of the "
            "exhaustively enumerated reference mapspace (and the zero-tolerance run) and every returned mapping is "
            "re-validated structurally and for capacity; the bound is an input-output contract, so exhaustive small "
            "scope over specs x tolerance pairs is the right level",
    "note": "trusted: reference mapspace optimum (C01), validator mc/validate.py (C03), float32 tables (relative 1e-5); "
            "tolerances only from the documented grid {0,.01,.1,.5}; 1-2 Einsum specs, 2-level hierarchies",
    "technique": "bounded exhaustive enumeration of specs x tolerance pairs x metrics vs reference optimum and validator",
}
RULE = ("phase 1: one state per (spec, metric) zero-tolerance run; phase 2: one state per (spec, metric, "
        "objective_tolerance, resource_usage_tolerance), distinct by construction. non-trivial = the reference mapspace "
        "contains a valid non-optimal point inside (opt, (1+t)*opt] (the tolerance may legitimately change the answer) "
        "or, for t = 0, the capacity constraint binds (some enumerated LoopTree is invalid)")
ASSUMPTIONS = [
    "the reference mapspace optimum is the exact optimum (C01)",
    "float32 result tables: relative tolerance 1e-5 on both sides of the bound",
    "the upper bound (1+t)*opt is demanded for every resource_usage_tolerance of the grid (the statement quantifies over "
    "tolerances applied separately and together)",
]

TOLS = [0, 0.01, 0.1, 0.5]
GRID = [(o, r) for o in TOLS for r in TOLS if (o, r) != (0, 0)]
DIAG = [(0.1, 0), (0, 0.1), (0.5, 0.5)]
METRICS = ["E", "L", "EDP"]
REL = 1e-5
_REFS: dict = {}
_FULL: set = set()


def knobs_of(ot, rt):
    return (("objective_tolerance", ot), ("resource_usage_tolerance", rt))


def _tuplify(x):
    if isinstance(x, list):
        if x and isinstance(x[0], str):
            return tuple(_tuplify(y) if isinstance(y, list) else y for y in x)
        return [_tuplify(y) for y in x]
    return x


def best_of(res, metric):
    if res["error"] is not None or not res["rows"]:
        return None
    return min(FAM.row_metric(r, metric) for r in res["rows"])


def ref_value(p, metric):
    return p[0] if metric == "E" else (p[1] if metric == "L" else p[0] * p[1])


def body_zero(cfg):
    sid, metric = cfg
    ref = _REFS.get(sid)
    res = FAM.run_mapper(sid, metric)
    got = best_of(res, metric)
    exp = FAM.ref_min(ref, metric) if ref else None
    agree = (got is None and exp is None) or (got is not None and exp is not None and abs(got - exp) <= REL * abs(exp))
    sample = {"spec": sid, "metric": metric, "zero_tolerance_best": got, "reference_best": exp}
    # a disagreement here is C01's finding, not C16's: it is recorded, and phase 2 keeps using the reference
    return Result(outcome=(sid, metric, got), nontrivial=bool(ref and ref["n_valid"] < ref["n_trees"]),
                  validated=ref is not None, sample=sample,
                  outcome_class=("no-reference(zero-tolerance-run-is-the-optimum)" if ref is None else
                                 "zero-tolerance==reference" if agree else "zero-tolerance!=reference"))


def body(cfg):
    sid, metric, (ot, rt) = cfg
    wl, arch = FAM.FAMILY[sid]
    ref = _REFS.get(sid)
    base = FAM.run_mapper(sid, metric)
    opt_map = best_of(base, metric)
    opt_ref = FAM.ref_min(ref, metric) if ref else None
    opt = opt_ref if ref else opt_map
    res = FAM.run_mapper(sid, metric, knobs_of(ot, rt))
    got = best_of(res, metric)
    sample = {"spec": sid, "metric": metric, "objective_tolerance": ot, "resource_usage_tolerance": rt,
              "best": got, "opt_reference": opt_ref, "opt_zero_tolerance_run": opt_map, "rows": len(res["rows"])}
    viol = None
    bad = []
    for r in res["rows"]:
        probs = V.validate(_tuplify(r["nodes"]), arch, wl)
        if probs:
            bad.append({"tree": r["tree"], "usage": r["usage"], "problems": probs[:4]})
    if bad:
        first = bad[0]["problems"][0]
        kind = ("capacity" if "peak occupancy" in first else "keep" if "must keep" in first or "outside keep" in first
                else "chain" if "rank variable" in first or "divide" in first else "structure")
        viol = {"observed": bad[:3], "expected": "every returned mapping passes the validator",
                "family": f"invalid-mapping-with-tolerance/{kind}/{'rt>0' if rt > 0 else 'rt=0'}"}
    elif opt is None and got is None:
        pass
    elif got is None:
        viol = {"observed": {"best": None, "error": res["error"]}, "expected": {"exact_optimum": opt},
                "family": f"tolerance-loses-all-mappings/{'ot' if ot else ''}{'rt' if rt else ''}"}
    elif opt is None:
        viol = {"observed": {"best": got}, "expected": "no valid mapping exists",
                "family": "tolerance-returns-mapping-where-none-exists"}
    elif got < opt * (1 - REL) - 1e-9:
        w = min(res["rows"], key=lambda r: FAM.row_metric(r, metric))
        viol = {"observed": {"best": got, "tree": w["tree"]}, "expected": {"exact_optimum": opt},
                "family": f"tolerance-beats-exact-optimum/{metric}"}
    elif got > opt * (1 + ot) * (1 + REL) + 1e-9:
        viol = {"observed": {"best": got, "ratio": got / opt}, "expected": {"exact_optimum": opt, "bound": (1 + ot) * opt},
                "family": f"tolerance-bound-exceeded/{metric}/{'ot>0' if ot else 'ot=0'}/{'rt>0' if rt else 'rt=0'}"}
    if viol:
        viol["config"] = sample
    if ref:
        if ot > 0 and opt is not None:
            nontriv = any(opt * (1 + REL) < ref_value(p, metric) <= opt * (1 + ot) for p in ref["points"])
        else:
            nontriv = ref["n_valid"] < ref["n_trees"]
    else:
        nontriv = got is not None and opt is not None and got > opt * (1 + REL)
    changed = got is not None and opt is not None and got > opt * (1 + REL)
    return Result(outcome=(sid, metric, got), nontrivial=nontriv, violation=viol, sample=sample,
                  evaluations=1 + len(res["rows"]),
                  outcome_class="best-changed-by-tolerance" if changed else "best-unchanged")


def spec_lists(ctx):
    if ctx.quick:
        return ["MM1-422/tight", "MV2-222/tight"], ["MM1-622/tight", "MV2-222/mid-thr"]
    full = list(FAM.MEDIUM_SIDS)
    diag = [s for s in FAM.THOROUGH_SIDS if s not in full and (s.startswith(("MV2", "MM2")) or s.endswith(("/tight", "/mid")))]
    return full, diag


def make_tree(full, diag):
    sids = full + diag

    def tree(p):
        if len(p) == 0:
            return sids
        if len(p) == 1:
            return METRICS
        if len(p) == 2:
            return GRID if p[0] in _FULL else DIAG
        return None
    return tree, sids


def run(ctx):
    afx.serial()
    treehash.tree_hash()  # pin the cache key in the parent: all forked workers of this run share one cache directory
    full, diag = spec_lists(ctx)
    _FULL.update(full)
    tree, sids = make_tree(full, diag)
    # exact optimum from the reference mapspace for the full-grid specs (quick: for all specs, they are C01's quick
    # specs); the sub-grid specs of the thorough tier use the zero-tolerance run as the exact optimum
    _REFS.update(FAM.compute_refs(ctx, sids if ctx.quick else full, orders="alpha"))
    ctx.explore("zero-tolerance-vs-reference", lambda p: sids if len(p) == 0 else (METRICS if len(p) == 1 else None),
                body_zero, shard_depth=2, distinct_by_construction=True)
    ctx.explore("tolerance-grid", tree, body, shard_depth=3, distinct_by_construction=True)
    ctx.bound(specs_full_grid=full, specs_sub_grid=diag, grid=[list(g) for g in GRID], sub_grid=[list(g) for g in DIAG],
              metrics=METRICS)


def replay(ctx, rec):
    c = rec["config"]

    class _C:
        seed = 0
        extra_cov = {}

        def absorb(self, *a, **k):
            pass

    _REFS.update(FAM.compute_refs(_C(), [c["spec"]]))
    r = body((c["spec"], c["metric"], (c["objective_tolerance"], c["resource_usage_tolerance"])))
    return {"observed": r.violation and r.violation["observed"], "expected": r.violation and r.violation["expected"],
            "violation": bool(r.violation)}
