"""C03 — every mapping the mapper returns is valid for the architecture and constraints.

Alphabet: the small-spec family (1-2 Einsums, finite buffers, 2-3 levels) x keep/may_keep
variants x metric sets {E, L, EDP, E|L, E|L|RESOURCE_USAGE} x max_fused_loops in {inf,1,0}
x 3-Einsum chains, plus the repository's spatial-fanout example architectures (fanout,
loop_bounds, min_usage).  Every returned row of every run is rebuilt into a LoopTree and
checked by the structural validator mc/validate.py (each Einsum once, divisor chains down
to 1, keep satisfied, nothing stored outside keep|may_keep, hierarchy order, R-exec peak
occupancy <= size, fused-loop limits, spatial fanout and loop-bound constraints).
"""

from __future__ import annotations

import dataclasses

from mc import afx
from mc import family as FAM
from mc import specs as S
from mc import validate as V
from mc.explorer import Result

MANIFEST = {
    "text": "every row returned by the real mapper for every spec/knob combination of a small family is rebuilt into a "
            "LoopTree and validated structurally and against an explicit occupancy simulation; the space of specs and "
            "knobs is enumerated exhaustively within the stated bounds",
    "note": "trusted: validator mc/validate.py written from the documented mapping rules; R-exec occupancy (C06)",
    "technique": "bounded exhaustive enumeration of specs x knobs; every returned mapping validated against a reference validator",
}
RULE = ("configuration = (spec, keep-variant, metric set, max_fused_loops); distinct by construction; non-trivial = the "
        "run returned at least one mapping with a storage node below the outermost level")
ASSUMPTIONS = ["spatial loops are validated for fanout only (no occupancy simulation for spatial mappings)"]

KEEP_VARIANTS = {
    "default": {},
    "buf-may-inputs": {"buf_may_keep": "Inputs", "buf_keep": "~Main"},
    "buf-may-outputs": {"buf_may_keep": "Outputs", "buf_keep": "~Main"},
    "buf-keep-all": {"buf_keep": "All"},
}
EXTRA = {
    "MV3-2222/tight": (S.MV3(2, 2, 2, 2), 0.3),
    "MV3-2422/mid": (S.MV3(2, 4, 2, 2), 0.6),
    "FAN3-22222/mid": (S.FAN3(2, 2, 2, 2, 2), 0.5),
}


def spec_of(sid, keepv):
    if sid in EXTRA:
        wl, frac = EXTRA[sid]
        arch = S.H2(size=FAM.sized(wl, frac))
    else:
        wl, arch = FAM.FAMILY[sid]
    kv = KEEP_VARIANTS[keepv]
    if kv:
        nodes = list(arch.nodes)
        for i, n in enumerate(nodes):
            if isinstance(n, S.Mem) and n.name == "Buf":
                ch = {}
                if "buf_may_keep" in kv:
                    ch["may_keep"] = kv["buf_may_keep"]
                if "buf_keep" in kv:
                    ch["keep"] = kv["buf_keep"]
                nodes[i] = dataclasses.replace(n, **ch)
        arch = S.Arch(nodes=tuple(nodes), variables=arch.variables)
    return wl, arch


def body(cfg):
    sid, keepv, metric, mfl = cfg
    wl, arch = spec_of(sid, keepv)
    knobs = (("max_fused_loops", mfl),) if mfl != "inf" else ()
    res = FAM.run_mapper(f"{sid}|{keepv}", metric, knobs, arch=arch, wl=wl)
    sample = {"spec": sid, "keep": keepv, "metric": metric, "max_fused_loops": mfl, "rows": len(res["rows"])}
    viol = None
    bad = []
    nontriv = False
    for r in res["rows"]:
        nodes = _tuplify(r["nodes"])
        probs = V.validate(nodes, arch, wl, max_fused_loops=(float("inf") if mfl == "inf" else mfl))
        if probs:
            bad.append({"tree": r["tree"], "problems": probs[:4]})
        if any(n[0] == "S" and n[1] != "Main" for p in V.paths(nodes) for n in p):
            nontriv = True
    if bad:
        kinds = sorted({p.split(":")[-1].strip().split(" ")[0] for b in bad for p in b["problems"]})
        first = bad[0]["problems"][0]
        fam = "invalid-mapping/" + ("capacity" if "peak occupancy" in first else "keep" if "must keep" in first or
                                    "outside keep" in first else "fused" if "fused" in first else
                                    "chain" if "rank variable" in first or "divide" in first else "structure")
        viol = {"observed": bad[:3], "expected": "every returned mapping passes the validator", "family": fam,
                "config": sample}
    return Result(outcome=(len(res["rows"]), res["error"] is None), nontrivial=nontriv, violation=viol,
                  evaluations=max(1, len(res["rows"])), sample=sample)


def _tuplify(x):
    if isinstance(x, list):
        if x and isinstance(x[0], str):
            return tuple(_tuplify(y) if isinstance(y, list) else y for y in x)
        return [_tuplify(y) for y in x]
    return x


# ------------------------------------------------------------ spatial fanout + loop_bounds

FAN_WORKLOADS = {"MM1-444": S.MM1(4, 4, 4), "MM1-842": S.MM1(8, 4, 2), "MM2-4422": S.MM2(4, 4, 2, 2)}
# (yaml expression, set of rank variables or None = resolved per Einsum, operator, value)
LOOP_BOUNDS = {
    "none": [],
    "not-m==1": [("~m", "NOT:m", "==", 1)],
    "all-product<=4": [("{ALLV}", "ALL", "product<=", 4)],
    "all-product<4": [("{ALLV}", "ALL", "product<", 4)],
    "all-product>2": [("{ALLV}", "ALL", "product>", 2)],
    "all-product<8-and-m>1": [("{ALLV}", "ALL", "product<", 8), ("m", "ONLY:m", ">", 1)],
}


def fan_arch(fanout, lb_key, glb_frac, wl):
    allv = "{" + ", ".join(v for v, _ in wl.bounds) + "}"
    lbs = ", ".join('{expression: "%s", operator: "%s", value: %d}' % (y.replace("{ALLV}", allv), op, v)
                    for y, _, op, v in LOOP_BOUNDS[lb_key])
    cont = ("  - !Container\n    name: MACArray\n    spatial:\n    - name: X\n      fanout: %d\n" % fanout) + \
        (("      loop_bounds: [%s]\n" % lbs) if lbs else "")
    size = FAM.sized(wl, glb_frac)
    return S.Arch(nodes=(S.Mem("Main", S.INF, 10, 10, keep="~Intermediates", may_keep="All"),
                         S.Mem("Buf", size, 1, 1, keep="All", may_keep=None),
                         cont.rstrip("\n"), S.Comp("MAC", 1, 1)))


def body_fan(cfg):
    wid, fanout, lb_key, metric = cfg
    wl = FAN_WORKLOADS[wid]
    arch = fan_arch(fanout, lb_key, 0.8, wl)
    res = FAM.run_mapper(f"FAN|{wid}|{fanout}|{lb_key}", metric, (), arch=arch, wl=wl)
    sample = {"phase": "fanout", "workload": wid, "fanout": fanout, "loop_bounds": lb_key, "metric": metric,
              "rows": len(res["rows"]), "error": res["error"]}
    bad, nontriv = [], False
    for r in res["rows"]:
        nodes = _tuplify(r["nodes"])
        lbs = [("MACArray", "X", sel, op, v) for y, sel, op, v in LOOP_BOUNDS[lb_key]]
        probs = V.validate(nodes, arch, wl, fanouts={("MACArray", "X"): fanout}, loop_bounds=lbs)
        if probs:
            bad.append({"tree": r["tree"], "problems": sorted(set(probs))[:4]})
        if any(n[0] == "P" for p in V.paths(nodes) for n in p):
            nontriv = True
    viol = None
    if bad:
        first = bad[0]["problems"][0]
        fam = "invalid-mapping/" + ("loop_bounds" if "loop_bounds" in first else "fanout" if "fanout" in first else "structure")
        viol = {"observed": bad[:3], "expected": "every returned mapping satisfies fanout and loop_bounds", "family": fam,
                "config": sample}
    return Result(outcome=(wid, fanout, lb_key, metric, len(res["rows"])), nontrivial=nontriv, violation=viol,
                  evaluations=max(1, len(res["rows"])), sample=sample)


def _single(wl, e):
    """The workload restricted to one Einsum (for validating one root-to-compute path)."""
    return S.WL(einsums=tuple(x for x in wl.einsums if x[0] == e), bounds=wl.bounds, bits=wl.bits)


def tree_of(ctx):
    q = ctx.quick
    sids = (["MM1-422/tight", "MM1-622/tight", "MV1-42/tight", "MV2-222/tight", "MV2-424/mid", "MM2-2222/tight",
             "MV3-2222/tight"] if q else list(FAM.FAMILY) + list(EXTRA))
    metrics = ["E", "EL", "ELR"] if q else ["E", "L", "EDP", "EL", "ELR"]

    def tree(p):
        if len(p) == 0:
            return sids
        if len(p) == 1:
            return list(KEEP_VARIANTS) if (not q or p[0] in ("MM1-422/tight", "MV2-222/tight")) else ["default"]
        if len(p) == 2:
            return metrics
        if len(p) == 3:
            multi = p[0].startswith(("MV2", "MM2", "MV3", "FAN3"))
            return ["inf", 1, 0] if (multi and p[1] == "default") else ["inf"]
        return None
    return tree, sids, metrics


def run(ctx):
    afx.serial()
    tree, sids, metrics = tree_of(ctx)
    ctx.explore("returned-mappings", tree, body, shard_depth=4, distinct_by_construction=True)
    ctx.bound(specs=sids, metrics=metrics, keep_variants=list(KEEP_VARIANTS), max_fused_loops=["inf", 1, 0])
    wids = ["MM1-444", "MM2-4422"] if ctx.quick else list(FAN_WORKLOADS)
    fans = [4, 16] if ctx.quick else [2, 4, 16]
    fmetrics = ["L", "E"] if ctx.quick else ["E", "L", "EL"]
    ctx.explore("fanout-loop-bounds", S_product(wids, fans, list(LOOP_BOUNDS), fmetrics), body_fan, shard_depth=4,
                distinct_by_construction=True)
    ctx.bound(fanout_workloads=wids, fanouts=fans, loop_bounds=list(LOOP_BOUNDS), fanout_metrics=fmetrics)


def S_product(*levels):
    from mc.explorer import product_tree
    return product_tree(*levels)


def replay(ctx, rec):
    c = rec["config"]
    if c.get("phase") == "fanout":
        r = body_fan((c["workload"], c["fanout"], c["loop_bounds"], c["metric"]))
        return {"observed": r.violation and r.violation["observed"], "violation": bool(r.violation)}
    r = body((c["spec"], c["keep"], c["metric"], c["max_fused_loops"]))
    return {"observed": r.violation and r.violation["observed"], "violation": bool(r.violation)}
