"""C25 — architecture flattening yields exactly the root-to-compute path.

Alphabet: every architecture tree of the grammar
    Hier := (Memory | Toll | Container | Compute | Fork[Hier] | Hierarchical[Hier])+
with non-empty branches, unique names, >= 1 Compute and at most N nodes (leaves +
branches) / nesting depth D.  Two families: "shapes" enumerates every tree over
{non-compute leaf, Compute, Fork, Hierarchical} and gives the i-th non-compute leaf the
kind (Memory, Toll, Container)[(i + rot) mod 3] (rot is enumerated), "kinds" enumerates
every tree over the full leaf alphabet for a smaller N.  Every Compute of every tree is
queried.
Oracle (R-arch, mc/ref/arch.py: nested lists + depth-first path search): the
flattened architecture for compute c is, top-down, the non-compute leaves above c
(earlier siblings in every enclosing hierarchy, nested Hierarchicals inlined, Forks that
do not contain c and all other Computes left out) followed by c.  Observed at
``Spec._get_flattened_architecture`` (all computes, and per compute by name) on the
evaluated Spec and at ``Arch._flatten`` on the raw tree: names and node classes.

SELFTEST (scratch copy /tmp/af-mut-c25 of accelforge/, VERIF_REPO, quick tier; copy deleted afterwards)
  M1 structure.py:Hierarchical._flatten  Fork without the compute no longer skipped
     (`continue` -> `pass`)                                         caught  all-computes-query:raises (2834 trees)
  M2 structure.py:_flatten  no `break` after the compute was found inside a nested
     branch (`if any(` -> `if False and any(`)                      caught  all-computes-query:raises (5931)
  M3 spec.py:_get_flattened_architecture  compute order reversed    caught  all:other-compute-included+...+target-missing (6037)
  M4 structure.py:_flatten  nested Hierarchical without the compute skipped like a
     Fork (`if isinstance(node, Fork)` -> `if True`)                caught  all:ancestor-missing (1422)
  M5 structure.py:_flatten  every Compute met on the way appended   caught  all:other-compute-included (5143)
"""

from __future__ import annotations

from mc.explorer import Result
from mc.ref import arch as R

MANIFEST = {
    "text": "every architecture tree of the documented grammar up to a node/depth bound (Memory, Toll, Container, "
            "Compute, Fork, nested Hierarchical; all positions of computes, forks with and without the compute, "
            "computes before/after forks, nested hierarchies before/around the compute) is built with the real "
            "classes, evaluated, flattened for every compute and compared with a nested-list path search; right "
            "level because flattening is a structural recursion whose cases are all reached by trees of <= 6 nodes",
    "note": "trusted: R-arch path search; bounds: nodes <= 6 depth <= 3 (quick) / nodes <= 7 depth <= 4 (thorough) "
            "for shapes with rotated leaf kinds, nodes <= 4 / 6 for the full leaf-kind alphabet; Array and Network "
            "nodes are outside the property's grammar",
    "technique": "bounded exhaustive input enumeration (explicit-state) vs reference model",
}

RULE = (
    "pre-order token sequences of the grammar (leaf kinds, 'F(' 'H(' ')' and end marker) with node and depth "
    "bounds; distinct = distinct concrete tree (leaf kinds, names, nesting; the families overlap and are "
    "de-duplicated by hashing the tree); non-trivial = the tree contains a Fork, a "
    "nested Hierarchical or at least two Computes (something must be left out of or inlined into some path)"
)
ASSUMPTIONS = [
    "R-arch (mc/ref/arch.py) encodes docs/source/guide/spec/architecture.rst: a nested Hierarchical is part of the "
    "enclosing hierarchy, a Fork branches off, a Compute ends a path",
    "leaf kinds Memory/Toll/Container are rotated over positions in the 'shapes' family (every kind occurs at every "
    "position over the three rotations, but not every kind *combination* for > 4/6 nodes)",
    "empty Fork/Hierarchical bodies, Array and Network nodes are not generated",
]

SHAPE_TOKENS = ["L", "C"]
KIND_TOKENS = ["M", "T", "K", "C"]
_FAM = {}


# ----------------------------------------------------------------------------
# building the real architecture from a nested-list tree (shared with C26/C27)
# ----------------------------------------------------------------------------

def build_arch(tree, params=None):
    """params: optional {leaf name: dict of extra constructor fields}."""
    from accelforge.frontend.arch import Arch

    return Arch(nodes=_build_seq(tree, params or {}))


def _spatial(name, fanout):
    if fanout == 6:  # two spatial dimensions on one node
        return [{"name": f"d_{name}", "fanout": 2}, {"name": f"e_{name}", "fanout": 3}]
    return [{"name": f"d_{name}", "fanout": fanout}] if fanout != 1 else []


def _build_seq(seq, params):
    from accelforge.frontend.arch import Compute, Container, Fork, Hierarchical, Memory, Toll

    out = []
    for node in seq:
        k = node[0]
        if k in ("F", "H"):
            cls = Fork if k == "F" else Hierarchical
            out.append(cls(nodes=_build_seq(node[1], params)))
            continue
        name, fanout = node[1], node[2]
        extra = dict(params.get(name, {}))
        if k == "K":
            out.append(Container(name=name, spatial=_spatial(name, fanout)))
            continue
        base = dict(name=name, spatial=_spatial(name, fanout), area=extra.pop("area", 1),
                    leak_power=extra.pop("leak_power", 1))
        act = extra.pop("action", {"energy": 1, "throughput": 1})
        if k == "M":
            out.append(Memory(size=extra.pop("size", 64),
                              actions=[dict(name="read", **act), dict(name="write", **act)], **base, **extra))
        elif k == "T":
            out.append(Toll(direction="up", actions=[dict(name="read", **act)], **base, **extra))
        elif k == "C":
            out.append(Compute(actions=[dict(name="compute", **act)], **base, **extra))
        else:
            raise ValueError(k)
    return out


CLASS_OF = {"M": "Memory", "T": "Toll", "K": "Container", "C": "Compute"}


# ----------------------------------------------------------------------------
# one configuration
# ----------------------------------------------------------------------------

def _names(flat):
    return [[type(n).__name__, n.name] for n in flat]


def observe(tree):
    """-> (observation dict, n impl calls)"""
    from accelforge.frontend.spec import Spec

    obs = {}
    n = 0
    try:
        arch = build_arch(tree)
        spec = Spec(arch=arch)
    except Exception as e:
        return {"construct": f"raise:{type(e).__name__}:{str(e)[:200]}"}, 1
    cs = [c[1] for c in R.computes(tree)]
    try:
        ev = spec._spec_eval_expressions()
        n += 1
    except Exception as e:
        return {"evaluate": f"raise:{type(e).__name__}:{str(e)[:200]}"}, n + 1
    try:
        obs["all"] = [_names(f) for f in ev._get_flattened_architecture()]
    except Exception as e:
        obs["all"] = f"raise:{type(e).__name__}:{str(e)[:120]}"
    n += 1
    obs["by_name"], obs["raw"] = {}, {}
    for c in cs:
        try:
            obs["by_name"][c] = _names(ev._get_flattened_architecture(compute_node=c))
        except Exception as e:
            obs["by_name"][c] = f"raise:{type(e).__name__}:{str(e)[:120]}"
        try:
            obs["raw"][c] = _names(arch._flatten(c))
        except Exception as e:
            obs["raw"][c] = f"raise:{type(e).__name__}:{str(e)[:120]}"
        n += 2
    return obs, n


def expected(tree):
    cs = [c[1] for c in R.computes(tree)]
    return {c: [[CLASS_OF[n[0]], n[1]] for n in R.path_to(tree, c)] for c in cs}


def classify(tree, c, got, exp):
    """Name the specific way a path is wrong."""
    if isinstance(got, str):
        return "raises"
    g, e = [x[1] for x in got], [x[1] for x in exp]
    if g == e:
        return "wrong-class"
    gs, es = set(g), set(e)
    extra, missing = gs - es, es - gs
    kinds = {n[1]: n[0] for n in R.leaves(tree)}
    tags = []
    if any(kinds.get(x) == "C" for x in extra):
        tags.append("other-compute-included")
    if any(kinds.get(x) != "C" for x in extra):
        chain_forks = _in_fork_without(tree, c)
        tags.append("foreign-fork-leaf-included" if any(x in chain_forks for x in extra)
                    else "non-ancestor-leaf-included")
    if missing:
        tags.append("target-missing" if c in missing else "ancestor-missing")
    if not tags:
        tags.append("order-or-duplicate")
    return "+".join(tags)


def _in_fork_without(tree, c):
    """names of leaves inside forks that do not contain compute c"""
    out = set()

    def walk(seq):
        for node in seq:
            if R.is_leaf(node):
                continue
            names = {n[1] for n in R.leaves(node[1])}
            if node[0] == "F" and c not in names:
                out.update(names)
            else:
                walk(node[1])

    walk(tree)
    return out


def check_tree(tree):
    exp = expected(tree)
    obs, n = observe(tree)
    viol = None
    for stage in ("construct", "evaluate"):
        if stage in obs:
            return exp, obs, {"family": f"{stage}-raises", "observed": obs[stage], "expected": "accepted",
                              "note": "tree of the documented grammar rejected"}, n
    order = list(exp)
    if isinstance(obs["all"], str) or len(obs["all"]) != len(order):
        viol = {"family": "all-computes-query:" + ("raises" if isinstance(obs["all"], str) else "wrong-count"),
                "observed": obs["all"], "expected": [exp[c] for c in order],
                "note": "_get_flattened_architecture() without compute_node"}
    else:
        for c, got in zip(order, obs["all"]):
            if got != exp[c]:
                viol = {"family": "all:" + classify(tree, c, got, exp[c]), "observed": got, "expected": exp[c],
                        "note": f"_get_flattened_architecture()[{order.index(c)}] for compute {c}"}
                break
    if viol is None:
        for key, what in (("by_name", "_get_flattened_architecture(compute_node=%s)"), ("raw", "Arch._flatten(%s)")):
            for c in order:
                got = obs[key][c]
                if got != exp[c]:
                    viol = {"family": f"{key}:" + classify(tree, c, got, exp[c]), "observed": got,
                            "expected": exp[c], "note": what % c}
                    break
            if viol:
                break
    return exp, obs, viol, n


def nontrivial(tree):
    def has_branch(seq):
        return any(not R.is_leaf(n) for n in seq)

    return has_branch(tree) or len(R.computes(tree)) >= 2


def shape_class(tree):
    tags = []
    flat = str(tree)
    if "'F'" in flat:
        tags.append("fork")
    if "'H'" in flat:
        tags.append("nested")
    tags.append(f"{min(len(R.computes(tree)), 3)}c")
    return "/".join(tags)


def body(cfg):
    fam, rot, tokens = cfg[0], cfg[1], cfg[2:]
    tree = R.parse_tokens(tokens, rot)
    exp, obs, viol, n = check_tree(tree)
    sample = {"tree": tree}
    if viol is not None:
        viol = dict(viol)
        viol["config"] = sample
    return Result(outcome=obs, nontrivial=nontrivial(tree), validated=True, violation=viol, sample=sample,
                  canon=tree, evaluations=n, outcome_class=shape_class(tree))


def tree_fn(p):
    """levels: family, rotation, then tokens."""
    if len(p) == 0:
        return list(_FAM)
    f = _FAM[p[0]]
    if len(p) == 1:
        return f["rots"]
    return R.token_menu(p[2:], f["tokens"], f["nodes"], f["depth"])


def run(ctx):
    q = ctx.quick
    check_tree(R.parse_tokens(["M", "F(", "T", "C", ")", "K", "C"]))  # warm-up / import
    _FAM.clear()
    if q:
        _FAM["shapes"] = dict(tokens=SHAPE_TOKENS, nodes=6, depth=3, rots=[0])
        _FAM["shapes-rot"] = dict(tokens=SHAPE_TOKENS, nodes=5, depth=3, rots=[1, 2])
        _FAM["kinds"] = dict(tokens=KIND_TOKENS, nodes=4, depth=3, rots=[0])
    else:
        _FAM["shapes"] = dict(tokens=SHAPE_TOKENS, nodes=7, depth=4, rots=[0, 1, 2])
        _FAM["kinds"] = dict(tokens=KIND_TOKENS, nodes=6, depth=3, rots=[0])
    ctx.explore("trees", tree_fn, body, shard_depth=5, distinct_by_construction=False)
    ctx.bound(**{k: {"max_nodes": f["nodes"], "max_depth": f["depth"], "rotations": f["rots"],
                     "leaf_tokens": f["tokens"]} for k, f in _FAM.items()})
    ctx.note("'L' = non-compute leaf whose kind is (Memory, Toll, Container)[(index + rot) % 3]; every compute of "
             "every tree is queried three ways (all computes, by name on the evaluated spec, Arch._flatten on the raw tree)")


def replay(ctx, rec):
    tree = rec["config"]["tree"]
    exp, obs, viol, _ = check_tree(tree)
    return {"observed": (viol or {}).get("observed", obs), "expected": (viol or {}).get("expected", exp),
            "family": (viol or {}).get("family"), "violation": viol is not None}
