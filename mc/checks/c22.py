"""C22 - set expressions follow set algebra over each Einsum's tensors.

Alphabet: every workload of 1-3 chained Einsums over <= 4 tensors (1-2 inputs each, every
wiring) x 4 persistent-flag patterns; per (workload, Einsum) context the named sets All,
Tensors, Inputs, Outputs, Intermediates, Shared, Persistent, Nothing, every tensor name of the
workload, an Einsum-local rename and a top-level default rename; every expression tree of depth
<= 1 over all atoms in every context (fully parenthesised; with minimal parentheses in the
structurally distinct contexts; thorough: every spelling everywhere), every tree of depth <= 2
over 4-atom sub-alphabets in the contexts with distinct named-set structure, evaluated with the
real ``eval_set_expression`` on the real per-Einsum symbol table; the depth <= 1 trees also
through ``Spec._spec_eval_expressions`` in ``tensors.keep / may_keep / no_refetch_from_above /
no_resend_to_below``; dictionaries keyed by set expressions (ordered key sequences of <= 3 keys
from 6 expressions, with ``Other`` at every position or absent) through ``bits_per_value`` /
``values_per_action`` of a Memory, an action, and the workload; the workload-level
``persistent_tensors`` expression; a tensor name as the source of a rename.  Oracle: R-set
(mc/ref/setalg.py), frozenset algebra with complement inside the Einsum's tensors; ``Other`` =
everything not covered; overlapping keys must raise.

Mutation self-test (scratch copy /tmp/af-mut-c22 via VERIF_REPO, quick tier, copy removed
afterwards); families in addition to the two finding families listed below:
  M1 _setexpressions.InvertibleSet.__xor__ returns ``a | b``          -> CAUGHT, 26k violations
  M2 eval_set_expression_dict: overlap test disabled                  -> CAUGHT, 1860 violations
     (memory.bits_per_value|values_per_action/overlapping-keys-accepted[/with-Other])
  M3 workload.Einsum._eval_expressions: Intermediates uses ``or``     -> CAUGHT, 47k violations
     (atom=Intermediates, atom=rn, dictionary families)
  M4 eval_set_expression_dict: ``Other`` no longer shrinks            -> CAUGHT, 2822 violations
     (*/disjoint-dict-rejected/raise/with-Other)
  M5 InvertibleSet.__invert__: ``full_space ^ instance``              -> not caught: EQUIVALENT
     (instance is always a subset of full_space, so ^ equals -)

Findings on the unchanged tree (both triaged as genuine, each with its own family; a 10-line
candidate fix of workload.Einsum._eval_expressions makes this check silent):
  arch/Persistent-ignores-workload-persistent_tensors   the named set ``Persistent`` is built from the
      per-access flags *before* the workload-level ``persistent_tensors`` expression is applied, so
      the architecture sees ``Persistent`` without the tensors that expression marks persistent
      (the evaluated tensor accesses do carry persistent=True).
  rename-source/tensor-name-unused-by-einsum-undefined/{default,local}   a rename whose source is the
      name of a workload tensor the current Einsum does not use raises "name ... is not defined"
      instead of resolving to the empty set (the empty sets for foreign tensors are only added to the
      symbol table after the renames have been evaluated); a ``default`` rename naming a specific
      tensor therefore breaks every Einsum that does not use that tensor.
"""

from __future__ import annotations

import itertools

from mc.explorer import Result
from mc.ref import setalg as R

MANIFEST = {
    "text": "every depth<=1 set expression over all named sets (3 spellings) in every (workload, Einsum) "
            "context of the 1-3-Einsum / <=4-tensor workload family, every depth<=2 expression over 4-atom "
            "sub-alphabets in the structurally distinct contexts, and every ordered <=3-key dictionary with "
            "Other at every position, are run through the real eval_set_expression / Spec evaluation and "
            "compared with frozenset algebra; right level because the operators are pure functions of "
            "small finite sets, so small contexts and shallow trees exhaust their behaviour",
    "note": "trusted: Python frozenset, R-set (mc/ref/setalg.py: named-set definitions taken from the "
            "documentation). Not covered: rank-variable sets, .rank_variables / .bits_per_value accessors, "
            "'Above' and MemoryObject.tensors, conditional (if/else) expressions, depth > 2 in the quick tier",
    "technique": "bounded exhaustive input enumeration (explicit-state) vs reference model",
}

RULE = (
    "a configuration = (context, spelling, root operator, left sub-tree) evaluating the whole batch of "
    "right sub-trees (14 / 72 expressions per configuration, counted in `evaluations`), or one spec "
    "evaluation carrying 8 expressions / one dictionary; distinct by construction (products); "
    "NON-TRIVIAL = some expression of the batch evaluates to a set that is neither empty nor All "
    "(dictionaries: >= 2 keys and either an overlap or an Other key receiving a proper non-empty subset)"
)
ASSUMPTIONS = [
    "R-set (mc/ref/setalg.py) is the specification; named sets are as documented in "
    "docs/source/guide/parsing/evaluation.rst",
    "Python operator precedence is part of the documented syntax ('full Python syntax')",
    "workloads: <= 3 Einsums, <= 4 tensors, one output per Einsum, one shared rank; persistent given by "
    "per-access flags (the workload-level persistent_tensors expression is a separately reported phase)",
    "a workload-level bits_per_value dictionary that gives a shared tensor different values in two "
    "Einsums is outside the domain (the implementation requires consistency)",
]

T_NAMES = {"X0": "TX", "X1": "TY", "P0": "TP", "P1": "TQ", "P2": "TR"}
LOCAL_RENAME = ("rn", ("-", "Inputs", "Intermediates"))
DEFAULT_RENAME = ("dn", ("|", ("~", "Outputs"), "Shared"))
NAMED = ["All", "Tensors", "Inputs", "Outputs", "Intermediates", "Shared", "Persistent", "Nothing"]


# ----------------------------------------------------------------------------------
# workload family
# ----------------------------------------------------------------------------------

def workload_shapes(max_einsums=3, max_tensors=4, max_inputs=2):
    out = []

    def rec(einsums, tensors, n_ext):
        if einsums:
            out.append([dict(e) for e in einsums])
        if len(einsums) == max_einsums:
            return
        k = len(einsums)
        o = f"P{k}"
        new = [f"X{n_ext}", f"X{n_ext + 1}"]
        cand = list(tensors) + new
        for r in range(1, max_inputs + 1):
            for ins in itertools.combinations(cand, r):
                if new[1] in ins and new[0] not in ins:
                    continue
                used_new = [x for x in new if x in ins]
                nt = tensors + used_new + [o]
                if len(nt) > max_tensors:
                    continue
                rec(einsums + [dict(name=f"E{k}", inputs=list(ins), outputs=[o])], nt,
                    n_ext + len(used_new))

    rec([], [], 0)
    return out


def workloads():
    """-> list of R-set workload descriptions (tensor names mapped to TX, TY, TP, TQ, TR)."""
    out = []
    for shape in workload_shapes():
        es = [dict(name=e["name"], inputs=[T_NAMES[t] for t in e["inputs"]],
                   outputs=[T_NAMES[t] for t in e["outputs"]]) for e in shape]
        base = {"einsums": es}
        ts = R.all_tensors(base)
        ext = [t for t in ts if t in ("TX", "TY")]
        variants = [[], ext, [ts[-1]], [es[0]["outputs"][0]]]
        seen = []
        for p in variants:
            if sorted(p) in seen:
                continue
            seen.append(sorted(p))
            out.append({"einsums": es, "persistent": sorted(p)})
    return out


def contexts(wls):
    return [(w, i) for w in range(len(wls)) for i in range(len(wls[w]["einsums"]))]


def signature(wl, i):
    env, uni = R.named_sets(wl, i)
    regions = []
    for bits in itertools.product((0, 1), repeat=4):
        s = set(uni)
        for b, nm in zip(bits, ("Inputs", "Intermediates", "Shared", "Persistent")):
            s = s & env[nm] if b else s - env[nm]
        regions.append(len(s))
    return tuple(regions)


def distinct_contexts(wls, ctxs):
    seen, out = set(), []
    for c in ctxs:
        sg = signature(wls[c[0]], c[1])
        if sg not in seen:
            seen.add(sg)
            out.append(c)
    return out


# ----------------------------------------------------------------------------------
# building the real spec
# ----------------------------------------------------------------------------------

def _imports():
    from accelforge.frontend.spec import Spec
    from accelforge.frontend.arch import Memory, Compute
    from accelforge.util.exceptions import EvaluationError
    from accelforge.util._setexpressions import eval_set_expression, InvertibleSet
    from accelforge.frontend.renames import TensorName

    return Spec, Memory, Compute, EvaluationError, eval_set_expression, InvertibleSet, TensorName


def af_workload(wl, bits_per_value=None, persistent_tensors=None, local_extra=None):
    """local_extra: (einsum index, name, source text) -- one more Einsum-local rename"""
    pers = set(wl.get("persistent", ()))
    es = []
    for k, e in enumerate(wl["einsums"]):
        tas = [dict(name=t, projection=["m"], persistent=t in pers) for t in e["inputs"]]
        tas += [dict(name=t, projection=["m"], output=True, persistent=t in pers) for t in e["outputs"]]
        rn = {LOCAL_RENAME[0]: R.render(LOCAL_RENAME[1], "min")}
        if local_extra is not None and local_extra[0] == k:
            rn[local_extra[1]] = local_extra[2]
        es.append(dict(name=e["name"], tensor_accesses=tas, renames=rn))
    d = dict(rank_sizes={"M": 4}, bits_per_value=bits_per_value if bits_per_value is not None else {"All": 8},
             einsums=es)
    if persistent_tensors is not None:
        d["persistent_tensors"] = persistent_tensors
    return d


def af_renames(default_extra=None):
    d = {DEFAULT_RENAME[0]: R.render(DEFAULT_RENAME[1], "min")}
    if default_extra is not None:
        d[default_extra[0]] = default_extra[1]
    return dict(einsums=[dict(name="default", tensor_accesses=d)])


def mem(name, **kw):
    Memory = _imports()[1]
    return Memory(name=name, size=1, leak_power=0, area=0,
                  actions=kw.pop("actions", None) or [dict(name="read", energy=1, throughput=1),
                                                     dict(name="write", energy=1, throughput=1)], **kw)


def build_spec(wl, mems, default_extra=None, **wkw):
    Spec, _, Compute = _imports()[:3]
    return Spec(
        arch=dict(nodes=list(mems) + [Compute(name="MAC", leak_power=0, area=0,
                                              actions=[dict(name="compute", energy=1, throughput=1)])]),
        workload=af_workload(wl, **wkw),
        renames=af_renames(default_extra),
    )


def ref_env(wl, i):
    return R.named_sets(wl, i, renames=[LOCAL_RENAME, DEFAULT_RENAME])


def atoms_of(wl):
    return NAMED + R.all_tensors(wl) + [LOCAL_RENAME[0], DEFAULT_RENAME[0]]


_ST_CACHE: dict = {}


def real_symbol_table(wls, c):
    """The per-Einsum symbol table the architecture is evaluated with (spec.py: renames of the
    evaluated Einsum)."""
    if c not in _ST_CACHE:
        wl, i = wls[c[0]], c[1]
        name = wl["einsums"][i]["name"]
        ev = build_spec(wl, [])._spec_eval_expressions(einsum_name=name)
        _ST_CACHE[c] = {r.name: r.source for r in ev.workload.einsums[name].renames}
    return _ST_CACHE[c]


def eval_real(expr: str, st):
    """-> sorted list of tensors | 'raise:<Type>'"""
    _, _, _, _, eval_set_expression, InvertibleSet, TensorName = _imports()
    try:
        r = eval_set_expression(expr, st, TensorName, "c22")
        if not isinstance(r, InvertibleSet):
            return f"non-set:{type(r).__name__}"
        return sorted(r.instance)
    except Exception as e:
        return f"raise:{type(e).__name__}"


def root_of(tree):
    return "atom" if isinstance(tree, str) else tree[0]


def _subtrees(tree):
    """post-order (smallest first)"""
    if not isinstance(tree, str):
        for x in tree[1:]:
            yield from _subtrees(x)
    yield tree


def expr_family(tree, got, site, wl=None, i=None, st=None):
    """Names the smallest sub-expression that already evaluates wrongly on the real symbol table:
    ``<site>/wrong-set/atom=<name>`` or ``<site>/wrong-set/op=<operator>`` (or the exception)."""
    if isinstance(got, str):
        return f"{site}/set-expr-{got.split(':')[0]}/{got.split(':')[-1]}/root={root_of(tree)}"
    if st is not None:
        env, uni = ref_env(wl, i)
        for sub in _subtrees(tree):
            if eval_real(R.render(sub, "full"), st) != sorted(R.evaluate(sub, env, uni)):
                if isinstance(sub, str):
                    return f"{site}/wrong-set/atom={sub if sub in NAMED + ['rn', 'dn'] else 'tensor-name'}"
                return f"{site}/wrong-set/op={sub[0]}"
        return f"{site}/wrong-set/spelling-dependent/root={root_of(tree)}"
    return f"{site}/wrong-set/root={root_of(tree)}"


# ----------------------------------------------------------------------------------
# bodies
# ----------------------------------------------------------------------------------

STYLES = ["full", "min", "spaced"]


def batch_trees(kind, level):
    """kind: ('atoms',) | ('~',) | ('bin', op, left) -> list of trees over ``level``."""
    if kind[0] == "atoms":
        return list(level)
    if kind[0] == "~":
        return [("~", t) for t in level]
    _, op, left = kind
    return [(op, left, r) for r in level]


def check_batch(wls, c, style, trees, site):
    wl, i = wls[c[0]], c[1]
    env, uni = ref_env(wl, i)
    st = real_symbol_table(wls, c)
    viol = None
    nontriv = False
    outs = []
    for t in trees:
        exp = sorted(R.evaluate(t, env, uni))
        s = R.render(t, style)
        got = eval_real(s, st)
        outs.append(got if isinstance(got, str) else "".join(x[1] for x in got))
        if 0 < len(exp) < len(uni):
            nontriv = True
        if got != exp and viol is None:
            viol = {"observed": got, "expected": exp, "family": expr_family(t, got, site, wl, i, st),
                    "note": "eval_set_expression on the real symbol table != frozenset algebra",
                    "config": {"kind": "expr", "workload": wl, "einsum": i, "expr": s, "tree": t}}
    return outs, nontriv, viol


def spec_batch(wls, c, style, trees):
    """<= 8 expressions through Spec._spec_eval_expressions in 4 set-valued fields of 2 memories."""
    InvertibleSet = _imports()[5]
    wl, i = wls[c[0]], c[1]
    env, uni = ref_env(wl, i)
    fields = ["keep", "may_keep", "no_refetch_from_above", "no_resend_to_below"]
    strs = [R.render(t, style) for t in trees]
    mems = []
    for m in range(0, len(strs), 4):
        mems.append(mem(f"Mem{m // 4}", tensors={f: s for f, s in zip(fields, strs[m:m + 4])}))
    viol, nontriv, outs = None, False, []
    try:
        ev = build_spec(wl, mems)._spec_eval_expressions(einsum_name=wl["einsums"][i]["name"])
        gots = []
        for m in range(0, len(strs), 4):
            tz = ev.arch.find(f"Mem{m // 4}").tensors
            for f in fields[:len(strs[m:m + 4])]:
                v = getattr(tz, f)
                gots.append(sorted(v.instance) if isinstance(v, InvertibleSet) else f"not-evaluated:{v!r}"[:60])
    except Exception as e:
        gots = [f"raise:{type(e).__name__}"] * len(strs)
    for t, s, got in zip(trees, strs, gots):
        exp = sorted(R.evaluate(t, env, uni))
        outs.append(got if isinstance(got, str) else "".join(x[1] for x in got))
        if 0 < len(exp) < len(uni):
            nontriv = True
        if got != exp and viol is None:
            viol = {"observed": got, "expected": exp,
                    "family": expr_family(t, got, "arch-tensors-field", wl, i, real_symbol_table(wls, c)),
                    "note": "set expression in Memory.tensors.* evaluated by Spec != frozenset algebra",
                    "config": {"kind": "spec-expr", "workload": wl, "einsum": i, "exprs": strs,
                               "trees": list(trees), "style": style}}
    return outs, nontriv, viol


# -- dictionaries ------------------------------------------------------------------

def dict_key_alphabet(wl, i):
    t0 = wl["einsums"][i]["inputs"][0]
    return ["Inputs", "Outputs", "Intermediates", t0, ("-", "Inputs", t0), ("|", "Persistent", "Nothing")]


def dict_sequences(max_len):
    """ordered sequences of distinct key indexes (0..5) with 'O' (Other) at any position or absent"""
    out = []
    for L in range(max_len + 1):
        for seq in itertools.permutations(range(6), L):
            out.append(list(seq))
            for pos in range(L + 1):
                out.append(list(seq[:pos]) + ["O"] + list(seq[pos:]))
    return out


def run_dict(wl, i, site, seq):
    """-> (observed, expected, nontrivial).  observed/expected: {tensor: value} | 'raise'."""
    _, _, _, EvaluationError, _, _, _ = _imports()
    env, uni = ref_env(wl, i)
    keys = dict_key_alphabet(wl, i)
    items = [("Other", 99) if k == "O" else (keys[k], 10 + n) for n, k in enumerate(seq)]
    d = {(k if isinstance(k, str) else R.render(k, "spaced")): v for k, v in items}
    res = R.dict_assign(items, env, uni)
    name = wl["einsums"][i]["name"]
    nontriv = len(items) >= 2 and (res[0] == "overlap" or any(
        k == "Other" and 0 < len(res[2][n]) < len(uni) for n, (k, _) in enumerate(items)))
    validated = True
    if site == "workload.bits_per_value":
        # expected: every tensor of every Einsum needs a value; consistent across Einsums
        per = {}
        exp = None
        for j in range(len(wl["einsums"])):
            envj, unij = ref_env(wl, j)
            rj = R.dict_assign(items, envj, unij)  # the same written dict is used by every Einsum
            if rj[0] == "overlap" or set(rj[1]) != set(unij):
                exp = "raise"
                break
            for t, v in rj[1].items():
                if per.setdefault(t, v) != v:
                    validated = False  # inconsistent across Einsums: outside the domain
            if j == i:
                mine = rj[1]
        if exp is None:
            exp = dict(mine)
        try:
            ev = build_spec(wl, [], bits_per_value=d)._spec_eval_expressions(einsum_name=name)
            got = {t.name: t.bits_per_value for t in ev.workload.einsums[name].tensor_accesses}
        except Exception as e:
            got = "raise"
        return got, exp, nontriv, validated
    exp = "raise" if res[0] == "overlap" else dict(res[1])
    try:
        if site == "memory.bits_per_value":
            m = mem("Mem0", bits_per_value=d)
            ev = build_spec(wl, [m])._spec_eval_expressions(einsum_name=name)
            got = dict(ev.arch.find("Mem0").bits_per_value)
        elif site == "memory.values_per_action":
            m = mem("Mem0", values_per_action=d)
            ev = build_spec(wl, [m])._spec_eval_expressions(einsum_name=name)
            got = dict(ev.arch.find("Mem0").values_per_action)
        elif site == "action.values_per_action":
            m = mem("Mem0", actions=[dict(name="read", energy=1, throughput=1, values_per_action=d),
                                     dict(name="write", energy=1, throughput=1)])
            ev = build_spec(wl, [m])._spec_eval_expressions(einsum_name=name)
            got = dict(ev.arch.find("Mem0").actions["read"].values_per_action)
        else:
            raise ValueError(site)
        got = {str(k): v for k, v in got.items()}
    except EvaluationError:
        got = "raise"
    except Exception as e:
        got = f"raise:{type(e).__name__}"
    return got, exp, nontriv, validated


def dict_family(site, seq, got, exp):
    has_other = "O" in seq
    if exp == "raise":
        return f"{site}/overlapping-keys-accepted" + ("/with-Other" if has_other else "")
    if isinstance(got, str):
        return f"{site}/disjoint-dict-rejected/{got}" + ("/with-Other" if has_other else "")
    return f"{site}/wrong-assignment" + (f"/Other-at-{seq.index('O')}-of-{len(seq)}" if has_other else "")


# -- workload-level persistent_tensors ------------------------------------------------

PERSISTENT_EXPRS = [("-", "Inputs", "Intermediates"), "TX", "Shared"]


def run_persistent_expr(wl, i, pe):
    InvertibleSet = _imports()[5]
    pers = {}
    for j in range(len(wl["einsums"])):
        envj, unij = ref_env(wl, j)
        for t in unij:
            v = t in envj["Persistent"] or t in R.evaluate(pe, envj, unij)
            if pers.setdefault(t, v) != v:
                return None  # inconsistent across Einsums: outside the domain
    wl2 = {"einsums": wl["einsums"], "persistent": sorted(t for t, v in pers.items() if v)}
    env, uni = ref_env(wl2, i)
    trees = ["Persistent", ("~", "Persistent"), ("&", "Persistent", "Inputs"), ("-", "All", "Persistent")]
    exp = [sorted(R.evaluate(t, env, uni)) for t in trees]
    name = wl["einsums"][i]["name"]
    mems = [mem("Mem0", tensors=dict(zip(["keep", "may_keep", "no_refetch_from_above", "no_resend_to_below"],
                                         [R.render(t, "min") for t in trees])))]
    try:
        ev = build_spec(wl, mems, persistent_tensors=R.render(pe, "spaced"))._spec_eval_expressions(einsum_name=name)
        tz = ev.arch.find("Mem0").tensors
        got = []
        for f in ["keep", "may_keep", "no_refetch_from_above", "no_resend_to_below"]:
            v = getattr(tz, f)
            got.append(sorted(v.instance) if isinstance(v, InvertibleSet) else f"not-evaluated:{v!r}"[:60])
        flags = sorted(t.name for t in ev.workload.einsums[name].tensor_accesses if t.persistent)
    except Exception as e:
        got, flags = f"raise:{type(e).__name__}", None
    return got, exp, flags, sorted(env["Persistent"])


# -- a tensor name as the source of a rename -------------------------------------------

def run_rename_tensor(wl, i, t, site):
    """rename ``rq: <tensor name t>`` given in Einsum i's own renames ('local') or in the top-level
    default entry ('default').  Documentation: a tensor name resolves to the tensor, or to the
    empty set when the current Einsum does not use it.  -> (observed, expected, foreign)"""
    InvertibleSet = _imports()[5]
    env, uni = ref_env(wl, i)
    exp = sorted(env[t])
    name = wl["einsums"][i]["name"]
    foreign = (t not in uni) if site == "local" else any(t not in R.tensors_of(wl, j)
                                                         for j in range(len(wl["einsums"])))
    try:
        if site == "local":
            spec = build_spec(wl, [], local_extra=(i, "rq", t))
        else:
            spec = build_spec(wl, [], default_extra=("rq", t))
        ev = spec._spec_eval_expressions(einsum_name=name)
        v = {r.name: r.source for r in ev.workload.einsums[name].renames}.get("rq")
        got = sorted(v.instance) if isinstance(v, InvertibleSet) else f"not-a-set:{v!r}"[:60]
    except Exception as e:
        got = f"raise:{type(e).__name__}"
    return got, exp, foreign


# ----------------------------------------------------------------------------------

def make(wls, q):
    ctxs = contexts(wls)
    dctx = distinct_contexts(wls, ctxs)
    d2_ctx = dctx if not q else dctx[:8]
    spec_ctx = dctx[:12] if q else dctx
    dict_ctx = [c for c in dctx if len(wls[c[0]]["einsums"]) >= 2][:4 if q else 16]
    pers_ctx = [c for c in ctxs if not wls[c[0]]["persistent"] or wls[c[0]]["persistent"] == ["TR"]]

    def sub_alphabets(wl, i):
        ts = R.all_tensors(wl)
        e = wl["einsums"][i]
        t_in, t_out = e["inputs"][0], e["outputs"][0]
        t_other = next((t for t in ts if t not in e["inputs"] + e["outputs"]), ts[0])
        subs = [["All", "Inputs", "Nothing", t_in],
                ["Intermediates", "Shared", "Persistent", "rn"],
                ["Outputs", "dn", t_other, "Tensors"]]
        if not q:
            subs += [["Inputs", "Intermediates", "Persistent", t_out], ["Shared", "rn", "dn", "All"]]
        return subs

    d1_cache, seq_cache = {}, {}

    def d1(atoms):
        key = tuple(atoms)
        if key not in d1_cache:
            d1_cache[key] = R.trees(atoms, 1)
        return d1_cache[key]

    def kinds(level):
        return [("atoms",), ("~",)] + [("bin", op, l) for op in R.BINOPS for l in level]

    def tree(p):
        if len(p) == 0:
            return ["d1-all", "d2-sub", "spec-d1", "dict", "persistent-expr", "rename-tensor-name"]
        ph = p[0]
        if ph == "d1-all":
            if len(p) == 1:
                return ctxs
            if len(p) == 2:  # quick: the blank-separated minimal spelling only in the distinct contexts
                return (["full", "spaced"] if p[1] in dctx else ["full"]) if q else STYLES
            if len(p) == 3:
                return kinds(atoms_of(wls[p[1][0]]))
            return None
        if ph == "d2-sub":
            if len(p) == 1:
                return d2_ctx
            if len(p) == 2:
                return list(range(len(sub_alphabets(wls[p[1][0]], p[1][1]))))
            if len(p) == 3:
                return ["min"] if q else ["min", "full"]
            if len(p) == 4:
                atoms = sub_alphabets(wls[p[1][0]], p[1][1])[p[2]]
                lv = d1(atoms)
                return [("~",)] + [("bin", op, n) for op in R.BINOPS for n in range(len(lv))]
            return None
        if ph == "spec-d1":
            if len(p) == 1:
                return spec_ctx
            if len(p) == 2:
                return ["min"] if q else STYLES
            if len(p) == 3:
                n = len(R.trees(atoms_of(wls[p[1][0]]), 1))
                return list(range(0, n, 8))
            return None
        if ph == "dict":
            if len(p) == 1:
                return dict_ctx
            if len(p) == 2:
                return ["memory.bits_per_value", "memory.values_per_action", "action.values_per_action",
                        "workload.bits_per_value"]
            if len(p) == 3:
                ml = {"memory.bits_per_value": 3, "memory.values_per_action": 2,
                      "action.values_per_action": 1, "workload.bits_per_value": 2}[p[2]]
                if ml not in seq_cache:
                    seq_cache[ml] = dict_sequences(ml)
                return seq_cache[ml]
            return None
        if ph == "persistent-expr":
            if len(p) == 1:
                return pers_ctx
            if len(p) == 2:
                return list(range(len(PERSISTENT_EXPRS)))
            return None
        if ph == "rename-tensor-name":
            if len(p) == 1:
                return dctx
            if len(p) == 2:
                return R.all_tensors(wls[p[1][0]])
            if len(p) == 3:
                return ["local", "default"]
            return None
        raise ValueError(ph)

    def body(cfg):
        ph, c = cfg[0], cfg[1]
        wl, i = wls[c[0]], c[1]
        if ph == "d1-all":
            style, kind = cfg[2], cfg[3]
            trees = batch_trees(kind, atoms_of(wl))
            outs, nt, viol = check_batch(wls, c, style, trees, "eval_set_expression")
            return Result(outcome=(ph, outs), nontrivial=nt, violation=viol, evaluations=len(trees),
                          sample={"kind": "expr", "workload": wl, "einsum": i,
                                  "expr": R.render(trees[-1], style), "tree": trees[-1]},
                          outcome_class=f"{ph}:{kind[0]}")
        if ph == "d2-sub":
            sub, style, kind = cfg[2], cfg[3], cfg[4]
            lv = d1(sub_alphabets(wl, i)[sub])
            k2 = kind if kind[0] != "bin" else ("bin", kind[1], lv[kind[2]])
            trees = batch_trees(k2, lv)
            outs, nt, viol = check_batch(wls, c, style, trees, "eval_set_expression")
            return Result(outcome=(ph, outs), nontrivial=nt, violation=viol, evaluations=len(trees),
                          sample={"kind": "expr", "workload": wl, "einsum": i,
                                  "expr": R.render(trees[-1], style), "tree": trees[-1]},
                          outcome_class=f"{ph}:{kind[0]}")
        if ph == "spec-d1":
            style, start = cfg[2], cfg[3]
            trees = R.trees(atoms_of(wl), 1)[start:start + 8]
            outs, nt, viol = spec_batch(wls, c, style, trees)
            return Result(outcome=(ph, outs), nontrivial=nt, violation=viol, evaluations=1,
                          sample={"kind": "spec-expr", "workload": wl, "einsum": i, "style": style,
                                  "exprs": [R.render(t, style) for t in trees], "trees": list(trees)},
                          outcome_class=ph)
        if ph == "dict":
            site, seq = cfg[2], cfg[3]
            got, exp, nt, validated = run_dict(wl, i, site, seq)
            sample = {"kind": "dict", "workload": wl, "einsum": i, "site": site, "seq": seq}
            viol = None
            if validated and got != exp:
                viol = {"observed": got, "expected": exp, "family": dict_family(site, seq, got, exp),
                        "note": "dictionary keyed by set expressions != R-set assignment"}
            return Result(outcome=(ph, got if isinstance(got, str) else sorted(got.items())), nontrivial=nt,
                          validated=validated, violation=viol, sample=sample,
                          outcome_class=f"{ph}:{site}:" + ("raise" if exp == "raise" else "ok"))
        if ph == "persistent-expr":
            pe = PERSISTENT_EXPRS[cfg[2]]
            r = run_persistent_expr(wl, i, pe)
            sample = {"kind": "persistent-expr", "workload": wl, "einsum": i, "pexpr": cfg[2]}
            if r is None:
                return Result(outcome=(ph, "out-of-domain"), validated=False, sample=sample,
                              outcome_class=f"{ph}:out-of-domain")
            got, exp, flags, exp_flags = r
            viol = None
            if got != exp:
                fam = "arch/Persistent-ignores-workload-persistent_tensors" if flags == exp_flags else \
                    "workload/persistent_tensors-flags-wrong"
                viol = {"observed": {"sets": got, "persistent_flags": flags},
                        "expected": {"sets": exp, "persistent_flags": exp_flags}, "family": fam,
                        "note": "named set Persistent (seen from the architecture) differs from the tensors "
                                "the evaluated workload marks persistent"}
            return Result(outcome=(ph, got), nontrivial=bool(exp[0]) and bool(exp[3]), violation=viol,
                          sample=sample, outcome_class=ph)
        if ph == "rename-tensor-name":
            t, site = cfg[2], cfg[3]
            got, exp, foreign = run_rename_tensor(wl, i, t, site)
            sample = {"kind": "rename-tensor-name", "workload": wl, "einsum": i, "tensor": t, "site": site}
            viol = None
            if got != exp:
                fam = (f"rename-source/tensor-name-unused-by-einsum-undefined/{site}"
                       if isinstance(got, str) and got.startswith("raise") and foreign
                       else f"rename-source/tensor-name-wrong/{site}")
                viol = {"observed": got, "expected": exp, "family": fam,
                        "note": "a tensor name used as the source of a rename must resolve to the tensor, or to "
                                "the empty set in an Einsum that does not use it (evaluation.rst)"}
            return Result(outcome=(ph, got), nontrivial=foreign, violation=viol, sample=sample,
                          outcome_class=f"{ph}:{site}:" + ("foreign" if foreign else "own"))
        raise ValueError(ph)

    return tree, body, dict(n_workloads=len(wls), n_contexts=len(ctxs), n_distinct_structure=len(dctx),
                            d2_contexts=len(d2_ctx), spec_contexts=len(spec_ctx), dict_contexts=len(dict_ctx))


def run(ctx):
    wls = workloads()
    tree, body, info = make(wls, ctx.quick)
    # warm up: imports, schemas, one spec evaluation
    real_symbol_table(wls, (0, 0))
    _ST_CACHE.clear()
    ctx.explore("all", tree, body, shard_depth=3, distinct_by_construction=True)
    ctx.bound(max_einsums=3, max_tensors=4, max_inputs_per_einsum=2, tree_depth_all_atoms=1,
              tree_depth_sub_alphabets=2, sub_alphabet_size=4, dict_keys_max=3, dict_key_alphabet=6,
              spellings=STYLES, **info)
    ctx.note("phases: d1-all (all contexts), d2-sub, spec-d1 (through Spec evaluation), dict, persistent-expr, "
             "rename-tensor-name; see outcome_classes")


def replay(ctx, rec):
    cfg = rec["config"]
    wl, i = cfg["workload"], cfg["einsum"]
    wls = [wl]
    _ST_CACHE.clear()
    kind = cfg["kind"]
    if kind == "expr":
        tree = _tup(cfg["tree"])
        env, uni = ref_env(wl, i)
        exp = sorted(R.evaluate(tree, env, uni))
        got = eval_real(cfg["expr"], real_symbol_table(wls, (0, i)))
        return {"observed": got, "expected": exp, "violation": got != exp}
    if kind == "spec-expr":
        trees = [_tup(t) for t in cfg["trees"]]
        outs, nt, viol = spec_batch(wls, (0, i), cfg["style"], trees)
        return {"observed": viol and viol["observed"], "expected": viol and viol["expected"],
                "violation": viol is not None}
    if kind == "dict":
        got, exp, nt, validated = run_dict(wl, i, cfg["site"], cfg["seq"])
        return {"observed": got, "expected": exp, "violation": validated and got != exp}
    if kind == "rename-tensor-name":
        got, exp, foreign = run_rename_tensor(wl, i, cfg["tensor"], cfg["site"])
        return {"observed": got, "expected": exp, "violation": got != exp}
    if kind == "persistent-expr":
        r = run_persistent_expr(wl, i, PERSISTENT_EXPRS[cfg["pexpr"]])
        if r is None:
            return {"observed": None, "expected": None, "violation": False}
        got, exp, flags, exp_flags = r
        return {"observed": {"sets": got, "persistent_flags": flags},
                "expected": {"sets": exp, "persistent_flags": exp_flags}, "violation": got != exp}
    raise ValueError(kind)


def _tup(t):
    return t if isinstance(t, str) else tuple(_tup(x) for x in t)
