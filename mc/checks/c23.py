"""C23 - concise Einsum notation is equivalent to the verbose form; malformed strings rejected.

Alphabet: Einsums with 1-2 inputs (3, and 4 over a reduced alphabet, in the thorough tier),
every tensor carrying every 1-2 entry projection over the entry alphabet {a, b, P: a, A: a+b, B: 2*b} with unique ranks
(21 projections per tensor), three whitespace spellings (none / blanks around every token /
tabs and newlines); extra attributes merged through the ``einsum:`` key (every subset of
is_copy_operation, per-tensor bits_per_value, renames, n_instances).  Malformed strings:
every single-token deletion, duplication and replacement of a token from ``[ ] = , : *`` and
every deletion of a word token at every position of every valid 1-input string (no-blank and
blank-separated spelling) and of the 2-input strings over a reduced entry alphabet (no-blank
spelling), de-duplicated by text.
Oracle: ``Workload(einsums=[concise])`` == ``Workload(einsums=[verbose])`` on Einsum name,
tensor names and order, projections, output flags and merged attributes, where the verbose
form is produced by the generator (valid part) or by R-einsum (mc/ref/einsum.py, mutated
part); strings R-einsum rejects by a documented rule (R.REQUIRED) must raise.

Findings on the unchanged tree (all in the malformed part; the equivalence part holds):
  malformed-accepted/access-form:rhs-*   text of the right-hand side that is not NAME[...] is
      silently ignored by re.findall (unclosed / stray / nested brackets, bare names, brackets
      without a name): "O[a]=I0[a]*I1[a" parses as a ONE-input Einsum
  malformed-accepted/access-form:lhs-nested-or-unclosed-bracket   "O[B:2[b]=I0[a]" accepted
  malformed-accepted/unique-ranks:duplicate-rank-shorthand-entry  "O[a]=I0[B:2,b]" -> {B: b}
  malformed-accepted/empty-entry:empty-rank-expression            "O[a]=I0[P:]" -> {P: ""}
A four-hunk candidate fix of workload.py (bracket-free projection pattern + left-over check of
the right-hand side + the two missing checks in _parse_projection) makes this check silent.

Mutation self-test (scratch copy /tmp/af-mut-c23 via VERIF_REPO, quick tier, copy removed
afterwards); new families in addition to the finding families above:
  M1 _parse_einsum_string: whitespace removal ``re.sub(r"\\s+", "", ..)`` dropped -> CAUGHT
     (valid-concise-rejected/ValueError 19614, concise-differs-from-verbose/projection 340,
     attrs/valid-concise-rejected 7056)
  M2 _parse_einsum_entry: extra tensor attribute not merged (``name2access[name][k] = v``
     removed)                                  -> CAUGHT (attrs/concise-differs-from-verbose/
     tensor-attribute 7056)
  M3 _parse_projection: rank-name lower-case check removed -> not caught: EQUIVALENT at the
     observation point (TensorAccess/_projection_factory repeats the check)
  M3b _parse_projection: shorthand upper-case check removed -> CAUGHT
     (malformed-accepted/capitalisation:shorthand-variable-uppercase 3858)
  M4 _parse_einsum_string: ``n != 1`` equals test weakened to ``n < 1`` -> CAUGHT
     (malformed-accepted/equals:2-equals-signs 7242)
"""

from __future__ import annotations

import itertools

from mc.explorer import Result
from mc.ref import einsum as R

MANIFEST = {
    "text": "every Einsum of the bounded family (1-2 inputs, 21 projections per tensor, 3 whitespace "
            "spellings, all 16 extra-attribute subsets) is built from its concise string and from its verbose "
            "dict with the real Workload class and compared field by field; every single-token "
            "deletion/duplication/replacement of a punctuation token of every valid base string is "
            "classified by a recogniser of the documented grammar and must raise when a documented rule "
            "is broken; right level because the parser is a pure string function whose branches are all "
            "reached by short strings",
    "note": "trusted: R-einsum (mc/ref/einsum.py) as the reading of the documented grammar. Rules the "
            "documentation does not state (exactly one '*' between inputs, expression syntax, 0-rank "
            "tensors) are classified but never demanded; tensor names and rank variables are plain ASCII "
            "identifiers; <= 2 entries per tensor",
    "technique": "bounded exhaustive input enumeration (explicit-state) vs reference model",
}

RULE = (
    "valid part: a configuration = (number of inputs, projection of every tensor, whitespace spelling"
    "[, attribute subset]); distinct by construction; mutated part: a configuration = one mutated "
    "string, distinct = distinct text (hash set); NON-TRIVIAL = valid Einsum with at least one "
    "'Rank: expression' entry (so the concise and verbose projections have different shapes), or a "
    "mutated string that R-einsum rejects by a documented rule"
)
ASSUMPTIONS = [
    "R-einsum (mc/ref/einsum.py) is the specification of the documented concise grammar",
    "whitespace is insignificant inside the concise string (the verbose projection expressions are "
    "written without blanks)",
    "only the rules in R.REQUIRED must be rejected; 'separator', 'expr-syntax', 'empty-projection', "
    "'adjacent-words', 'lhs-extra', 'duplicate-tensor' strings are out of the domain (counted, not judged)",
]

ENTRIES = [("s", "a"), ("s", "b"), ("r", "P", "a"), ("r", "A", "a+b"), ("r", "B", "2*b")]
STYLES = ["none", "spaced", "tabs"]
IN_NAMES = ["I0", "I1", "I2", "I3"]


def rank_of(e):
    return e[1].upper() if e[0] == "s" else e[1]


def entry_lists(entries=ENTRIES, max_len=2):
    out = []
    for L in range(1, max_len + 1):
        for combo in itertools.permutations(range(len(entries)), L):
            ranks = [rank_of(entries[i]) for i in combo]
            if len(set(ranks)) == len(ranks):
                out.append([entries[i] for i in combo])
    return out


ELISTS = entry_lists()
ELISTS_SMALL = entry_lists([("s", "a"), ("r", "P", "a"), ("r", "B", "2*b")], 2)


# ----------------------------------------------------------------------------------
# rendering (generator side; independent of R-einsum)
# ----------------------------------------------------------------------------------

def entry_tokens(e):
    if e[0] == "s":
        return [e[1]]
    toks = [e[1], ":"]
    # expression tokens: split "2*b" at "*" (a punctuation token of the notation)
    parts = e[2].split("*")
    for k, p in enumerate(parts):
        if k:
            toks.append("*")
        toks.append(p)
    return toks


def access_tokens(name, elist):
    toks = [name, "["]
    for k, e in enumerate(elist):
        if k:
            toks.append(",")
        toks += entry_tokens(e)
    toks.append("]")
    return toks


def einsum_tokens(out_el, in_els):
    toks = access_tokens("O", out_el) + ["="]
    for k, el in enumerate(in_els):
        if k:
            toks.append("*")
        toks += access_tokens(IN_NAMES[k], el)
    return toks


def join(toks, style):
    if style == "none":
        return "".join(toks)
    if style == "spaced":
        return " ".join(t.replace("+", " + ") for t in toks)
    if style == "tabs":
        out = "\t"
        for t in toks:
            out += t + ("\t" if t in ("=", "*", ",") else (" \n " if t == ":" else ""))
        return out + " \n"
    raise ValueError(style)


def verbose_access(name, elist, output=False):
    if all(e[0] == "s" for e in elist):
        proj = [e[1] for e in elist]
    else:
        proj = {rank_of(e): (e[1] if e[0] == "s" else e[2]) for e in elist}
    d = {"name": name, "projection": proj}
    if output:
        d["output"] = True
    return d


def verbose_einsum(out_el, in_els):
    tas = [verbose_access(IN_NAMES[k], el) for k, el in enumerate(in_els)]
    tas.append(verbose_access("O", out_el, output=True))
    return {"name": "O", "tensor_accesses": tas}


ATTRS = ["is_copy_operation", "bits_per_value", "renames", "n_instances"]


def with_attrs(concise: str, verbose: dict, subset):
    """-> (concise entry using the `einsum:` key, verbose entry) carrying the same extra attributes."""
    import copy

    c = {"einsum": concise}
    v = copy.deepcopy(verbose)
    if "is_copy_operation" in subset:
        c["is_copy_operation"] = True
        v["is_copy_operation"] = True
    if "bits_per_value" in subset:
        c["tensor_accesses"] = [{"name": "I0", "bits_per_value": 16}]
        v["tensor_accesses"][0]["bits_per_value"] = 16
    if "renames" in subset:
        c["renames"] = {"input": "I0", "output": "O"}
        v["renames"] = {"input": "I0", "output": "O"}
    if "n_instances" in subset:
        c["n_instances"] = 3
        v["n_instances"] = 3
    return c, v


# ----------------------------------------------------------------------------------
# driving the implementation
# ----------------------------------------------------------------------------------

def _Workload():
    from accelforge.frontend.workload import Workload

    return Workload


def observe(entry):
    """Build a Workload from one einsum entry (string or dict) -> canonical observation."""
    import copy

    try:
        w = _Workload()(einsums=[copy.deepcopy(entry)])
    except Exception as e:
        return {"raise": type(e).__name__}
    if len(w.einsums) != 1:
        return {"n_einsums": len(w.einsums)}
    e = w.einsums[0]
    return {
        "name": e.name,
        "tensors": [[t.name, [[k, v] for k, v in t.projection.items()], bool(t.output),
                     t.bits_per_value, bool(t.persistent)] for t in e.tensor_accesses],
        "is_copy_operation": e.is_copy_operation,
        "n_instances": e.n_instances,
        "renames": [[r.name, str(r.source), r.expected_count] for r in e.renames],
    }


def first_difference(a, b):
    if "raise" in a or "raise" in b:
        return "raise"
    for k in ("name", "tensors", "is_copy_operation", "n_instances", "renames"):
        if a.get(k) != b.get(k):
            if k == "tensors":
                na, nb = [t[0] for t in a[k]], [t[0] for t in b[k]]
                if na != nb:
                    return "tensor-names"
                if [t[1] for t in a[k]] != [t[1] for t in b[k]]:
                    return "projection"
                if [t[2] for t in a[k]] != [t[2] for t in b[k]]:
                    return "output-flag"
                return "tensor-attribute"
            return k
    return None


def check_valid(concise_entry, verbose_entry):
    """-> (observed, expected, family|None)"""
    exp = observe(verbose_entry)
    got = observe(concise_entry)
    if "raise" in exp:
        return got, exp, None  # the verbose form itself is rejected: not a C23 question
    if got == exp:
        return got, exp, None
    if "raise" in got:
        return got, exp, f"valid-concise-rejected/{got['raise']}"
    return got, exp, f"concise-differs-from-verbose/{first_difference(got, exp)}"


def judge_string(s: str):
    """Any string: classify with R-einsum, run the implementation.
    -> dict(observed, expected, family|None, validated, cls)"""
    r = R.parse(s)
    got = observe(s)
    if r[0] == "ok":
        exp = observe(r[1])
        fam = None
        if "raise" not in exp and got != exp:
            fam = (f"valid-concise-rejected/{got['raise']}" if "raise" in got
                   else f"concise-differs-from-verbose/{first_difference(got, exp)}")
        return dict(observed=got, expected=exp, family=fam, validated="raise" not in exp, cls="ok")
    rule, detail = r[1], r[2]
    if rule not in R.REQUIRED:
        return dict(observed=got, expected={"unspecified": rule}, family=None, validated=False,
                    cls=f"unspecified:{rule}:" + ("raise" if "raise" in got else "accepted"))
    fam = None
    if "raise" not in got:
        fam = f"malformed-accepted/{rule}:{detail}"
    return dict(observed=got, expected={"raise": f"any error ({rule}: {detail})"}, family=fam,
                validated=True, cls=f"malformed:{rule}")


# ----------------------------------------------------------------------------------
# mutation alphabet
# ----------------------------------------------------------------------------------

def mutants(toks):
    """single-token deletion / duplication / replacement of punctuation tokens, and deletion of
    a word token (tensor name, rank name, variable, expression operand)"""
    out = []
    for i, t in enumerate(toks):
        if len(t) == 1 and t in R.PUNCT:
            out.append(("del", i, None, toks[:i] + toks[i + 1:]))
            out.append(("dup", i, None, toks[:i + 1] + [t] + toks[i + 1:]))
            for p in R.PUNCT:
                if p != t:
                    out.append(("rep", i, p, toks[:i] + [p] + toks[i + 1:]))
        else:
            out.append(("delword", i, None, toks[:i] + toks[i + 1:]))
    return out


# ----------------------------------------------------------------------------------

def make(q):
    n_max = 2 if q else 4
    attr_subsets = [list(c) for r in range(len(ATTRS) + 1) for c in itertools.combinations(ATTRS, r)]
    bases_1 = [(o, (i0,)) for o in range(len(ELISTS)) for i0 in range(len(ELISTS))]
    small = [ELISTS.index(el) for el in ELISTS_SMALL]
    bases_2 = [(o, (i0, i1)) for o in small for i0 in small for i1 in small]

    def tree(p):
        if len(p) == 0:
            return ["valid", "attrs", "scalar", "mutated"]
        ph = p[0]
        if ph == "valid":
            # levels: n_in, out projection, input projections..., style
            if len(p) == 1:
                return list(range(1, n_max + 1))
            n_in = p[1]
            if len(p) < 3 + n_in:
                if n_in == 4 and len(p) >= 3:
                    return small  # 4 inputs: reduced projection alphabet for the inputs
                return list(range(len(ELISTS)))
            if len(p) == 3 + n_in:
                return STYLES
            return None
        if ph == "attrs":
            if len(p) == 1:
                return list(range(len(ELISTS)))
            if len(p) == 2:
                return list(range(len(ELISTS)))
            if len(p) == 3:
                return list(range(len(attr_subsets)))
            if len(p) == 4:
                return ["none", "spaced"]
            return None
        if ph == "scalar":
            # 0-rank tensors: the notation has no spelling the parser accepts (documented by its
            # own test-suite); counted as outside the domain
            if len(p) == 1:
                return ["O[]=I0[a]", "O[a]=I0[]", "O[]=I0[]", "O[ ] = I0[a] * I1[ ]"]
            return None
        if ph == "mutated":
            if len(p) == 1:
                return ["none", "spaced"]
            if len(p) == 2:  # the 2-input bases only in the no-blank spelling
                return list(range(len(bases_1) + (len(bases_2) if p[1] == "none" else 0)))
            if len(p) == 3:
                b = (bases_1 + bases_2)[p[2]]
                toks = einsum_tokens(ELISTS[b[0]], [ELISTS[i] for i in b[1]])
                return list(range(len(mutants(toks))))
            return None
        raise ValueError(ph)

    def body(cfg):
        ph = cfg[0]
        if ph == "valid":
            n_in = cfg[1]
            out_el = ELISTS[cfg[2]]
            in_els = [ELISTS[i] for i in cfg[3:3 + n_in]]
            style = cfg[3 + n_in]
            s = join(einsum_tokens(out_el, in_els), style)
            v = verbose_einsum(out_el, in_els)
            got, exp, fam = check_valid(s, v)
            # harness self-check: R-einsum must read the generator's strings as the generator's verbose
            r = R.parse(s)
            if r != ("ok", v):
                raise AssertionError(f"R-einsum disagrees with the generator on {s!r}: {r} vs {v}")
            nt = any(e[0] == "r" for el in [out_el] + in_els for e in el)
            viol = None
            if fam:
                viol = {"observed": got, "expected": exp, "family": fam,
                        "note": "Workload(concise) != Workload(verbose)"}
            return Result(outcome=got, nontrivial=nt, violation=viol, validated="raise" not in exp,
                          evaluations=2, sample={"kind": "pair", "concise": s, "verbose": v},
                          outcome_class="valid")
        if ph == "attrs":
            out_el, in_el, subset, style = ELISTS[cfg[1]], ELISTS[cfg[2]], attr_subsets[cfg[3]], cfg[4]
            s = join(einsum_tokens(out_el, [in_el]), style)
            c, v = with_attrs(s, verbose_einsum(out_el, [in_el]), subset)
            got, exp, fam = check_valid(c, v)
            viol = None
            if fam:
                viol = {"observed": got, "expected": exp, "family": "attrs/" + fam,
                        "note": "einsum: key + extra attributes != verbose entry with the same attributes"}
            return Result(outcome=got, nontrivial=bool(subset), violation=viol, validated="raise" not in exp,
                          evaluations=2, sample={"kind": "pair", "concise": c, "verbose": v},
                          outcome_class="attrs")
        if ph == "scalar":
            j = judge_string(cfg[1])
            return Result(outcome=j["observed"], validated=False, sample={"kind": "string", "string": cfg[1]},
                          outcome_class="scalar:" + ("raise" if "raise" in j["observed"] else "accepted"))
        if ph == "mutated":
            style = cfg[1]
            b = (bases_1 + bases_2)[cfg[2]]
            toks = einsum_tokens(ELISTS[b[0]], [ELISTS[i] for i in b[1]])
            kind, pos, rep, mt = mutants(toks)[cfg[3]]
            s = join(mt, style)
            j = judge_string(s)
            viol = None
            if j["family"]:
                viol = {"observed": j["observed"], "expected": j["expected"], "family": j["family"],
                        "note": f"mutation {kind} of token #{pos} {toks[pos]!r}" + (f" -> {rep!r}" if rep else "")
                                + f" of {join(toks, style)!r}"}
            return Result(outcome=j["observed"], nontrivial=j["cls"].startswith("malformed"),
                          violation=viol, validated=j["validated"], canon=s, evaluations=1,
                          sample={"kind": "string", "string": s}, outcome_class="mutated:" + j["cls"])
        raise ValueError(ph)

    info = dict(n_inputs_max=n_max, projections_per_tensor=len(ELISTS), entry_alphabet=[list(e) for e in ENTRIES],
                whitespace=STYLES, attr_subsets=len(attr_subsets), mutated_bases=len(bases_1) + len(bases_2),
                mutation_ops=["delete", "duplicate", "replace-by-each-other-punctuation", "delete-word"],
                punctuation=R.PUNCT)
    return tree, body, info


def run(ctx):
    tree, body, info = make(ctx.quick)
    observe("O[a] = I0[a]")  # warm-up (imports, pydantic schemas)
    ctx.explore("all", tree, body, shard_depth=3, distinct_by_construction=False)
    ctx.bound(**info)
    ctx.note("outcome_classes: valid / attrs = equivalence pairs; mutated:ok = mutants that are valid strings "
             "(compared with R-einsum's verbose form); mutated:malformed:<rule> must raise; "
             "mutated:unspecified:<rule>:<raise|accepted> and scalar:* are outside the documented rules "
             "(counted, not judged)")


def replay(ctx, rec):
    cfg = rec["config"]
    if cfg["kind"] == "pair":
        got, exp, fam = check_valid(cfg["concise"], cfg["verbose"])
        return {"observed": got, "expected": exp, "violation": fam is not None}
    j = judge_string(cfg["string"])
    return {"observed": j["observed"], "expected": j["expected"], "violation": j["family"] is not None}
