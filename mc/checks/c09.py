"""C09 — symbolic sign / monotonicity verdicts hold at every integer point of the box.

Implementation under test: ``geq_leq_zero`` / ``diff_geq_leq_zero`` (with ``_compare_to_zero``,
``partition_heaviside``, ``function_range``, ``ComparisonResult.__or__`` and the
``MinMaxBase._is_connected`` patch) of make_tile_shapes.py.  Reference: mc/ref/signmono.py
(exact ``Fraction`` evaluation of the formula at every integer point of the box).

Phases (all bounded-exhaustive, no sampling):

combine           every pair of the 4 verdicts through ``ComparisonResult.__or__``; the result's sign set
                  must cover both operands' (the operator is dead code today, it is the documented combiner).
minmax-construct  ``sympy.Max/Min(x, y)`` for every pair of depth<=1 terms over {a,b,1,2,3}, built while the
                  module's ``_is_connected`` patch is installed, must equal max/min pointwise on [1,4]^2.
harvested (a)     spec family (spec_family()): one matmul Einsum on examples/arches/simple.yaml and on a generated
                  3-level arch with a 4-wide fanout and finite throughputs (needed for a Max in the latency and for
                  >= 1000 partial tile shapes, the only path that hands energy/latency terms to the comparator),
                  rank bounds {4,5,6,10,12}, energy+latency, imperfect factorisation off/on.  ``make_tile_shapes``
                  runs on every template job with spies (module attributes rebound at run time, caches cleared per
                  shard) on geq_leq_zero, diff_geq_leq_zero and _is_connected.  Every distinct captured
                  (call, formula, symbol, box, flag, verdict) is judged on its real box (symbol, 1, rank bound):
                  every integer point; at most 12 points per axis; boxes above 4096 points use a deterministic
                  sub-grid (outcome class suffix ``|subgrid``).
synthetic (b)     kinds in scope = constructor kinds seen in (a) in the same run (Add, Mul, reciprocal, ceiling, Max,
                  Heaviside on the unchanged tree; Min is never handed to the comparator and is therefore skipped).
                  quick: every tree of depth <= 2 over {a,b,1,2} plus depth-3 ``X op Y`` (X a step term:
                  ceiling(quotient) / Max(leaf,leaf) / Heaviside(leaf +- leaf); Y a monomial; op in - *; both
                  orders) over {a,b,1,2,3}, box hi=4.  thorough: depth <= 2 over {a,b,1,2,3} on every box
                  lo=1, hi in {1..4} per symbol, depth 3 = every ``X op Y`` with X, Y in T2 (monomials, sums,
                  step terms of depth <= 2), every binary op, hi in {2,3,4}.  Calls per (formula, box):
                  sign, sign with terms_do_not_cross_zero=True, derivative per free symbol.

Oracle: ">= 0" / "<= 0" / "= 0" must hold at every integer point; for a derivative verdict f must be
non-decreasing / non-increasing / constant along the symbol on consecutive integers with the other symbols at
every point of their boxes (and for step-free f the exact df/ds, by dual numbers, must have the sign at every
integer point).  UNKNOWN is always fine; an exception is an outcome class ("exception:<Type>"), never a violation;
flag=True verdicts are judged only if every sub-expression is single-signed on the box ("promise-false" otherwise).
Violation families: ``<origin>/<check>/<step pattern>/<claimed verdict>`` e.g. ``synthetic/deriv-mono/sym*ceil(c/s)/eq0``.

FINDINGS on the unchanged tree (all reproduced by replay; none exhibited by a harvested call of the spec family):
 A  ceiling(x) is replaced by x before the analysis (_compare_to_zero l.206-210):
    geq_leq_zero(ceiling(2/a) - 2/a, a in [1,4]) -> "= 0" (value 1/2 at a=4);
    diff_geq_leq_zero(a*ceiling(3/a), a) -> "= 0" although f = 3,4,3,4.        families */ceil(*)/*, */sym*ceil(*)/*
 B  partition_heaviside tries all-steps=1 and all-steps=0 only (l.143-146, 215-216):
    diff_geq_leq_zero(Max(1/b, b-3), b in [1,2]) -> ">= 0" although f = 1, 1/2.              synthetic/deriv-mono/Max/*
 C  sympy function_range with another free symbol returns Interval(x, y) with unordered endpoints and
    .left/.right are trusted as min/max (l.262-268): geq_leq_zero(-a*b+a+b, [1,4]^2) -> ">= 0" (value -8 at (4,4));
    geq_leq_zero((1-b)*(3-a)) -> "= 0".                                                       synthetic/sign/rational/*
 D  with terms_do_not_cross_zero an inconclusive "may be < 0" becomes ALWAYS_LEQ (l.295-296, 300-301):
    geq_leq_zero(Max(a,b) - a, [1,4]^2, True) -> "<= 0" (value 3 at (1,4)).                  synthetic/sign-tdncz/Max/leq0
 E  _is_connected_cached swaps the operands for its second pass without swapping the (Max, Min) answer (l.85):
    sympy.Max(3*a, a+2) is built as a+2, Max(2, 3-a) as 3-a.                                  minmax-construct/*
 Also seen (outcome classes): AttributeError "'int' object has no attribute 'doit'" for d/da Max(a, b) and
 geq_leq_zero(Heaviside(a-b)); TypeError for flag=True on Max(a,b)/(a-b); a few RecursionErrors.

Mutation self-test (scratch copies /tmp/af-mut-c09/m*, removed afterwards).  Because the box was saturated (load
> 300) the mutants were run single-process with this module's own bodies on a sub-family: harvest = simple-M6-KN4
perfect, simple-M5-KN4 imperfect and every 8th template of pe-M4-KN4, pe-M12-KN12 perfect/imperfect (thr 1,1,1);
synthetic = every 10th quick formula; minmax = every 3rd term.  New families relative to the unchanged tree:
 m1 f_range.left/right swapped                        caught by (b) (synthetic/sign/rational/eq0 x91, ...); not by (a)
 m2 min_check/max_check swapped                       caught by (b) (synthetic/sign/Max/leq0, sign/rational/eq0); not by (a)
 m3 (ALWAYS_EQUAL_TO_ZERO | x) -> ALWAYS_EQUAL_TO_ZERO  caught by combine only (dead code for (a), (b))
 m4 "not f <= 0" -> "not f >= 0" (lost sign flip)      caught by (a) harvested/sign/rational/eq0, harvested/deriv-mono/rational/eq0 and (b)
 m5 flag path: min_f < 0 reported ">= 0"               caught by (b) synthetic/sign-tdncz/*/geq0; not by (a) (real flag=True factors are positive)
 m6 final LEQ/GEQ answers swapped                      caught by (a) harvested/{sign,deriv-mono}/rational/{geq0,leq0} and (b)
 m7 _is_connected_cached Max/Min swapped               caught by (a) harvested/minmax-connected/Min and minmax-construct
All five proposed patches applied together to a scratch copy: 0 violations on minmax-construct (every 3rd term) and
on every 10th quick synthetic formula (the harvested re-check of the patched copy did not finish under load).

Runs (unchanged tree, quick, seed 0): 28073 configurations (16 + 6272 + 1235 harvested + 20550 synthetic), 24148
validated, 15795 non-trivial, 78 outcomes, 283 violations in 26 families (0 harvested), exhaustive, no harness
error; 8 specs / 832 template jobs / 18939 captured comparator calls.  Wall 26 min at load ~150 and 131 min at load
~400 (80 CPU-min, half of it kernel time for copy-on-write faults in the forked workers of this VM); the seed only
rotates shard order.  Seeds 1, 7 and the thorough tier could not be run to completion on the saturated box.
"""

from __future__ import annotations

import copy
import importlib
import itertools
import os
import time
from fractions import Fraction

import sympy

from mc.explorer import Result, pmap
from mc.ref import signmono as R

MANIFEST = {
    "text": "every (formula, symbol, box) triple the mapper really passes to geq_leq_zero / diff_geq_leq_zero (and every "
            "Max/Min argument-dropping decision of the patched _is_connected) on a family of small matmul specs, and "
            "every synthetic expression tree of the stated depth-bounded families built from the harvested constructor "
            "kinds over boxes [1,hi], hi<=4, is re-evaluated in exact rationals at every integer point of its box and "
            "the returned verdict is checked pointwise (monotonicity along the symbol for derivative verdicts); right "
            "level because the comparator is a pure function of small symbolic inputs",
    "note": "trusted: python Fractions, the R-signmono evaluator; harvested boxes with more than 4096 points are "
            "checked on a deterministic sub-grid; synthetic depth 3 is a typed sub-family, not all trees; quick tier "
            "uses the single box hi=4 and depth<=2 over {a,b,1,2}",
    "technique": "bounded exhaustive input enumeration (explicit-state) vs reference model",
}

RULE = (
    "harvested: every distinct (call, formula, symbol, box restricted to the formula's symbols, flag, verdict) captured "
    "by spying geq_leq_zero / diff_geq_leq_zero / MinMaxBase._is_connected during make_tile_shapes of every template "
    "job of the spec family; synthetic: every distinct sympy expression of the stated tree families x every box x "
    "every call (sign, sign with terms_do_not_cross_zero, derivative per free symbol); minmax-construct: every "
    "Max/Min of two depth<=1 terms; combine: every pair of verdicts; non-trivial = the comparator returned a "
    "definite verdict (not unknown / exception) on a box with at least two integer points (minmax-construct: an "
    "argument was dropped; combine: two different verdicts)"
)
ASSUMPTIONS = [
    "python fractions.Fraction arithmetic; sympy Float leaves denote their exact binary rational",
    "R-signmono (mc/ref/signmono.py) is the specification of the value of a formula at an integer point",
    "the box handed to the comparator is (symbol, 1, rank bound) per tile-shape symbol (SymbolRelations.make_bounds); "
    "the property is demanded at every integer of it, not only at the divisors the mapper later enumerates",
    "a derivative verdict means: f is monotone (>=0: non-decreasing, <=0: non-increasing, =0: constant) along the "
    "symbol on consecutive integers of its box with the other symbols fixed at every point of theirs, and, for "
    "step-free formulas, the exact partial derivative has that sign at every integer point",
    "terms_do_not_cross_zero=True verdicts are checked only when every sub-expression of the formula is "
    "single-signed over the integer points of the box",
    "an exception raised by the comparator is an outcome class, not a verdict",
    "a synthetic formula is in scope iff all its constructor kinds (Add, Mul, reciprocal power, ceiling, Max, Min, "
    "Heaviside) occur in some formula captured by the harvest of the same run",
    "sympy.Max/Min(x, y) built while the module's _is_connected patch is installed denotes the pointwise max/min",
    "spec family: single matmul Einsum on examples/arches/simple.yaml and a generated 3-level arch with a spatial "
    "fanout and finite throughputs; rank bounds from {4,5,6,10,12} (thorough: also 2,7); energy+latency; imperfect "
    "factorisation off and on",
]

REPO = os.environ.get("VERIF_REPO", "/repo")

VERD = {
    "ALWAYS_GEQ_THAN_ZERO": "geq0",
    "ALWAYS_LEQ_THAN_ZERO": "leq0",
    "ALWAYS_EQUAL_TO_ZERO": "eq0",
    "UNKNOWN": "unknown",
}

CAPS = dict(cap_axis=12, cap_total=4096)
CAPS_DERIV = dict(cap_axis=12, cap_total=1024)  # exact df/ds with dual numbers is ~5x dearer per point


def _mts():
    return importlib.import_module(
        "accelforge.mapper.FFM._make_pmappings.make_pmappings_from_templates.make_tile_shapes")


# ======================================================================================
# spec family for the harvest
# ======================================================================================

ARCH_PE = """
arch:
  nodes:
  - !Memory
    name: MainMemory
    size: inf
    leak_power: 0
    area: 0
    tensors: {keep: ~Intermediates, may_keep: All}
    actions:
    - {name: read, energy: 8, throughput: {{MMThr}}}
    - {name: write, energy: 8, throughput: {{MMThr}}}

  - !Memory
    name: GlobalBuffer
    size: {{GlobalBufferSize}}
    leak_power: 1
    area: 0
    tensors: {keep: ~MainMemory, may_keep: All}
    actions:
    - {name: read, energy: 2, throughput: {{GBThr}}}
    - {name: write, energy: 2, throughput: {{GBThr}}}

  - !Container
    name: PEArray
    spatial:
    - name: X
      fanout: {{Fanout}}

  - !Memory
    name: RegFile
    size: {{RegFileSize}}
    leak_power: 0
    area: 0
    tensors: {keep: ~GlobalBuffer, may_keep: All}
    actions:
    - {name: read, energy: 1, throughput: {{RFThr}}}
    - {name: write, energy: 1, throughput: {{RFThr}}}

  - !Compute
    name: MAC
    leak_power: 0
    area: 0
    actions:
    - {name: compute, energy: 1, throughput: 1}
"""


def spec_family(quick: bool):
    S = []

    def simple(M, KN, imp, gb="inf", thr="inf"):
        S.append({"name": f"simple-M{M}-KN{KN}-imp{int(imp)}-gb{gb}-thr{thr}", "arch": "simple", "M": M, "KN": KN,
                  "imperfect": imp, "params": {"GlobalBufferSize": gb, "GlobalBufferThroughput": thr}})

    def pe(M, KN, imp, gb=4096, rf=512, fan=4, thr=(4, 8, "inf")):
        S.append({"name": f"pe-M{M}-KN{KN}-imp{int(imp)}-gb{gb}-rf{rf}-x{fan}-thr{'_'.join(map(str, thr))}",
                  "arch": "pe", "M": M, "KN": KN, "imperfect": imp,
                  "params": {"GlobalBufferSize": gb, "RegFileSize": rf, "Fanout": fan,
                             "MMThr": thr[0], "GBThr": thr[1], "RFThr": thr[2]}})

    # >= 1000 partial tile shapes are needed before the mapper derives Pareto goals mid-enumeration (the only
    # path that hands energy / latency terms to the comparator): rank bounds 12 / 10 on the 3-level arch.
    # Finite throughputs on all three memories keep a two-argument Max in the latency objective.
    if quick:
        simple(4, 4, False)
        simple(5, 4, True, gb=64, thr=2)
        pe(4, 4, False, gb=256, rf=64)
        pe(12, 12, False, thr=(1, 1, 1))
        pe(10, 10, True, thr=(1, 1, 1))
        return S
    for imp in (False, True):
        simple(2, 2, imp)
        simple(4, 4, imp)
        simple(6, 4, imp, gb=64, thr=2)
        simple(12, 6, imp, gb=128, thr=2)
        simple(5, 4, imp, gb=64, thr=2)
        pe(12, 12, imp)
        pe(12, 12, imp, thr=(1, 1, 1))
        pe(12, 6, imp, thr=(0.5, 2, 4))
        pe(6, 12, imp, fan=2, thr=(2, 1, "inf"))
        pe(10, 10, imp)
        pe(12, 12, imp, fan=2, thr=(1, 4, 2))
    pe(4, 4, False, gb=256, rf=64)
    pe(10, 10, True, thr=(1, 1, 1))
    pe(6, 6, True, thr=(1, 1, 1))
    pe(7, 7, True, thr=(1, 1, 1))
    return S


def build_jobs(cfg, scratch):
    import accelforge as af
    from accelforge.frontend.mapper.metrics import Metrics
    from accelforge.mapper.FFM._make_pmappings import make_pmappings as pmapper

    if cfg["arch"] == "simple":
        arch = os.path.join(REPO, "examples/arches/simple.yaml")
    else:
        arch = os.path.join(scratch, "c09_arch_pe.yaml")
        if not os.path.exists(arch):
            with open(arch, "w") as fh:
                fh.write(ARCH_PE)
    spec = af.Spec.from_yaml(
        arch, os.path.join(REPO, "examples/workloads/basic/matmuls.yaml"),
        jinja_parse_data=dict(N_EINSUMS=1, M=cfg["M"], KN=cfg["KN"], **cfg["params"]))
    spec.mapper.explore_imperfect_temporal_loops = cfg["imperfect"]
    spec.mapper.explore_imperfect_spatial_loops = cfg["imperfect"]
    metrics = Metrics.ENERGY | Metrics.LATENCY
    spec.mapper.metrics = metrics
    spec2 = copy.deepcopy(spec)._spec_eval_expressions(eval_arch=False, eval_non_arch=True)
    jobs = pmapper.get_jobs(spec2, metrics, spec2.workload.einsum_names, True, False)
    pmapper._fill_jobs_with_memories_to_track(jobs, spec2, metrics, False, False)
    return [j for v in jobs.values() for js in v.values() for j in js]


def _clear_caches(mts):
    for v in vars(mts).values():
        cc = getattr(v, "cache_clear", None)
        if callable(cc):
            cc()
    mts._is_connected_cache.clear()


def _restrict(bounds, syms):
    return tuple(sorted(((s, int(lo), int(hi)) for (s, lo, hi) in bounds if s in syms), key=lambda t: str(t[0])))


def harvest_shard(item):
    """Runs make_tile_shapes on jobs[chunk::n] of one spec with spies on the two
    comparator entry points; returns the captured calls."""
    cfg, chunk, nchunks, scratch = item
    from accelforge.util.parallel import set_n_parallel_jobs

    set_n_parallel_jobs(1)
    mts = _mts()
    jobs = build_jobs(cfg, scratch)
    calls: dict = {}
    depth = [0]
    orig_g, orig_d = mts.geq_leq_zero, mts.diff_geq_leq_zero
    if getattr(orig_g, "_c09_spy", False):  # never stack spies
        orig_g, orig_d = orig_g._c09_orig, orig_d._c09_orig
    # The callers of the comparator are lru_cached themselves: start every shard from
    # cold caches so that the captured set does not depend on what ran before.
    _clear_caches(mts)
    n_calls = [0]

    def note(kind, f, s, bounds, flag, verdict):
        n_calls[0] += 1
        try:
            fs = f.free_symbols | ({s} if s is not None else set())
        except Exception:
            fs = set()
        key = (kind, f, s, _restrict(bounds, fs), bool(flag), verdict, depth[0])
        calls[key] = calls.get(key, 0) + 1

    def spy_g(f, bounds, terms_do_not_cross_zero=False):
        depth[0] += 1
        try:
            try:
                r = orig_g(f, bounds, terms_do_not_cross_zero)
            except Exception as e:
                note("g", f, None, bounds, terms_do_not_cross_zero, "raise:" + type(e).__name__)
                raise
            note("g", f, None, bounds, terms_do_not_cross_zero, r.name)
            return r
        finally:
            depth[0] -= 1

    def spy_d(f, s, bounds):
        depth[0] += 1
        try:
            try:
                r = orig_d(f, s, bounds)
            except Exception as e:
                note("d", f, s, bounds, False, "raise:" + type(e).__name__)
                raise
            note("d", f, s, bounds, False, r.name)
            return r
        finally:
            depth[0] -= 1

    spy_g._c09_spy = spy_d._c09_spy = True
    spy_g._c09_orig, spy_d._c09_orig = orig_g, orig_d
    mts.geq_leq_zero, mts.diff_geq_leq_zero = spy_g, spy_d

    # third observation point: the patched MinMaxBase._is_connected (decides which Max/Min arguments are dropped)
    conn_orig = mts._is_connected_cached.__func__
    big = max(cfg["M"], cfg["KN"])

    def spy_c(cls, x, y):
        r = conn_orig(cls, x, y)
        if r is not False and x != y:
            try:
                fs = x.free_symbols | y.free_symbols
                key = ("c", (x, y), None, tuple(sorted(((t, 1, big) for t in fs), key=lambda t: str(t[0]))), False,
                       r if r is True else r.__name__, 0)
                calls[key] = calls.get(key, 0) + 1
                n_calls[0] += 1
            except Exception:
                pass
        return r

    mts._MinMaxBase._is_connected = classmethod(spy_c)
    n_jobs = n_abort = n_rows = 0
    aborts = {}
    try:
        for j in jobs[chunk::nchunks]:
            n_jobs += 1
            try:
                df, _ = mts.make_tile_shapes(copy.deepcopy(j))
                n_rows += len(df)
            except Exception as e:  # an implementation exception aborts the job: observation
                n_abort += 1
                k = f"{type(e).__name__}: {str(e)[:80]}"
                aborts[k] = aborts.get(k, 0) + 1
    finally:
        mts.geq_leq_zero, mts.diff_geq_leq_zero = orig_g, orig_d
        mts._MinMaxBase._is_connected = mts._is_connected_cached
    out = [{"kind": k[0], "f": k[1], "s": k[2], "bounds": k[3], "flag": k[4], "verdict": k[5],
            "depth": k[6], "count": c, "spec": cfg["name"], "imperfect": cfg["imperfect"]}
           for k, c in calls.items()]
    return {"calls": out, "n_calls": n_calls[0], "n_jobs": n_jobs, "n_abort": n_abort, "aborts": aborts,
            "n_rows": n_rows, "n_templates": len(jobs), "spec": cfg["name"]}


# ======================================================================================
# constructor kinds / patterns
# ======================================================================================

_LEAF = (sympy.Symbol, sympy.Number, sympy.NumberSymbol)


def kinds_of(f) -> frozenset:
    ks = set()
    for n in sympy.preorder_traversal(f):
        if isinstance(n, _LEAF):
            continue
        if isinstance(n, sympy.Pow):
            e = n.args[1]  # a positive integer power is a repeated product
            ks.add("Recip" if (e.is_Integer and e < 0) else ("Mul" if e.is_Integer else "PowOther"))
        else:
            ks.add(type(n).__name__)
    return frozenset(ks)


def _ceil_tag(c):
    arg = c.args[0]
    num, den = sympy.fraction(sympy.together(arg))
    ns, ds = bool(num.free_symbols), bool(den.free_symbols)
    tag = "ceil(s/s)" if ns and ds else "ceil(c/s)" if ds else "ceil(s/c)" if ns else "ceil(c)"
    if isinstance(num, sympy.Add) or isinstance(den, sympy.Add):
        tag = tag[:-1] + ",sum)"
    return tag


def descriptors(f) -> frozenset:
    """Names of the step-constructor patterns occurring in f (used for families)."""
    d = set()
    it = sympy.preorder_traversal(f)
    for n in it:
        if isinstance(n, (sympy.Derivative, sympy.Subs)):
            d.add("Derivative")
            it.skip()  # do not describe the dummy ceiling inside an unevaluated derivative
        elif isinstance(n, sympy.ceiling):
            d.add(_ceil_tag(n))
        elif isinstance(n, sympy.floor):
            d.add("floor")
        elif isinstance(n, sympy.Max):
            d.add("Max")
        elif isinstance(n, sympy.Min):
            d.add("Min")
        elif isinstance(n, sympy.Heaviside):
            d.add("Heaviside")
        elif isinstance(n, sympy.Mul):
            for a in n.args:
                base = a.args[0] if isinstance(a, sympy.Pow) else a
                if isinstance(base, sympy.ceiling):
                    rest = set()
                    for b in n.args:
                        if b is not a:
                            rest |= b.free_symbols
                    if rest & base.free_symbols:
                        d.add("sym*" + _ceil_tag(base))
    for x in [x for x in d if x.startswith("sym*")]:
        d.discard(x[4:])
    if not d:
        d.add("rational")
    return frozenset(d)


# ======================================================================================
# oracle
# ======================================================================================

def call_impl(kind, f, s, bounds, flag):
    mts = _mts()
    try:
        if kind == "g":
            r = mts.geq_leq_zero(f, tuple(bounds), bool(flag))
        else:
            r = mts.diff_geq_leq_zero(f, s, tuple(bounds))
        return r.name
    except Exception as e:
        return "raise:" + type(e).__name__


def _subexprs(f):
    seen, out = set(), []
    for n in sympy.preorder_traversal(f):
        if isinstance(n, _LEAF) or n in seen:
            continue
        seen.add(n)
        out.append(n)
    return out


def promise_holds(f, bounds):
    """terms_do_not_cross_zero: every sub-expression is single-signed over the box."""
    for n in _subexprs(f):
        b = [t for t in bounds if t[0] in n.free_symbols]
        p = R.sign_profile(n, b, **CAPS)
        if R.sign_class(p) in ("mixed", "undefined"):
            return False, n
    return True, None


def _sym_of(bounds, pt):
    return {str(b[0]): v for b, v in zip(bounds, pt)}


def judge(kind, f, s, bounds, flag, verdict):
    """-> dict(validated, truth, bad=None|{...}, cls, reduced).  ``verdict`` is an enum name or raise:*."""
    bounds = list(bounds)
    if verdict.startswith("raise:"):
        return {"validated": False, "truth": "n/a", "bad": None, "cls": "exception:" + verdict[6:], "reduced": False}
    claim = VERD[verdict]
    try:
        if kind == "g":
            p = R.sign_profile(f, bounds, **CAPS)
            truth = R.sign_class(p)
            if truth == "undefined":
                return {"validated": False, "truth": truth, "bad": None, "cls": "formula-undefined-in-box",
                        "reduced": p["reduced"]}
            if flag:
                ok, where = promise_holds(f, bounds)
                if not ok:
                    return {"validated": False, "truth": truth, "bad": None, "cls": "promise-false",
                            "reduced": p["reduced"]}
            bad = None
            if claim in ("geq0", "eq0") and p["min"] < 0:
                bad = {"point": _sym_of(bounds, p["argmin"]), "value": R.fr(p["min"]), "demand": "f >= 0"}
            elif claim in ("leq0", "eq0") and p["max"] > 0:
                bad = {"point": _sym_of(bounds, p["argmax"]), "value": R.fr(p["max"]), "demand": "f <= 0"}
            return {"validated": True, "truth": truth, "bad": bad, "reduced": p["reduced"],
                    "cls": ("sign-tdncz:" if flag else "sign:") + claim, "check": "sign"}
        # derivative verdict
        p = R.mono_profile(f, s, bounds, **CAPS)
        truth = R.mono_class(p)
        if truth == "undefined":
            return {"validated": False, "truth": truth, "bad": None, "cls": "formula-undefined-in-box",
                    "reduced": p["reduced"]}
        bad = None
        check = "deriv-mono"
        if claim in ("geq0", "eq0") and p["down"] is not None:
            st = p["down"]
            bad = {"point": _sym_of(bounds, st["at"]), "f": R.fr(st["f"]), f"f({s}+1)": R.fr(st["f_next"]),
                   "demand": f"f non-decreasing in {s}"}
        elif claim in ("leq0", "eq0") and p["up"] is not None:
            st = p["up"]
            bad = {"point": _sym_of(bounds, st["at"]), "f": R.fr(st["f"]), f"f({s}+1)": R.fr(st["f_next"]),
                   "demand": f"f non-increasing in {s}"}
        if bad is None and claim != "unknown" and R.is_step_free(f):
            q = R.deriv_profile(f, s, bounds, **CAPS_DERIV)
            if "undefined_at" not in q:
                if claim in ("geq0", "eq0") and q["min"] < 0:
                    bad = {"point": _sym_of(bounds, q["argmin"]), "df/ds": R.fr(q["min"]), "demand": "df/ds >= 0"}
                    check = "deriv-sign"
                elif claim in ("leq0", "eq0") and q["max"] > 0:
                    bad = {"point": _sym_of(bounds, q["argmax"]), "df/ds": R.fr(q["max"]), "demand": "df/ds <= 0"}
                    check = "deriv-sign"
        return {"validated": True, "truth": truth, "bad": bad, "reduced": p["reduced"], "cls": "deriv:" + claim,
                "check": check}
    except R.Unevaluable as e:
        return {"validated": False, "truth": "unevaluable", "bad": None, "cls": "formula-not-evaluable",
                "reduced": False, "why": str(e)}


def _jb(bounds):
    return [[str(s), int(lo), int(hi)] for (s, lo, hi) in bounds]


def _candidates(hi: int):
    """Tile-shape candidates the mapper enumerates for an outermost loop of bound hi."""
    try:
        mts = _mts()
        return {"perfect": [int(x) for x in mts.get_possible_factor_sizes(hi, False, 1, 1)],
                "imperfect": [int(x) for x in mts.get_possible_factor_sizes(hi, True, 1, 1)]}
    except Exception:
        return None


_W: dict = {}  # harvested witnesses: descriptor -> smallest harvested formula string


def check_call(origin, kind, f, s, bounds, flag, captured=None, meta=None):
    """Runs the comparator on one (formula, symbol, box) and judges the verdict(s)."""
    bounds = tuple(bounds)
    recomputed = call_impl(kind, f, s, bounds, flag)
    observed = captured if captured is not None else recomputed
    sample = {"origin": origin, "call": kind, "f": sympy.srepr(f), "f_str": str(f),
              "s": (sympy.srepr(s) if s is not None else None), "s_str": (str(s) if s is not None else None),
              "bounds": [[sympy.srepr(b[0]), int(b[1]), int(b[2])] for b in bounds], "box": _jb(bounds),
              "flag": bool(flag), "captured": captured}
    if meta:
        sample.update(meta)
    verdicts = [("observed", observed)]
    if captured is not None and recomputed != captured:
        verdicts.append(("recomputed", recomputed))
    viol = None
    j0 = None
    for which, v in verdicts:
        j = judge(kind, f, s, bounds, flag, v)
        j0 = j0 or j
        if j["bad"] is not None and viol is None:
            desc = "+".join(sorted(descriptors(f)))
            claim = VERD[v]
            fam = f"{origin}/{j['check']}{'-tdncz' if flag else ''}/{desc}/{claim}"
            note = {"which_verdict": which, "counter_point": j["bad"], "truth_over_box": j["truth"],
                    "suspected_cause": _cause(f, kind, flag, len(bounds))}
            if origin == "synthetic":
                note["harvested_formula_with_same_pattern"] = _witness(f)
            if kind == "d" and "point" in j["bad"] and s is not None:
                hi = [b for b in bounds if b[0] == s][0][2]
                note["mapper_candidates_for_bound"] = _candidates(hi)
            viol = {"observed": f"{'diff_' if kind == 'd' else ''}geq_leq_zero -> {v}",
                    "expected": f"unknown, or a verdict true at every integer point (truth over the box: {j['truth']})",
                    "note": note, "family": fam, "config": sample}
    j = j0
    definite = observed in VERD and VERD[observed] != "unknown"
    npts = 1
    for b in bounds:
        npts *= (b[2] - b[1] + 1)
    nontriv = definite and j["validated"] and npts >= 2 and (kind == "g" or j["truth"] != "single")
    cls = j["cls"]
    if captured is not None and recomputed != captured:
        cls += "|recompute-differs"
    if j.get("reduced"):
        cls += "|subgrid"
    outcome = (kind, bool(flag), observed, j["truth"])
    return Result(outcome=outcome, nontrivial=nontriv, validated=j["validated"], violation=viol,
                  sample=sample, evaluations=1, outcome_class=cls)


def _cause(f, kind, flag, nsym):
    if f.has(sympy.ceiling):
        return "ceiling(x) is replaced by x before the range analysis (_compare_to_zero, make_tile_shapes.py:206-210)"
    if kind == "d" and f.has(sympy.Max, sympy.Min):
        return ("partition_heaviside tries only all-Heavisides=1 and all-Heavisides=0, never the complementary "
                "assignments a Max/Min derivative takes (make_tile_shapes.py:143-146, 215-216)")
    if flag:
        return ("with terms_do_not_cross_zero an inconclusive 'may be < 0' is turned into ALWAYS_LEQ "
                "(make_tile_shapes.py:295-296 / 300-301)")
    if nsym >= 2:
        return ("sympy function_range over one symbol returns Interval(x, y) with symbolic, unordered endpoints; "
                ".left/.right are trusted as min/max (make_tile_shapes.py:262-268)")
    return "unclassified"


def _witness(f):
    want = {d for d in descriptors(f) if d != "rational"}
    best = None
    for dset, s in _W.items():
        have = set(dset) | {x[4:] for x in dset if x.startswith("sym*")}
        if want <= have:
            if best is None or len(s) < len(best):
                best = s
    if best is None:
        return "none harvested"
    return best[:300]


# ======================================================================================
# synthetic formulas
# ======================================================================================

def _symbols():
    a = sympy.Symbol("a", positive=True, integer=True)
    b = sympy.Symbol("b", positive=True, integer=True)
    return a, b


OPS_BIN = {
    "+": (lambda x, y: x + y, {"Add"}),
    "-": (lambda x, y: x - y, {"Add", "Mul"}),
    "*": (lambda x, y: x * y, {"Mul"}),
    "/": (lambda x, y: x / y, {"Mul", "Recip"}),
    "Min": (sympy.Min, {"Min"}),
    "Max": (sympy.Max, {"Max"}),
}
OPS_UN = {
    "ceiling": (sympy.ceiling, {"ceiling"}),
    "Heaviside": (sympy.Heaviside, {"Heaviside"}),
}
_BAD = (sympy.zoo, sympy.nan, sympy.oo, -sympy.oo)


def _ok(e):
    return isinstance(e, sympy.Expr) and not e.has(*_BAD)


def _apply_all(xs, ys, allowed, ops_bin=OPS_BIN, ops_un=OPS_UN, unary_on=None):
    out = {}
    for nm, (fn, need) in ops_un.items():
        if not need <= allowed:
            continue
        for x in (unary_on if unary_on is not None else xs):
            try:
                e = fn(x)
            except Exception:
                continue
            if _ok(e):
                out.setdefault(e, None)
    for nm, (fn, need) in ops_bin.items():
        if not need <= allowed:
            continue
        for x in xs:
            for y in ys:
                try:
                    e = fn(x, y)
                except Exception:
                    continue
                if _ok(e):
                    out.setdefault(e, None)
    return list(out)


def synth_family(allowed: frozenset, quick: bool):
    """-> (exprs, info).  Depth <= 2: every tree over {a,b,1,2,3}; depth 3: typed sub-family."""
    a, b = _symbols()
    leaves = [a, b, sympy.Integer(1), sympy.Integer(2), sympy.Integer(3)]
    l2 = leaves[:4] if quick else leaves  # quick: depth <= 2 over {a, b, 1, 2}
    d1 = _dedupe(l2 + _apply_all(l2, l2, allowed))
    d2 = _dedupe(d1 + _apply_all(d1, d1, allowed))
    info = {"depth<=1": len(d1), "depth<=2": len(d2)}
    # depth 3, typed: op(X, Y) with X, Y from T2 = harvest-shaped terms of depth <= 2
    mono = _dedupe(leaves + _apply_all(leaves, leaves, allowed, ops_bin={k: OPS_BIN[k] for k in "*/"}, ops_un={}))
    sums = _dedupe(_apply_all(leaves, leaves, allowed, ops_bin={k: OPS_BIN[k] for k in "+-"}, ops_un={}))
    quot = [m for m in mono if m.free_symbols and not m.is_integer]
    steps = []
    if "ceiling" in allowed:
        steps += [sympy.ceiling(q) for q in quot]
    for nm in ("Max", "Min"):
        if nm in allowed:
            steps += _apply_all(leaves, leaves, allowed, ops_bin={nm: OPS_BIN[nm]}, ops_un={})
    if "Heaviside" in allowed:
        steps += [sympy.Heaviside(x) for x in sums if x.free_symbols]
    steps = [e for e in _dedupe(steps) if e.has(*R.STEP_KINDS)]
    arith = {k: OPS_BIN[k] for k in ("-*" if quick else "+-*/")}
    if quick:
        core = _apply_all(steps, mono, allowed, ops_bin=arith, ops_un={}) + \
            _apply_all(mono, steps, allowed, ops_bin=arith, ops_un={})
    else:
        t2 = _dedupe(mono + sums + steps)
        core = _apply_all(t2, t2, allowed, ops_un={})
        info["T2"] = len(t2)
    have = set(d2)
    d3 = [e for e in _dedupe(core) if e not in have]
    info.update({"monomials": len(mono), "sums": len(sums), "steps": len(steps), "depth3-typed": len(d3)})
    d2 = [e for e in d2 if kinds_of(e) <= allowed]
    d3 = [e for e in d3 if kinds_of(e) <= allowed]
    info["in_scope"] = len(d2) + len(d3)
    info["n_depth2"] = len(d2)
    return d2 + d3, info


def _dedupe(xs):
    seen, out = set(), []
    for x in xs:
        if x not in seen:
            seen.add(x)
            out.append(x)
    return out


# ======================================================================================
# small pure phases: verdict combination, Min/Max construction
# ======================================================================================

SIGNSET = {"ALWAYS_GEQ_THAN_ZERO": {1, 0}, "ALWAYS_LEQ_THAN_ZERO": {-1, 0}, "ALWAYS_EQUAL_TO_ZERO": {0},
           "UNKNOWN": {1, 0, -1}}


def body_or(cfg):
    """ComparisonResult.__or__: the combined verdict must cover both operands' sign sets."""
    A, B = cfg
    CR = _mts().ComparisonResult
    try:
        r = (CR[A] | CR[B]).name
    except Exception as e:
        r = "raise:" + type(e).__name__
    need = SIGNSET[A] | SIGNSET[B]
    sample = {"origin": "combine", "A": A, "B": B, "result": r}
    viol = None
    if r in SIGNSET and not SIGNSET[r] >= need:
        viol = {"observed": f"{A} | {B} -> {r}", "expected": "a verdict that holds whenever either operand's does",
                "family": f"combine/{VERD[A]}|{VERD[B]}->{VERD[r]}", "note": "ComparisonResult.__or__", "config": sample}
    return Result(outcome=("or", A, B, r), nontrivial=(A != B), validated=r in SIGNSET, violation=viol,
                  sample=sample, outcome_class="combine:" + VERD.get(r, "exception"))


def minmax_terms():
    a, b = _symbols()
    leaves = [a, b, sympy.Integer(1), sympy.Integer(2), sympy.Integer(3)]
    every = frozenset({"Add", "Mul", "Recip", "ceiling"})
    return _dedupe(leaves + _apply_all(leaves, leaves, every))


def body_mm(cfg):
    """sympy.Max / sympy.Min built with the module's _is_connected_cached patch must equal max / min of the
    arguments at every integer point (dropping a 'dominated' argument must be right for positive integers)."""
    op, i, j = cfg
    a, b = _S["syms"]
    x, y = _S["mm"][i], _S["mm"][j]
    _mts()  # the import installs the patch
    e = (sympy.Max if op == "Max" else sympy.Min)(x, y)
    syms = [a, b]
    fe, fx, fy = (R.compile_expr(t, syms) for t in (e, x, y))
    pick = max if op == "Max" else min
    bad = None
    for pt in itertools.product(range(1, 5), repeat=2):
        want = pick(Fraction(fx(*pt)), Fraction(fy(*pt)))
        got = Fraction(fe(*pt))
        if got != want:
            bad = {"point": {"a": pt[0], "b": pt[1]}, "value": R.fr(got), "want": R.fr(want)}
            break
    collapsed = not isinstance(e, (sympy.Max, sympy.Min)) or len(e.args) < 2
    sample = {"origin": "minmax-construct", "op": op, "x": sympy.srepr(x), "y": sympy.srepr(y), "built": str(e)}
    viol = None
    if bad is not None:
        viol = {"observed": f"{op}({x}, {y}) was built as {e}", "expected": f"pointwise {op.lower()} of the arguments",
                "family": f"minmax-construct/{op}/wrong-simplification", "note": {"counter_point": bad}, "config": sample}
    return Result(outcome=(op, collapsed, bad is None), nontrivial=collapsed and x != y, validated=True, violation=viol,
                  sample=sample, outcome_class=f"minmax:{op}:{'collapsed' if collapsed else 'kept'}")


# ======================================================================================
# explorer glue
# ======================================================================================

_H: dict = {}
_S: dict = {}


def check_connected(x, y, bounds, verdict, meta=None):
    """A recorded MinMaxBase._is_connected(x, y) answer: 'Max' claims x >= y, 'Min' claims x <= y, everywhere."""
    bounds = list(bounds)
    sample = {"origin": "harvested", "call": "c", "x": sympy.srepr(x), "y": sympy.srepr(y), "f_str": f"{x}  vs  {y}",
              "bounds": [[sympy.srepr(b[0]), int(b[1]), int(b[2])] for b in bounds], "box": _jb(bounds),
              "captured": str(verdict), "flag": False, "s_str": None}
    if meta:
        sample.update(meta)
    try:
        p = R.sign_profile(x - y, bounds, **CAPS)
    except R.Unevaluable:
        return Result(outcome=("c", str(verdict), "unevaluable"), validated=False, sample=sample,
                      outcome_class="connected:not-evaluable")
    truth = R.sign_class(p)
    bad = None
    if truth == "undefined":
        return Result(outcome=("c", str(verdict), truth), validated=False, sample=sample,
                      outcome_class="connected:undefined")
    if str(verdict) == "Max" and p["min"] < 0:
        bad = {"point": _sym_of(bounds, p["argmin"]), "x-y": R.fr(p["min"]), "demand": "x >= y"}
    elif str(verdict) == "Min" and p["max"] > 0:
        bad = {"point": _sym_of(bounds, p["argmax"]), "x-y": R.fr(p["max"]), "demand": "x <= y"}
    elif str(verdict) == "True" and truth != "zero":
        bad = {"point": _sym_of(bounds, p["argmax"]), "x-y": R.fr(p["max"]), "demand": "x == y"}
    viol = None
    if bad is not None:
        viol = {"observed": f"_is_connected({x}, {y}) -> {verdict}", "expected": f"sign of x-y over the box: {truth}",
                "family": f"harvested/minmax-connected/{verdict}", "note": {"counter_point": bad}, "config": sample}
    return Result(outcome=("c", str(verdict), truth), nontrivial=len(bounds) > 0, validated=True, violation=viol,
                  sample=sample, outcome_class=f"connected:{verdict}" + ("|subgrid" if p.get("reduced") else ""))


def body_h(cfg):
    rec = _H["calls"][cfg[1]]
    meta = {"spec": rec["spec"], "imperfect": rec["imperfect"], "depth": rec["depth"], "count": rec["count"]}
    if rec["kind"] == "c":
        return check_connected(rec["f"][0], rec["f"][1], rec["bounds"], rec["verdict"], meta)
    return check_call("harvested", rec["kind"], rec["f"], rec["s"], rec["bounds"], rec["flag"],
                      captured=rec["verdict"], meta=meta)


def body_s(cfg):
    _, fi, box, call = cfg
    f = _S["exprs"][fi]
    a, b = _S["syms"]
    bounds = tuple((s, 1, h) for s, h in zip((a, b), box) if s in f.free_symbols)
    if call == "g":
        return check_call("synthetic", "g", f, None, bounds, False)
    if call == "gT":
        return check_call("synthetic", "g", f, None, bounds, True)
    s = a if call == "da" else b
    return check_call("synthetic", "d", f, s, bounds, False)


def synth_tree(chunks, quick):
    a, b = _S["syms"]
    his = (1, 2, 3, 4)

    def tree(p):
        if len(p) == 0:
            return list(range(len(chunks)))
        if len(p) == 1:
            return chunks[p[0]]
        f = _S["exprs"][p[1]]
        ha = his if a in f.free_symbols else (0,)
        hb = his if b in f.free_symbols else (0,)
        if len(p) == 2:
            boxes = [(x, y) for x in ha for y in hb]
            deep = p[1] >= _S["n_depth2"]  # typed depth-3 formulas come after the depth <= 2 ones
            if quick:
                boxes = [boxes[-1]]  # hi = 4 for every symbol
            elif deep:
                boxes = [bx for bx in boxes if 1 not in bx]
            return boxes
        if len(p) == 3:
            calls = ["g", "gT"]
            if a in f.free_symbols:
                calls.append("da")
            if b in f.free_symbols:
                calls.append("db")
            return calls
        return None

    return tree


def run(ctx):
    q = ctx.quick
    t0 = time.time()
    mts = _mts()  # import accelforge once in the parent
    a, b = _symbols()
    fam = spec_family(q)
    # warm-up in the parent (yaml loader, numba kernels, sympy caches) so that forked workers inherit it
    harvest_shard((fam[0], 0, 1, ctx.scratch))

    # ---------------- verdict combination and Min/Max construction (tiny, pure) ----------------
    names = list(SIGNSET)
    from mc.explorer import product_tree
    ctx.explore("combine", product_tree(names, names), body_or, shard_depth=1, distinct_by_construction=True, workers=1)
    _S["syms"] = (a, b)
    _S["mm"] = minmax_terms()
    nmm = len(_S["mm"])
    ctx.explore("minmax-construct", product_tree(["Max", "Min"], list(range(nmm)), list(range(nmm))), body_mm,
                shard_depth=2, distinct_by_construction=True)

    # ---------------- (a) harvest ----------------
    items = []
    for cfg in fam:
        nchunks = 1 if cfg["arch"] == "simple" else 8
        items += [(cfg, c, nchunks, ctx.scratch) for c in range(nchunks)]
    items.sort(key=lambda it: it[0]["arch"] != "pe")  # long shards first
    k = ctx.seed % len(items)
    items = items[k:] + items[:k]
    shards = pmap(harvest_shard, items)
    calls, seen = [], set()
    tot = {"n_calls": 0, "n_jobs": 0, "n_abort": 0, "n_rows": 0}
    aborts = {}
    for sh in sorted(shards, key=lambda d: d["spec"]):
        for k_ in tot:
            tot[k_] += sh[k_]
        for kk, vv in sh["aborts"].items():
            aborts[kk] = aborts.get(kk, 0) + vv
        for c in sh["calls"]:
            key = (c["kind"], c["f"], c["s"], c["bounds"], c["flag"], c["verdict"])
            if key in seen:
                continue
            seen.add(key)
            calls.append(c)
    calls.sort(key=lambda c: (len(str(c["f"])), str(c["f"]), str(c["s"]), str(c["bounds"]), c["flag"], c["verdict"]))
    _H["calls"] = calls
    harvested_kinds = set()
    for c in calls:
        if c["kind"] == "c":
            continue
        try:
            harvested_kinds |= kinds_of(c["f"])
            ds = descriptors(c["f"])
            s_ = str(c["f"])
            if ds not in _W or len(s_) < len(_W[ds]):
                _W[ds] = s_
        except Exception:
            pass
    ctx.note(f"harvest: {len(fam)} specs, {tot['n_jobs']} template jobs ({tot['n_abort']} aborted by an exception), "
             f"{tot['n_calls']} comparator calls captured, {len(calls)} distinct; wall {time.time() - t0:.1f}s")
    if aborts:
        ctx.note("jobs aborted by implementation exceptions: " + "; ".join(f"{k} x{v}" for k, v in sorted(aborts.items())))
    ctx.note("harvested constructor kinds: " + ", ".join(sorted(harvested_kinds)))
    ctx.note("harvested step patterns: " + ", ".join(sorted({d for ds in _W for d in ds})))
    ctx.extra_cov["harvested_kinds"] = sorted(harvested_kinds)
    ctx.extra_cov["harvested_patterns"] = {"+".join(sorted(ds)): s for ds, s in sorted(_W.items(), key=str)}

    n = len(calls)
    nch = max(1, min(256, n // 4))
    chunks = [list(range(i, n, nch)) for i in range(nch)]

    def tree_h(p):
        if len(p) == 0:
            return list(range(nch))
        if len(p) == 1:
            return chunks[p[0]]
        return None

    ctx.explore("harvested", tree_h, body_h, shard_depth=1, distinct_by_construction=True)

    # ---------------- (b) synthetic ----------------
    allowed = frozenset(harvested_kinds) - {"Derivative", "Subs", "Tuple", "Dummy", "PowOther"}
    t1 = time.time()
    exprs, info = synth_family(allowed, q)
    info["build_s"] = round(time.time() - t1, 1)
    _S["exprs"] = exprs
    _S["syms"] = (a, b)
    _S["n_depth2"] = info["n_depth2"]
    ctx.note(f"synthetic family: {info}")
    m = len(exprs)
    nch2 = max(1, min(512, m // 4))
    chunks2 = [list(range(i, m, nch2)) for i in range(nch2)]
    ctx.explore("synthetic", synth_tree(chunks2, q), body_s, shard_depth=1, distinct_by_construction=True)

    ctx.bound(harvest_specs=[c["name"] for c in fam],
              harvested_box="every integer of [1, rank bound] per symbol of the formula; at most 12 points per axis; "
                            "boxes with more than 4096 points (1024 for the exact df/ds) are thinned to a deterministic sub-grid (class '|subgrid')",
              synthetic_depth="all trees of depth <= 2 over " + ("{a,b,1,2}" if q else "{a,b,1,2,3}") + "; depth 3 over {a,b,1,2,3}: op(X,Y) with "
                              + ("X a step term (ceiling of a quotient, Max/Min of leaves, Heaviside of a sum), Y a monomial (both orders), op in - *"
                                 if q else "X, Y in T2 = monomials, sums, step terms of depth <= 2, every binary op"),
              synthetic_boxes=("lo=1, hi=4 for every symbol" if q else
                               "lo=1; depth<=2: every hi in {1..4} per symbol; depth 3: every hi in {2,3,4} per symbol"),
              synthetic_kinds=sorted(allowed))


def _parse(s):
    return eval(s, {"__builtins__": {}}, dict(vars(sympy)))


def replay(ctx, rec):
    cfg = rec["config"]
    _mts()
    if cfg["origin"] == "combine":
        r = body_or((cfg["A"], cfg["B"]))
        return {"observed": r.outcome[-1], "violation": r.violation is not None}
    if cfg.get("call") == "c":
        bounds = tuple((_parse(b[0]), int(b[1]), int(b[2])) for b in cfg["bounds"])
        x, y = _parse(cfg["x"]), _parse(cfg["y"])
        mts = _mts()
        now = mts._is_connected_cached.__func__(sympy.Max, x, y)
        now = now if isinstance(now, bool) else now.__name__
        r = check_connected(x, y, bounds, now)
        return {"observed": f"_is_connected -> {now}", "violation": r.violation is not None}
    if cfg["origin"] == "minmax-construct":
        a, b = _symbols()
        _S["syms"] = (a, b)
        _S["mm"] = [_parse(cfg["x"]), _parse(cfg["y"])]
        r = body_mm((cfg["op"], 0, 1))
        return {"observed": (r.violation or {}).get("observed", "ok"), "violation": r.violation is not None}
    f = _parse(cfg["f"])
    s = _parse(cfg["s"]) if cfg.get("s") else None
    bounds = tuple((_parse(b[0]), int(b[1]), int(b[2])) for b in cfg["bounds"])
    r = check_call(cfg["origin"], cfg["call"], f, s, bounds, cfg["flag"], captured=cfg.get("captured"))
    v = r.violation
    return {"observed": (v or {}).get("observed", str(r.outcome)), "expected": (v or {}).get("expected", "holds"),
            "family": (v or {}).get("family"), "counter_point": ((v or {}).get("note") or {}).get("counter_point"),
            "violation": v is not None}
