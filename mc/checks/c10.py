"""C10 — tile-shape candidates and mapspace counts are complete and exact.

Alphabet / bound: every outer size 1..N (N = 512 quick, 4096 thorough) x every inner
size (perfect: every divisor of outer; imperfect: every inner <= outer), coarseness 1,
through the real ``get_possible_factor_sizes``; ``_factorize(n)`` for every n <= 4096 /
16384; ``_count_factorizations(n, pattern)`` for every n <= 64 / 360 and every
perfect/imperfect pattern of length 0..4.  Also every (outer <= 300, inner | outer) with
the numpy unsigned integer types ``append_vector`` hands to the function.

Oracle (written from the property statement, brute force):
  perfect    result set == {d in 1..outer : inner | d and d | outer}   (trial division)
  imperfect  for every multiple x of inner with x <= outer, c = ceil(outer/x) is an
             achievable tile count; the result must contain the smallest integer shape
             s with ceil(outer/s) == c (found by a linear scan over 1..outer), and no
             element may exceed outer.  (Superset check only - the statement says
             "include".)
  counts     a factorisation chain over k loops is a tuple of loop bounds (b_1..b_k):
             r_0 = n, r_i = ceil(r_{i-1} / b_i); a perfect loop needs b_i | r_{i-1}, an
             imperfect loop may take any b_i in 1..r_{i-1}; the last loop takes what is
             left (b_k = r_{k-1}).  Chains are generated one by one and counted; for
             n <= 20 a second reference filters the full product [1..n]^(k-1); for
             all-perfect patterns a third one is the closed form prod C(e_p+k-1, k-1).

Self-test (mutants applied to a scratch copy, VERIF_REPO=/tmp/af-mut-c10, quick tier):
  M1 _factorize: ``range(1, math.ceil(n**0.5) + 1)`` -> ``range(1, math.ceil(n**0.5))``
       -> CAUGHT (707 violations in the factorize, perfect and numpy-args phases)
  M2 get_possible_factor_sizes: ``new_n = math.ceil(outer_size / cur_n_tiles)`` -> ``new_n = n``
       -> CAUGHT (131015 imperfect violations)
  M3 get_possible_factor_sizes (perfect branch): ``_factorize(ceil(outer/inner)) * inner`` ->
       ``_factorize(outer_size)``  -> CAUGHT (5702 violations, perfect/extra-nondivisor)
  M3x ``if n > outer_size or n in factors`` -> ``if n in factors`` (also together with the
       loop bound ``while n < outer_size + inner_size``) -> NOT CAUGHT, and rightly so: the
       mutant is equivalent (new_n = ceil(outer/ceil(outer/n)) clamps every over-long n to
       outer; all 147756 outputs are unchanged)
  M4 _count_factorizations: ``ceil(n / s)`` -> ``n // s``  -> CAUGHT (992 count violations)
  M5 _count_factorizations: ``len(imperfect_per_loop) <= 1`` -> ``< 1``  -> CAUGHT (1890)
  M6 get_possible_factor_sizes: drop the ``int(outer_size), int(inner_size)`` cast
       -> CAUGHT (520 violations, numpy-args phase: uint8 overflow / division by zero)
  (M4 re-run after the five families were merged into one worker pool: still CAUGHT, 992)
"""

from __future__ import annotations

import functools
import itertools
import math

import numpy as np

from mc.explorer import Result

MANIFEST = {
    "text": "every (outer, inner) pair up to outer 512 (quick) / 4096 (thorough) in both factorisation "
            "modes at coarseness 1 is pushed through the real get_possible_factor_sizes and compared with "
            "trial-division / linear-scan references; _factorize for every n up to 4096 / 16384; "
            "_count_factorizations for every n up to 64 / 360 and all 31 imperfection patterns of length <= 4 "
            "against chain-by-chain enumeration. Right level: pure integer functions of two or three small "
            "arguments, so the whole stated domain can be enumerated",
    "note": "trusted: Python integer arithmetic and the brute-force references; coarseness != 1 not covered; "
            "imperfect mode is checked as a superset (the statement says 'include')",
    "technique": "bounded exhaustive input enumeration (explicit-state) vs reference model",
}

RULE = (
    "one configuration = (function, arguments): (outer, inner, mode[, numpy dtype]) for the candidate "
    "generator, n for _factorize, (n, pattern) for the counter; all are distinct by construction. "
    "NON-TRIVIAL: perfect/_factorize - the quotient has >= 2 distinct prime factors; imperfect - several "
    "admissible shapes share a tile count (so the smallest-shape rule decides); counter - pattern length "
    ">= 3 with n >= 4 (nested recursion with a real choice)"
)
ASSUMPTIONS = [
    "Python/numpy integer arithmetic",
    "a 'factorisation chain' is a tuple of per-loop bounds; imperfect loops may take any bound 1..remaining "
    "and leave ceil(remaining/bound); the last loop takes the remainder",
    "imperfect mode: 'achievable' tile counts are those of multiples of inner <= outer; the smallest shape "
    "giving a count is the smallest integer shape (it need not be a multiple of inner)",
    "coarseness is 1 throughout",
]


# ------------------------------------------------------------------ implementation
def _impl():
    from accelforge.mapper.FFM._make_pmappings.make_pmappings_from_templates import make_tile_shapes as m
    from accelforge.util._mathfuncs import _count_factorizations

    return m.get_possible_factor_sizes, m._factorize, _count_factorizations


def _as_list(x):
    return [int(v) for v in list(x)]


# ------------------------------------------------------------------ references
def ref_divisors(n: int) -> list[int]:
    return [d for d in range(1, n + 1) if n % d == 0]


def ref_perfect(outer: int, inner: int) -> list[int]:
    return [d for d in range(1, outer + 1) if d % inner == 0 and outer % d == 0]


@functools.lru_cache(maxsize=8)
def _smallest_shape_per_count(outer: int) -> dict:
    """count -> smallest integer shape s (1 <= s <= outer) with ceil(outer/s) == count."""
    out: dict[int, int] = {}
    for s in range(1, outer + 1):
        c = -(-outer // s)
        if c not in out:
            out[c] = s
    return out


def ref_imperfect_required(outer: int, inner: int):
    """-> (required shapes, number of admissible multiples)"""
    small = _smallest_shape_per_count(outer)
    req = set()
    n_mult = 0
    for x in range(inner, outer + 1, inner):
        n_mult += 1
        req.add(small[-(-outer // x)])
    return req, n_mult


def _prime_exponents(n: int) -> dict:
    out, p = {}, 2
    while p * p <= n:
        while n % p == 0:
            out[p] = out.get(p, 0) + 1
            n //= p
        p += 1
    if n > 1:
        out[n] = out.get(n, 0) + 1
    return out


def ref_count_chains(n: int, pattern: tuple) -> int:
    """Generate every chain explicitly (iterative DFS) and count them one by one."""
    k = len(pattern)
    if k <= 1:
        return 1  # the only loop (or no loop at all) takes everything: one chain
    count = 0
    stack = [(n, 0)]
    while stack:
        rem, i = stack.pop()
        if i == k - 1:
            count += 1  # last loop: bound forced to `rem`
            continue
        for b in range(1, rem + 1):
            if pattern[i] or rem % b == 0:
                stack.append((-(-rem // b), i + 1))
    return count


def ref_count_product_filter(n: int, pattern: tuple) -> int:
    """Second reference: filter the full product [1..n]^(k-1)."""
    k = len(pattern)
    if k <= 1:
        return 1
    count = 0
    for bs in itertools.product(range(1, n + 1), repeat=k - 1):
        rem, ok = n, True
        for i, b in enumerate(bs):
            if b > rem or (not pattern[i] and rem % b != 0):
                ok = False
                break
            rem = -(-rem // b)
        count += ok
    return count


def ref_count_all_perfect(n: int, k: int) -> int:
    """Ordered factorisations of n into k factors."""
    out = 1
    for e in _prime_exponents(n).values():
        out *= math.comb(e + k - 1, k - 1)
    return out


# ------------------------------------------------------------------ one configuration
NP_TYPES = {"u8": np.uint8, "u16": np.uint16, "u32": np.uint32, "i64": np.int64}


def _np_type_for(v: int, kind: str):
    """The unsigned type append_vector() would store a value of this magnitude in."""
    if kind == "tight":
        if v < 2 ** 8:
            return "u8"
        if v < 2 ** 16:
            return "u16"
        return "u32"
    return kind


def run_sizes(outer: int, inner: int, imperfect: bool, npkind: str | None = None):
    gpfs, _, _ = _impl()
    try:
        if npkind is None:
            got = _as_list(gpfs(outer, imperfect, inner))
        else:
            # bypass the lru_cache so that the body really runs with numpy scalars
            o = NP_TYPES[_np_type_for(outer, npkind)](outer)
            i = NP_TYPES[_np_type_for(inner, npkind)](inner)
            got = _as_list(gpfs.__wrapped__(o, imperfect, i, 1))
    except Exception as e:  # observation
        got = f"raise:{type(e).__name__}:{e}"
    viol = None
    if not imperfect:
        exp = ref_perfect(outer, inner)
        nontriv = len(_prime_exponents(outer // inner)) >= 2
        if isinstance(got, str):
            viol = ("exception", exp)
        elif set(got) != set(exp):
            missing = sorted(set(exp) - set(got))
            extra = sorted(set(got) - set(exp))
            fam = "perfect/" + ("missing-divisor" if missing else "") + ("+" if missing and extra else "") + (
                "extra-nondivisor" if extra else "")
            viol = (fam, exp)
    else:
        req, n_mult = ref_imperfect_required(outer, inner)
        exp = {"must_include": sorted(req), "max": outer}
        nontriv = n_mult > len(req)
        if isinstance(got, str):
            viol = ("exception", exp)
        else:
            missing = sorted(req - set(got))
            too_big = [g for g in got if g > outer]
            if missing or too_big:
                fam = "imperfect/" + ("missing-smallest-shape" if missing else "") + (
                    "+" if missing and too_big else "") + ("exceeds-outer" if too_big else "")
                viol = (fam, exp)
    if npkind is not None and viol is not None:
        viol = ("numpy-args/" + viol[0], viol[1])
    return got, exp, viol, nontriv


def run_factorize(n: int):
    _, fz, _ = _impl()
    try:
        got = _as_list(fz(n))
    except Exception as e:
        got = f"raise:{type(e).__name__}:{e}"
    exp = ref_divisors(n)
    viol = None
    if isinstance(got, str):
        viol = ("factorize/exception", exp)
    elif set(got) != set(exp):
        viol = ("factorize/" + ("missing-divisor" if set(exp) - set(got) else "extra-nondivisor"), exp)
    return got, exp, viol, len(_prime_exponents(n)) >= 2


def run_count(n: int, pattern: tuple):
    _, _, cf = _impl()
    pattern = tuple(bool(x) for x in pattern)
    try:
        got = cf(n, pattern)
        got = int(got) if got == int(got) else got
    except Exception as e:
        got = f"raise:{type(e).__name__}:{e}"
    exp = ref_count_chains(n, pattern)
    # reference self-consistency (a disagreement is a harness bug, not a finding)
    if n <= 20:
        assert ref_count_product_filter(n, pattern) == exp, ("reference disagreement", n, pattern)
    if not any(pattern) and len(pattern) >= 1:
        assert ref_count_all_perfect(n, len(pattern)) == exp, ("closed form disagreement", n, pattern)
    viol = None
    if got != exp:
        kind = "all-perfect" if not any(pattern) else ("all-imperfect" if all(pattern) else "mixed")
        viol = (f"count/{kind}/len={len(pattern)}", exp)
    return got, exp, viol, (len(pattern) >= 3 and n >= 4)


# ------------------------------------------------------------------ bodies
def _mk(kind, sample, got, exp, viol, nontriv):
    v = None
    if viol is not None:
        v = {"observed": got, "expected": viol[1], "family": viol[0],
             "note": f"{kind}: implementation disagrees with brute force", "config": sample}
    oc = kind if viol is None else "violation"
    return Result(outcome=(got if isinstance(got, (str, int)) else tuple(got)), nontrivial=nontriv,
                  violation=v, sample=sample, outcome_class=oc)


def body_sizes(mode):
    imperfect = mode == "imperfect"

    def body(cfg):
        outer, inner = cfg[0], cfg[1]
        got, exp, viol, nt = run_sizes(outer, inner, imperfect)
        s = {"fn": "get_possible_factor_sizes", "outer": outer, "inner": inner, "imperfect": imperfect,
             "np": None}
        return _mk(mode, s, got, exp, viol, nt)

    return body


def body_np(cfg):
    npkind, imperfect, outer, inner = cfg
    got, exp, viol, nt = run_sizes(outer, inner, imperfect, npkind)
    s = {"fn": "get_possible_factor_sizes", "outer": outer, "inner": inner, "imperfect": imperfect,
         "np": npkind}
    return _mk("numpy-args", s, got, exp, viol, nt)


def body_factorize(cfg):
    n = cfg[1]
    got, exp, viol, nt = run_factorize(n)
    return _mk("factorize", {"fn": "_factorize", "n": n}, got, exp, viol, nt)


def body_count(cfg):
    n, pattern = cfg
    got, exp, viol, nt = run_count(n, pattern)
    return _mk("count", {"fn": "_count_factorizations", "n": n, "pattern": [bool(x) for x in pattern]},
               got, exp, viol, nt)


# ------------------------------------------------------------------ trees
def sizes_tree(n_max, mode):
    outers = list(range(1, n_max + 1))

    def tree(p):
        if len(p) == 0:
            return outers
        if len(p) == 1:
            o = p[0]
            return ref_divisors(o) if mode == "perfect" else list(range(1, o + 1))
        return None

    return tree


def np_tree(n_max):
    def tree(p):
        if len(p) == 0:
            return ["tight", "i64"]
        if len(p) == 1:
            return [False, True]
        if len(p) == 2:
            return list(range(1, n_max + 1))
        if len(p) == 3:
            return ref_divisors(p[2])
        return None

    return tree


def factorize_tree(n_max, n_blocks=64):
    size = -(-n_max // n_blocks)

    def tree(p):
        if len(p) == 0:
            return list(range(n_blocks))
        if len(p) == 1:
            return [n for n in range(p[0] * size + 1, min(n_max, (p[0] + 1) * size) + 1)]
        return None

    return tree


def count_tree(n_max, max_len=4):
    patterns = [pt for k in range(0, max_len + 1) for pt in itertools.product((False, True), repeat=k)]

    def tree(p):
        if len(p) == 0:
            return list(range(1, n_max + 1))
        if len(p) == 1:
            return patterns
        return None

    return tree


def run(ctx):
    q = ctx.quick
    _impl()  # import once in the parent
    N = 512 if q else 4096
    NF = 4096 if q else 16384
    NC = 64 if q else 360
    NNP = 300 if q else 1100
    # one worker pool for all five families (level 0 = family name)
    fam = {
        "factorize": (factorize_tree(NF), body_factorize),
        "perfect": (sizes_tree(N, "perfect"), body_sizes("perfect")),
        "imperfect": (sizes_tree(N, "imperfect"), body_sizes("imperfect")),
        "numpy-args": (np_tree(NNP), body_np),
        "count": (count_tree(NC), body_count),
    }

    def tree(p):
        if len(p) == 0:
            return list(fam)
        return fam[p[0]][0](p[1:])

    def body(cfg):
        return fam[cfg[0]][1](cfg[1:])

    ctx.explore("all", tree, body, shard_depth=2, distinct_by_construction=True)
    ctx.bound(outer_max=N, inner="perfect: every divisor of outer; imperfect: every inner <= outer",
              coarseness=1, factorize_n_max=NF, count_n_max=NC, count_pattern_len_max=4,
              numpy_args_outer_max=NNP)
    ctx.note("imperfect mode is judged as 'includes the smallest shape for every achievable tile count and "
             "never exceeds outer' (superset), exactly as the statement is worded; shapes that are not "
             "multiples of inner (e.g. outer=12, inner=4 -> [4, 6, 12]) are therefore not flagged")


def replay(ctx, rec):
    c = rec["config"]
    if c["fn"] == "_factorize":
        got, exp, viol, _ = run_factorize(c["n"])
    elif c["fn"] == "_count_factorizations":
        got, exp, viol, _ = run_count(c["n"], tuple(c["pattern"]))
    else:
        got, exp, viol, _ = run_sizes(c["outer"], c["inner"], c["imperfect"], c.get("np"))
    return {"observed": got, "expected": viol[1] if viol else exp, "violation": viol is not None}
