"""C32 — the parallel runner returns each job's result in job order.

Alphabet / bound / oracle (DESIGN.md section 4, C32; scheduler: section 3.5, mc/sched.py).
The real ``accelforge.util.parallel.parallel()`` is driven with joblib's ``Parallel``
replaced (module global rebound, no source change) by ``mc.sched.VirtualParallel``,
whose delivery order is an explicit choice sequence.  Alphabet: input shape {list,
dict with scrambled-int / "k10"<"k9" string / unsortable mixed keys,
return_as="generator", "generator_unordered"} x n_jobs {1,2,3,16} (as argument and
via set_n_parallel_jobs) x pbar {None,"x"} x job values {identifying (i,i*i),
duplicate-valued} x N jobs x completion order.  Bound: N = 0..6 with EVERY
completion order (874 per combination; tasks and results cross a cloudpickle boundary
as with loky; N <= 3 also with every job in a fresh fork); N in {7,8,16,17} with every
<= 2-deviation schedule + reversal / rotations / interleave, N=64 with every
<= 1-deviation schedule + the named orders (thorough: also <= 2 deviations for
N in {32,33,64} on a reduced set of combinations); see ``virtual_phases``.
Oracle (reference values from a table, written separately from the job body): list ->
a list with job i's value at position i; dict -> a dict with the input's key order,
each key mapping to its own job's value; "generator" -> submission order;
"generator_unordered" -> the multiset of values.

``traces_validated_against_impl`` counts ONLY the conformance replays (DESIGN 3.6):
schedules forced on the REAL joblib/loky backend with engineered sleeps (job of rank
r finishes (r+1)*60 ms after a common start signal; n_jobs 2, 3, 16) whose measured
completion order was the intended one and whose result was compared with the virtual
run of the same schedule and with the oracle (13 in quick, 42 in thorough).  A
free-running pass on real loky (n_jobs 2 and 16) is a smoke test of the pickling boundary.

Mutation self-test (2026-09-21; scratch copy /tmp/af-mut-c32 of /repo, only
accelforge/util/parallel.py edited, ``VERIF_REPO=/tmp/af-mut-c32 ./check C32 --tier
quick``, copy removed afterwards).  All mutants CAUGHT (exit 1):
  (a) list path collects in completion order: ``results = []`` / ``results.append(result)``
      instead of ``results[i] = result``.  87 878 virtual violations, family
      list/permuted-order/wrong-position, smallest: N=2, choices (1,) = completion order
      [1,0].  NOT caught by any 0-deviation schedule: all 1 120 submission-order
      executions of the run pass -- only schedules with >= 1 deviation see it, which is why
      completion orders are enumerated.  Also caught by the 5 forced-order list replays on
      real loky; the free-running real pass caught it in 2 resp. 5 of its 60 runs in two
      attempts (long lists on a loaded box: luck, not coverage).
  (b1) dict path ``return result`` (completion order) instead of re-keying in jobs order:
      ~88 000 violations per key scheme, family dict:<scheme>/permuted-order/key-order,
      smallest N=2 order [1,0]; passes every 0-deviation schedule.
  (b2) dict path pairs keys with values by position
      (``for k, (_, v) in zip(jobs, parallel(...unordered...))``): family
      dict:<scheme>/permuted-order/wrong-key-value (~88 000 per scheme), smallest N=2 order
      [1,0]; passes every 0-deviation schedule.
  (c) index tagging off by one: ``enumerate(jobs, 1)`` -> IndexError, family
      list/default-order/exception (154) and list/permuted-order/exception (88 094):
      caught by EVERY schedule incl. the 0-deviation one, smallest N=2; variant
      ``results[i - 1] = result`` -> list/default-order/wrong-position (142) and
      list/permuted-order/wrong-position (88 082).  N=0 and the serial shortcuts are
      unaffected in both.
  (d) worker-side store (``f`` writes ``results[i]`` in the worker and returns None):
      caught only where tasks cross the pickle boundary (pickled / isolated virtual phases:
      118 default-order + 12 026 permuted-order wrong-position; forced and free real loky);
      the pickle=False phases pass it -- that is what the cloudpickle flag of the scheduler
      is for.
"""

from __future__ import annotations

import collections
import functools
import importlib
import itertools

from mc import sched as S
from mc.explorer import Result

MANIFEST = {
    "text": "the real parallel() is executed under a controlled scheduler substituted for joblib.Parallel "
            "on every completion order of every job list of 0..6 jobs, every <=2-deviation order "
            "(+reversal/rotations/interleave) of 7, 8, 16, 17 jobs (thorough: also 32, 33, 64 on a reduced set "
            "of combinations) and every <=1-deviation order of 64 jobs, for list/dict/generator inputs, "
            "n_jobs 1/2/3/16 and pbar on/off, and compared with the per-job reference values; right level because the only "
            "nondeterminism of the runner is the completion order, which the scheduler enumerates instead "
            "of hoping sleeps produce it",
    "note": "trusted: joblib's documented delivery contract (modelled by mc/sched.VirtualParallel and tied to "
            "the real loky backend by forced-order conformance replays); jobs are pure and picklable; "
            "lengths > 64 and > 2 deviations beyond 6 jobs not covered; 42 (quick: 13) schedules replayed on real loky",
    "technique": "bounded exhaustive schedule enumeration (stateless explicit-state model checking) vs reference model",
}

RULE = (
    "choice tree: input shape x n_jobs source (argument / set_n_parallel_jobs) x n_jobs x pbar x job-value "
    "family x N x schedule, the schedule being an increasing list of (delivery point, menu choice) deviations "
    "from submission order (all of them for N<=6, at most 2 beyond, plus named orders); distinct = distinct "
    "tuples (by construction: every schedule has exactly one deviation list); NON-TRIVIAL = parallel() really "
    "opened a scheduled Parallel site (n_jobs>1, N>=2, unordered collection) and that site delivered the "
    "results in an order different from submission order (>=1 deviation taken)"
)
ASSUMPTIONS = [
    "joblib contract: return_as list/generator deliver in submission order, generator_unordered in completion "
    "order; every job runs exactly once; tasks/results cross a (cloud)pickle boundary when n_jobs != 1",
    "every completion order is considered possible (over-approximation: K real workers can only produce orders "
    "with order[p] <= p+K-1)",
    "jobs are pure functions of their arguments with picklable, comparable results; exceptions inside jobs, "
    "job lists longer than 64 and nested parallel() calls are outside the bound",
    "conformance replays rely on 60 ms sleep steps dominating dispatch jitter (checked: the measured completion "
    "order must equal the intended one, otherwise the replay is repeated with a doubled step / not counted)",
]

MODES = ("list", "dict:scr", "dict:str", "dict:mix", "generator_unordered", "generator")
UNORDERED_MODES = MODES[:5]
VALUES = ("id", "dup")


# ----------------------------- jobs and reference -----------------------------

def work(i, values="id"):
    """The job body (module level: picklable by reference in loky workers)."""
    if values == "id":
        return (i, i * i)
    return ("d", i // 2)  # jobs 2m and 2m+1 return equal values


_SQUARES = list(itertools.accumulate(range(1, 2 * 130, 2), initial=0))  # 0,1,4,9,... as sums of odd numbers


def expected_value(values, i):
    """Reference value of job i (written independently of `work`: table look-up / shift)."""
    if values == "id":
        return (i, _SQUARES[i])
    return ("d", (i - (i % 2)) >> 1)


def key_of(scheme, i, n):
    if scheme == "scr":  # scrambled, distinct for i < 67, insertion order is not sorted order
        return (i * 29 + 5) % 67
    if scheme == "str":  # insertion order k<n>, ..., k1: lexicographic sort ("k10" < "k9") differs
        return f"k{n - i}"
    if scheme == "mix":  # ints and strings: sorted() would not even be defined
        return i if i % 2 else f"s{i}"
    raise ValueError(scheme)


def make_jobs(mode, values, n):
    jobs = [(work, (i,), {"values": values}) for i in range(n)]
    if mode.startswith("dict:"):
        return {key_of(mode[5:], i, n): j for i, j in enumerate(jobs)}
    return jobs


@functools.lru_cache(maxsize=None)
def reference(mode, values, n):
    """What the property promises for this input (never mutated by the callers)."""
    vals = [expected_value(values, i) for i in range(n)]
    if mode.startswith("dict:"):
        return [(key_of(mode[5:], i, n), v) for i, v in enumerate(vals)]  # ordered (key, value) pairs
    return vals


def oracle(mode, out, exp):
    """None if `out` satisfies the property for this input shape, else a short kind."""
    if isinstance(out, str) and out.startswith("raise:"):
        return "exception"
    if mode == "list":
        if not isinstance(out, list):
            return "wrong-type"
        if len(out) != len(exp):
            return "wrong-length"
        return None if all(o == e for o, e in zip(out, exp)) else "wrong-position"
    if mode.startswith("dict:"):
        if not isinstance(out, dict):
            return "wrong-type"
        keys = [k for k, _ in exp]
        if len(out) != len(keys) or set(map(repr, out)) != set(map(repr, keys)):
            return "wrong-keys"
        if any(out[k] != v for k, v in exp):
            return "wrong-key-value"
        return None if list(out) == keys else "key-order"
    if mode == "generator":
        return None if out == exp else ("wrong-length" if len(out) != len(exp) else "wrong-order")
    if mode == "generator_unordered":
        return None if collections.Counter(out) == collections.Counter(exp) else "wrong-multiset"
    raise ValueError(mode)


def _jsonable_out(out):
    if isinstance(out, dict):
        return [[repr(k), v] for k, v in out.items()]
    return out


# ----------------------------- driving the implementation -----------------------------

def _pmod():
    return importlib.import_module("accelforge.util.parallel")


def call_parallel(mode, via, n_jobs, pbar, values, n):
    """One call of the real parallel(); generators are consumed here (inside the
    installed scheduler).  An implementation exception is an observation."""
    P = _pmod()
    jobs = make_jobs(mode, values, n)
    kw = {}
    if mode in ("generator", "generator_unordered"):
        kw["return_as"] = mode
    if pbar is not None:
        kw["pbar"] = pbar
    if via == "arg":
        kw["n_jobs"] = n_jobs
    try:
        out = P.parallel(jobs, **kw)
        if mode in ("generator", "generator_unordered"):
            out = list(out)
    except S.ScheduleError:
        raise
    except Exception as e:  # noqa: BLE001
        out = f"raise:{type(e).__name__}:{e}"
    return out


def run_virtual(mode, via, n_jobs, pbar, values, n, choices, pickle=True, exec_mode="shared"):
    sch = S.Schedule({0: tuple(choices)} if choices else {}, pickle=pickle, mode=exec_mode,
                     record_menus=False)
    with S.installed(sch, n_jobs if via == "global" else None):
        out = call_parallel(mode, via, n_jobs, pbar, values, n)
    return out, sch


def has_menu(mode, n_jobs, n):
    """Does this configuration reach an unordered Parallel site with a real menu?"""
    return mode != "generator" and n_jobs != 1 and n >= 2


def path_name(mode, n_jobs, n, choices, backend="virtual"):
    if n_jobs == 1 or n == 1:
        return "serial-shortcut"
    if backend == "real-free":
        return "uncontrolled-order"
    return "permuted-order" if S.n_deviations(choices) else "default-order"


def make_result(phase, backend, mode, via, n_jobs, pbar, values, n, choices, out, trace,
                pickle, exec_mode, validated, extra=None, evaluations=1):
    exp = reference(mode, values, n)
    kind = oracle(mode, out, exp)
    sites = [r for r in trace if not r.nested]
    delivered = list(sites[0].order) if sites else None
    applied = bool(sites) and sites[0].has_menu and delivered != sorted(delivered)
    path = path_name(mode, n_jobs, n, choices, backend)
    if backend == "real-free":
        order = None  # whatever the OS made of it
    else:
        order = S.choices_to_order(choices, n) if has_menu(mode, n_jobs, n) else list(range(n))
    sample = {"phase": phase, "backend": backend, "mode": mode, "via": via, "n_jobs": n_jobs,
              "pbar": pbar, "values": values, "N": n, "choices": list(choices), "order": order,
              "pickle": pickle, "exec_mode": exec_mode}
    if extra:
        sample.update(extra)
    viol = None
    if kind is not None:
        how = ("free-running real backend, completion order not controlled" if order is None else
               f"completion order {order} (feasible with >= {S.min_workers_for(order)} workers)")
        viol = {"observed": _jsonable_out(out), "expected": _jsonable_out(dict(exp) if mode.startswith("dict:") else exp),
                "family": f"{mode}/{path}/{kind}" + ("" if backend == "virtual" else f"@{backend}"),
                "note": f"parallel() result violates the {mode} contract ({kind}); {how}",
                "config": sample}
    if kind is not None:
        outcome = ("viol", mode, kind, repr(out)[:200])
    elif mode == "generator_unordered" and backend == "real-free":
        outcome = ("ok", mode, values, n, "uncontrolled order")
    elif mode == "generator_unordered":
        seen = out if n <= 8 else (out[:2] + out[-1:])
        outcome = ("ok", mode, values, n, repr(seen))
    else:
        outcome = ("ok", mode, values, n)  # out == reference(mode, values, n)
    return Result(outcome=outcome, nontrivial=applied, validated=validated, violation=viol,
                  sample=sample, evaluations=evaluations,
                  outcome_class=f"{phase}|{'ok' if kind is None else kind}|{path}")


# ----------------------------- choice trees -----------------------------

STOP = "."
NJ = (1, 2, 3, 16)
PB = (None, "x")


def token_choices(tokens, n):
    """Schedule tokens (deviation tuples, optional named order / STOP) -> choices."""
    toks = [t for t in tokens if t != STOP]
    if toks and isinstance(toks[0], str):
        return S.order_to_choices(S.named_order(toks[0][1:], n))
    return S.devs_to_choices(toks)


def phase(name, lengths, max_dev, *, modes=MODES, vias=("arg",), n_jobs=NJ, pbars=PB, values=VALUES,
          named=S.NAMED_ORDERS, pickle=True, exec_mode="shared"):
    """One family of the virtual exploration.  max_dev: max deviations per schedule
    (None = every completion order)."""
    return {"name": name, "head": [list(modes), list(vias), list(n_jobs), list(pbars), list(values), list(lengths)],
            "max_dev": max_dev, "named": tuple(named), "pickle": pickle, "exec_mode": exec_mode}


def virtual_phases(quick):
    """quick keeps every input shape everywhere but thins n_jobs / values out on the long
    lists (under the virtual scheduler n_jobs 2, 3 and 16 take the same code path)."""
    slim = dict(n_jobs=(1, 2, 16), values=("id",)) if quick else {}
    ph = [
        # every completion order, N = 0..6, tasks/results cross the cloudpickle boundary
        phase("perm-N0..6-pickled", range(0, 7), None, named=()),
        phase("perm-N0..%d-pickled-global-n_jobs" % (4 if quick else 6), range(0, 5 if quick else 7), None,
              vias=("global",), named=()),
        # every job in a fresh fork ("isolated" execution mode of the scheduler)
        phase("perm-N0..3-isolated", range(0, 4), None, modes=("list", "dict:str"), n_jobs=(2,),
              pbars=(None,), values=("id",), named=(), exec_mode="isolated"),
        # <= 2 deviations + named orders on longer lists (no pickling: ~10^6 schedules)
        phase("dev2-N7,8", (7, 8), 2, pickle=False),
        phase("dev2-N16,17", (16, 17), 2, pickle=False, **slim),
        # the same with the pickle boundary: <= 1 deviation + named orders
        phase("dev1-N7..17-pickled", (7, 8, 16, 17), 1, **slim),
    ]
    if quick:
        ph += [phase("dev1-N64", (64,), 1, pickle=False, **slim),
               phase("named-N64-pickled", (64,), 0, **slim)]
    else:
        ph += [phase("dev1-N64", (64,), 1, vias=("arg", "global"), pickle=False),
               phase("dev1-N32..64-pickled", (32, 33, 64), 1)]
    return ph


def heavy_phases():
    """thorough only: <= 2 deviations on 32/33/64 jobs for a reduced set of combinations."""
    return [phase("dev2-N32,33", (32, 33), 2, n_jobs=(2, 16), pbars=(None,), values=("id",), pickle=False),
            phase("dev2-N64", (64,), 2, modes=("list", "dict:str", "generator"),
                  n_jobs=(1, 16), pbars=(None,), values=("id",), pickle=False)]


def virtual_tree(phases):
    """levels: phase, mode, via, n_jobs, pbar, values, N, then the schedule written as an
    increasing list of deviation tokens (mc.sched.deviation_menu), closed by STOP, or one
    named order."""
    by_name = {ph["name"]: ph for ph in phases}

    def tree(p):
        if not p:
            return [ph["name"] for ph in phases]
        ph = by_name[p[0]]
        if len(p) < 7:
            return ph["head"][len(p) - 1]
        mode, via, n_jobs, pbar, vals, n = p[1:7]
        toks = p[7:]
        if not has_menu(mode, n_jobs, n):
            return None  # the order is fixed by contract / by the serial shortcut
        if toks and (toks[-1] == STOP or isinstance(toks[-1], str)):
            return None
        k = n - 1 if ph["max_dev"] is None else ph["max_dev"]
        if len(toks) >= k:
            return None
        menu = [STOP] + S.deviation_menu(n, toks)
        if not toks:
            for name in ph["named"]:
                if S.n_deviations(S.order_to_choices(S.named_order(name, n))) > k:
                    menu.append("@" + name)
        return menu

    return tree


def virtual_body(phases):
    by_name = {ph["name"]: ph for ph in phases}

    def body(cfg):
        ph = by_name[cfg[0]]
        mode, via, n_jobs, pbar, vals, n = cfg[1:7]
        choices = token_choices(cfg[7:], n)
        out, sch = run_virtual(mode, via, n_jobs, pbar, vals, n, choices, ph["pickle"], ph["exec_mode"])
        # virtual executions are compared with the oracle, but by the project's counting
        # rule (DESIGN 3.6) only real-backend conformance replays count as "validated"
        return make_result(ph["name"], "virtual", mode, via, n_jobs, pbar, vals, n, choices, out,
                           sch.trace, ph["pickle"], ph["exec_mode"], validated=False)

    return body


# ----------------------------- real joblib / loky -----------------------------

def conformance_battery(quick):
    """Fixed battery of (mode, via, n_jobs, pbar, values, N, completion order).  Orders for
    n_jobs 2 / 3 are feasible for that many FIFO workers (sched.min_workers_for)."""
    items = []

    def add(q, mode, n_jobs, n, order, via="arg"):
        order = S.named_order(order, n) if isinstance(order, str) else list(order)
        assert S.min_workers_for(order) <= n_jobs, (order, n_jobs)
        i = len(items)
        items.append((q, mode, via, n_jobs, (None, "x")[i % 2], VALUES[(i // 2) % 2], n, tuple(order)))

    # A: 16 workers, list input, every completion order of 3 jobs
    for order in itertools.permutations(range(3)):
        add(order in ((2, 1, 0), (1, 2, 0)), "list", 16, 3, order)
    # B: 16 workers, every unordered input shape x N in {4,6} x {reversal, interleave}
    for mode in UNORDERED_MODES:
        for n in (4, 6):
            for name in ("reversal", "interleave"):
                add((mode, n, name) in (("list", 6, "reversal"), ("dict:str", 4, "interleave"),
                                        ("dict:mix", 6, "reversal"), ("generator_unordered", 4, "reversal"),
                                        ("generator_unordered", 6, "interleave"), ("dict:scr", 4, "reversal")),
                    mode, 16, n, name)
    # C: ordered generator: completion order forced, delivery must stay submission order
    add(True, "generator", 16, 4, "reversal")
    add(False, "generator", 16, 5, "rot+1")
    # D: one job per worker at the worker count of this box
    for mode in ("list", "generator_unordered"):
        for n in (12, 16):
            for name in ("rot+1", "reversal"):
                add((mode, n, name) == ("list", 12, "rot+1"), mode, 16, n, name, via="global")
    # E/F: fewer workers than jobs (orders feasible for K FIFO workers)
    add(True, "list", 3, 5, (2, 0, 1, 4, 3))
    add(False, "dict:str", 3, 6, (1, 2, 0, 4, 5, 3))
    add(False, "generator_unordered", 3, 7, (1, 2, 3, 4, 5, 6, 0))
    add(True, "list", 2, 4, (1, 0, 3, 2))
    add(False, "generator_unordered", 2, 5, "rot+1")
    add(True, "dict:mix", 2, 4, (1, 2, 3, 0), via="global")
    return [it[1:] for it in items if it[0] or not quick]


_WARM: set = set()


def _prepare_real_backend(n_jobs):
    """Start the loky workers for this worker count before anything is timed.  The module
    accelforge.util.parallel is registered for pickling *by value*: the helper `_dict_job`
    then travels to the workers as code (like the closure `f` of the list path already
    does), so the workers never import the accelforge package (2-3 s each, 16 workers)."""
    if not _WARM:
        import cloudpickle

        cloudpickle.register_pickle_by_value(_pmod())
    if n_jobs not in _WARM:
        S.warm_real_backend(n_jobs, modules=("mc.checks.c32",))
        _WARM.add(n_jobs)


def _shutdown_real_backend():
    S.shutdown_real_backend()
    _WARM.clear()


def run_conformance(mode, via, n_jobs, pbar, values, n, order, step=S.DEFAULT_STEP):
    _prepare_real_backend(n_jobs)
    choices = S.order_to_choices(order)
    # strict=False: for return_as="generator" the virtual site has no menu while the real
    # backend can still be forced into the completion order
    sch = S.Schedule({0: choices} if choices else {}, strict=False)
    return S.conformance_run(lambda: call_parallel(mode, via, n_jobs, pbar, values, n), sch,
                             n_jobs=(n_jobs if via == "global" else None), step=step, retries=3)


class _Rec:
    """SiteRecord.to_json() dict with attribute access (what make_result needs)."""

    def __init__(self, d):
        self.__dict__.update(d)


def conformance_body(cfg):
    mode, via, n_jobs, pbar, values, n, order = cfg
    choices = S.order_to_choices(order)
    r = run_conformance(mode, via, n_jobs, pbar, values, n, order)
    real_trace = [_Rec(t) for t in r["real_trace"]]
    ok = r["achieved"] and r["same_sites"]
    res = make_result("conformance", "real-forced", mode, via, n_jobs, pbar, values, n, choices,
                      r["real"], real_trace, True, "loky", validated=ok,
                      extra={"order": list(order), "step": r["step"], "attempts": r["attempts"],
                             "achieved": r["achieved"],
                             "completed": r["real_trace"][0]["completed"] if r["real_trace"] else None},
                      evaluations=2)  # one virtual + one real run count; retries are in the outcome class
    if res.violation is None:
        vk = oracle(mode, r["virtual"], reference(mode, values, n))
        if vk is not None:  # cannot happen if the virtual phases were silent
            res.violation = {"observed": _jsonable_out(r["virtual"]), "expected": "see oracle",
                             "family": f"{mode}/virtual-in-conformance/{vk}", "config": res.sample,
                             "note": "virtual run of a conformance item violates the oracle"}
        elif ok and not r["equal"]:
            res.violation = {"observed": {"real": _jsonable_out(r["real"])},
                             "expected": {"virtual": _jsonable_out(r["virtual"])},
                             "family": f"conformance-mismatch/{mode}", "config": res.sample,
                             "note": "real loky run forced into the schedule's completion order returned a "
                                     "different value than the virtual scheduler: the scheduler model is wrong"}
    if not ok:
        res.nontrivial = False
        res.outcome_class = f"conformance|order-not-achieved|{mode},n_jobs={n_jobs},N={n}"
    else:
        res.outcome_class += f"|real-attempts={r['attempts']}"
    return res


def free_body(cfg):
    """Free-running real joblib (the original Parallel, nothing installed)."""
    mode, n_jobs, pbar, values, n = cfg
    _prepare_real_backend(n_jobs)
    out = call_parallel(mode, "arg", n_jobs, pbar, values, n)
    return make_result("free-running", "real-free", mode, "arg", n_jobs, pbar, values, n, (), out,
                       [], True, "loky", validated=False)


def real_items(quick):
    """Conformance replays and free-running runs, by growing worker count (2, 3, 16) so
    that the reusable loky executor only ever grows."""
    battery = conformance_battery(quick)
    free_n = [0, 2, 5, 17, 64] if quick else [0, 1, 2, 3, 5, 8, 17, 64]
    free = [(mode, nj, pb, vals, n) for nj in (2, 16) for mode in MODES
            for pb in ([None] if quick else PB) for vals in (["id"] if quick else VALUES) for n in free_n]
    items = []
    for nj in (2, 3, 16):
        items += [("conformance", it) for it in battery if it[2] == nj]
        items += [("free", it) for it in free if it[1] == nj]
    return items, len(battery), len(free)


def real_tree(items):
    def tree(p):
        if len(p) == 0:
            return list(range(len(items)))
        if len(p) == 1:
            return [items[p[0]]]
        return None

    return tree


def real_body(cfg):
    kind, item = cfg[1]
    return conformance_body(item) if kind == "conformance" else free_body(item)


# ----------------------------- run -----------------------------

def run(ctx):
    q = ctx.quick
    P = _pmod()  # imports accelforge once, before forking
    assert P.Parallel.__module__.startswith("joblib"), "accelforge.util.parallel.Parallel is not joblib's"

    phases = virtual_phases(q)
    ctx.explore("virtual-scheduler", virtual_tree(phases), virtual_body(phases), shard_depth=7,
                distinct_by_construction=True)
    if not q:
        heavy = heavy_phases()
        ctx.explore("virtual-scheduler-2dev-N32..64", virtual_tree(heavy), virtual_body(heavy),
                    shard_depth=8, distinct_by_construction=True)
        phases = phases + heavy
    n_virtual = ctx.total.evaluations
    n_virtual_nontrivial = ctx.total.nontrivial

    # real joblib / loky: in this process, serially, after the last fork of the explorer
    # (seed=0: the order of these items only matters for the executor's size changes)
    items, n_battery, n_free = real_items(q)
    try:
        st = ctx.explore("real-joblib-loky", real_tree(items), real_body, shard_depth=1, workers=1,
                         seed=0, distinct_by_construction=True)
    finally:
        _shutdown_real_backend()  # before the scratch directory (the workers' cwd) is removed
    n_conf = st.validated

    ctx.extra_cov["conformance_replays_on_real_joblib"] = n_conf
    ctx.extra_cov["conformance_battery_size"] = n_battery
    ctx.extra_cov["virtual_schedule_executions_compared_with_oracle"] = n_virtual
    ctx.extra_cov["virtual_schedules_with_permuted_delivery"] = n_virtual_nontrivial
    ctx.extra_cov["free_running_real_joblib_runs"] = n_free
    ctx.note(f"{n_conf} of {n_battery} conformance replays forced the intended completion order on the real "
             f"joblib/loky backend (60 ms sleep steps, n_jobs 2/3/16) and agreed with the virtual scheduler and "
             f"the oracle; only these are counted in traces_validated_against_impl")
    ctx.note(f"{n_virtual} executions of the real parallel() under the virtual scheduler were compared with the "
             f"oracle ({n_virtual_nontrivial} with a permuted delivery order); {n_free} free-running runs on "
             f"real loky (n_jobs 2 and 16) as a smoke test of the pickling boundary")
    ctx.note("real-backend runs ship accelforge.util.parallel._dict_job by value (cloudpickle."
             "register_pickle_by_value) so that loky workers need not import the accelforge package")
    if n_conf < n_battery:
        ctx.note(f"{n_battery - n_conf} conformance replays did not reach the intended completion order even "
                 f"after three step doublings (timing noise); their results still satisfied the oracle but they "
                 f"are not counted as validated")
    ctx.bound(all_completion_orders_up_to_N=6,
              schedules_per_combination_N0_6=sum(S.count_site_schedules(n) for n in range(7)),
              phases={ph["name"]: {"N": ph["head"][5], "max_deviations": ph["max_dev"], "named_orders": list(ph["named"]),
                                   "modes": ph["head"][0], "n_jobs_via": ph["head"][1], "n_jobs": ph["head"][2],
                                   "pbar": [str(x) for x in ph["head"][3]], "values": ph["head"][4],
                                   "pickle": ph["pickle"], "exec_mode": ph["exec_mode"],
                                   "schedules_per_site": {str(n): S.count_site_schedules(n, ph["max_dev"])
                                                          for n in ph["head"][5]}}
                      for ph in phases},
              conformance_sleep_step_s=S.DEFAULT_STEP, conformance_n_jobs=[2, 3, 16], free_running_n_jobs=[2, 16])


# ----------------------------- replay -----------------------------

def replay(ctx, rec):
    c = rec["config"]
    mode, via, n_jobs, pbar, values, n = c["mode"], c["via"], c["n_jobs"], c["pbar"], c["values"], c["N"]
    exp = reference(mode, values, n)
    if c["backend"] == "virtual":
        out, sch = run_virtual(mode, via, n_jobs, pbar, values, n, tuple(c["choices"]), c["pickle"],
                               c["exec_mode"])
        obs = {"result": _jsonable_out(out), "delivery_order": sch.orders().get(0)}
    else:
        if c["backend"] == "real-forced":
            r = run_conformance(mode, via, n_jobs, pbar, values, n, c["order"], step=c.get("step", S.DEFAULT_STEP))
            out = r["real"]
            if oracle(mode, out, exp) is None and oracle(mode, r["virtual"], exp) is None \
                    and r["achieved"] and not r["equal"]:
                return {"observed": {"real": _jsonable_out(out), "virtual": _jsonable_out(r["virtual"])},
                        "expected": "real == virtual", "violation": True}
        else:
            _prepare_real_backend(n_jobs)
            out = call_parallel(mode, "arg", n_jobs, pbar, values, n)
        _shutdown_real_backend()
        shown = sorted(out, key=repr) if mode == "generator_unordered" and isinstance(out, list) else out
        obs = {"result": _jsonable_out(shown)}  # timing-dependent details are left out
    kind = oracle(mode, out, exp)
    return {"observed": obs, "expected": _jsonable_out(dict(exp) if mode.startswith("dict:") else exp),
            "kind": kind, "violation": kind is not None}
