"""C02 — the returned Pareto front is complete, non-dominated and duplicate-free.

Same reference mapspace evaluation as C01 (every LoopTree of the spec's mapspace through
the real model).  For metric sets ENERGY|LATENCY and ENERGY|LATENCY|RESOURCE_USAGE:
(i) every valid LoopTree's objective vector is weakly dominated by a returned row,
(ii) no returned row is strictly dominated by another returned row,
(iii) no two returned rows have identical objective vectors.
"""

from __future__ import annotations

from mc import family as FAM
from mc.explorer import Result

MANIFEST = {
    "text": "for every spec of the small family the complete reference mapspace is evaluated by the real model; the "
            "front returned by the mapper for ENERGY|LATENCY and ENERGY|LATENCY|RESOURCE_USAGE must weakly dominate "
            "every one of those points, contain no dominated row and no duplicate vector",
    "note": "trusted: evaluate_mapping as cost oracle, reference enumerator; relative tolerance 1e-5 on float32 tables; "
            "usage vector = per-memory resource_usage()",
    "technique": "bounded exhaustive enumeration of the mapspace (explicit-state) x real model vs real mapper front",
}
RULE = ("one state per LoopTree of the reference mapspace (phase 1) and per (spec, metric set) mapper run (phase 2); "
        "non-trivial = the reference front has at least two points for that metric set")
ASSUMPTIONS = ["see C01", "a returned row may weakly dominate a reference point within relative 1e-5"]

METRICS = ["EL", "ELR"]
REL = 1e-5
_REFS: dict = {}


def vec_ref(p, metric, mems):
    return (p[0], p[1]) + (tuple(p[2]) if metric == "ELR" else ())


def vec_row(r, metric, mems):
    return (r["energy"], r["latency"]) + (tuple(r["usage"][m] for m in mems) if metric == "ELR" else ())


def leq(a, b):
    return all(x <= y * (1 + REL) + 1e-9 for x, y in zip(a, b))


def strictly_dominates(a, b):
    return all(x <= y for x, y in zip(a, b)) and any(x < y * (1 - REL) - 1e-9 for x, y in zip(a, b))


def front(vs):
    out = []
    for v in set(vs):
        if not any(w != v and all(x <= y for x, y in zip(w, v)) for w in set(vs)):
            out.append(v)
    return sorted(out)


def body(cfg):
    sid, metric = cfg
    ref = _REFS[sid]
    mems = ref["mems"]
    res = FAM.run_mapper(sid, metric)
    rows = [vec_row(r, metric, mems) for r in res["rows"]]
    refv = front([vec_ref(p, metric, mems) for p in ref["points"]])
    sample = {"spec": sid, "metric": metric, "returned_rows": len(rows), "reference_front": len(refv),
              "reference_trees": ref["n_trees"]}
    viol = None
    if res["error"] is not None and refv:
        viol = {"observed": res["error"], "expected": f"{len(refv)} front points", "family": "mapper-raises"}
    if viol is None:
        missing = [v for v in refv if not any(leq(r, v) for r in rows)]
        if missing:
            viol = {"observed": {"rows": rows[:12]}, "expected": {"not weakly dominated": missing[:6]},
                    "family": f"front-incomplete/{metric}"}
    if viol is None:
        dom = [(a, b) for i, a in enumerate(rows) for j, b in enumerate(rows) if i != j and strictly_dominates(a, b)]
        if dom:
            viol = {"observed": {"dominated row": dom[0][1], "by": dom[0][0]}, "expected": "no dominated row",
                    "family": f"dominated-row-returned/{metric}"}
    if viol is None:
        if len(set(rows)) != len(rows):
            d = [r for r in rows if rows.count(r) > 1][0]
            viol = {"observed": {"duplicate": d}, "expected": "no duplicate vectors",
                    "family": f"duplicate-vector/{metric}"}
    if viol is None:
        # a returned row that no reference point reaches is outside the mapspace (or under-reported)
        outside = [r for r in rows if not any(leq(v, r) for v in [vec_ref(p, metric, mems) for p in ref["points"]])]
        if outside:
            viol = {"observed": {"row": outside[0]}, "expected": "weakly dominated by some mapspace point",
                    "family": f"row-outside-mapspace/{metric}"}
    if viol:
        viol["config"] = sample
    return Result(outcome=(sid, metric, tuple(sorted(rows))), nontrivial=len(refv) >= 2, violation=viol, sample=sample)


def run(ctx):
    sids = FAM.QUICK_SIDS if ctx.quick else FAM.THOROUGH_SIDS
    _REFS.update(FAM.compute_refs(ctx, sids, orders="alpha"))
    ctx.explore("front-vs-reference", lambda p: sids if len(p) == 0 else (METRICS if len(p) == 1 else None),
                body, shard_depth=2, distinct_by_construction=True)
    ctx.bound(specs=sids, metrics=METRICS)


def replay(ctx, rec):
    c = rec["config"]

    class _C:
        seed = 0
        extra_cov = {}

        def absorb(self, *a, **k):
            pass

    _REFS.update(FAM.compute_refs(_C(), [c["spec"]]))
    r = body((c["spec"], c["metric"]))
    return {"observed": r.violation and r.violation["observed"], "expected": r.violation and r.violation["expected"],
            "violation": bool(r.violation)}
