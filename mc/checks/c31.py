"""C31 — Toll components pass data through without storing it.

Phase A (concrete mappings).  Alphabet: every single-Einsum LoopTree of the reference
mapspace (mc/ref/mapspace.py) of MM1(2,2,2), MM1(4,2,2), MV1(4,2), MV1(2,4) on
Main > Buf > MAC, with a Toll node ("S","Toll",t) inserted for every non-empty subset of
the Einsum's tensors -- directly above that tensor's first Buf node (or directly above
the compute when Buf does not hold it; placement "adj"), or directly below the Main
storage nodes above all loops (placement "top") -- on the architecture
Main > Toll(direction per tensor) > Buf > MAC, for every per-tensor direction assignment
from {down, up, up_and_down} (thorough: all 63 distinct (subset, directions-on-subset)
pairs; quick: the 3 rows of a Latin square x all 7 subsets), crossed with parameter rows
(skip_initial_output_write of Main/Buf/MAC, Toll values_per_action / bits_per_action per
component and per action, Toll throughput and leak).
Oracle (from the property statement, executed by R-exec mc/ref/looptree_exec.py, an
explicit set-based loop-nest executor): (1) the Toll has zero write actions; (2) the
Toll never shows up in reservations / memory usage and every memory's usage equals that
of the same tree without the Toll nodes; (3) every other component's per-tensor action
counts equal those of the same tree without the Toll nodes (real model, differential);
(4) Toll read actions per tensor == number of values that cross it in a counted
direction in the explicit execution (down: fills of the holder below from the holder
above, operand reads of the compute; up: write-backs from below) / values-per-action;
(5) energy(with) - energy(without) and latency agree with the same difference in R-exec.

Phase B (mapper results).  Every row returned by map_workload_to_arch on Toll
architectures for MM1 / MV2 / MM2 / MV3 x keep variants x direction variants x metric
sets: no Toll node is the outermost holder of a tensor shared between Einsums, every
returned mapping re-evaluates (evaluate_mapping exactly as main.py:eval_mapping) without
error, no Toll reservation / usage / write action appears in the joined or re-evaluated
table, and for single-Einsum results the Toll's read actions equal R-exec's.

Calibration of R-exec's Toll rule (2026-09-21, unchanged tree): the first, uncalibrated
version charged a Toll for a skippable first read of a never-written output value iff
the PARENT's read side was charged; the documented semantics (analyze_storage: "Toll ->
... it inherits the value from the child") is: iff the CHILD below takes the value
(child's skip_initial_output_write is False).  Fixed in looptree_exec.execute (two
toll-only branches); after the fix 0 mismatches on 1197 + 11 x 252 + 11 x 162 probe
configurations incl. all mixed skip settings; C05 re-run: passes; C06 re-run: its
single-Einsum and fused phases pass (its mapper-rows phase reports MV2-224/Hfin/pers-x2,
which uses peak_occupancy only, no Toll and not `execute`; it fired before this change too).

Mutation self-test (2026-09-21/22).  Full quick runs through mc/mutant.sh:
  * _symbolic.py analyze_toll: count_writes=True                           -> caught
    (model-raises-on-toll-tree x13125: analyze_toll's own assert fires; mapper KeyError x42)
  * _symbolic.py analyze_toll: count_up ignores the direction (always True) -> caught
    (toll-reads/down/out/above-buf/over x2096, toll-reads/down/out/above-compute/over x404)
Targeted runs (compare_A on 210 phase-A configurations + 3 phase-B runs on a patched copy):
  * analyze_toll: max_occupancy not zeroed        -> caught (model raises KeyError 'Toll' when it
    builds the reservation: model-raises-on-toll-tree; mapper-raises-on-toll-arch/KeyError)
  * make_storages.py: Toll keep/may_keep not intersected with Above -> caught (the mapper then
    dies with an AssertionError on MM2 / MV2: mapper-raises-on-toll-arch/AssertionError)
  * analyze_toll: count_down = direction != "down" (flipped) -> caught (toll-reads/down/*/under,
    toll-reads/up/*/over, toll-reads/mapper-row/down)
  * analyze_storage: a Toll does not inherit skip_initial_output_write (skip_initial = False)
    -> caught differentially (other-component-changed/Main:read x120 of 210)
"""

from __future__ import annotations

import itertools
from copy import deepcopy

from mc import afx
from mc import specs as S
from mc.explorer import Result
from mc.ref import looptree_exec as X
from mc.ref import mapspace as MS

MANIFEST = {
    "text": "every LoopTree of the reference mapspace of small single-Einsum workloads with Toll nodes inserted for "
            "every subset of tensors and every per-tensor direction assignment is evaluated by the real model with "
            "and without the Toll nodes and by an explicit set-based executor: Toll writes and occupancy must be zero, "
            "all other components unchanged, Toll reads == values crossing in a counted direction / values-per-action; "
            "plus every mapper result on Toll architectures (no Toll outermost holder of a shared tensor, every "
            "returned mapping re-evaluates). Exhaustive within the bounds, which a single golden total cannot give",
    "note": "trusted: R-exec's Toll rule as the executable reading of the statement (calibrated); bounds: rank sizes "
            "<= 4, one Toll level between two memories, temporal loops only, <= 3 Einsums for mapper results",
    "technique": "bounded exhaustive enumeration of LoopTrees x Toll subsets x directions on the real model vs explicit executor",
}
RULE = ("phase A: configuration = (workload, parameter row, LoopTree, Toll subset with directions, placement), "
        "canonicalised by dropping the directions of tensors without a Toll node; non-trivial = the output tensor has a "
        "Toll node (both flows exist) or some Toll tensor's direction is not up_and_down (the filter matters). phase B: "
        "configuration = (workload, keep variant, direction variant, metric set); non-trivial = some returned mapping "
        "contains a Toll node")
ASSUMPTIONS = [
    "a skippable first read of a never-written output value crosses the Toll iff the child below takes it (documented "
    "in analyze_storage: the Toll inherits skip_initial_output_write from its child)",
    "operand reads / partial-sum updates of the compute count as crossings when the Toll sits directly above the compute",
    "spatial loops and several Toll levels are outside the bounds",
]

TOL = 2.0 ** -20
TOLL = "Toll"
DIRS = ("down", "up", "up_and_down")

# ------------------------------------------------------------------ phase A fixtures

WORKLOADS = {
    "MM1-222": S.MM1(2, 2, 2),
    "MM1-422": S.MM1(4, 2, 2),
    "MV1-42": S.MV1(4, 2),
    "MV1-24": S.MV1(2, 4),
}

ROWS = {
    "base": {},
    "buf-noskip": dict(buf=dict(skip=False)),
    "main-noskip": dict(main=dict(skip=False)),
    "mac-noskip": dict(mac=dict(skip=False)),
    "all-noskip": dict(main=dict(skip=False), buf=dict(skip=False), mac=dict(skip=False)),
    "toll-vpa": dict(toll=dict(vpa=(("Inputs", 2),), bpa=4)),
    "toll-actvpa": dict(toll=dict(act_vpa=(("read", "Outputs", 4),), act_bpa=(("read", 2),))),
    "toll-thr-leak": dict(toll=dict(read_throughput=2, leak=0.5), buf=dict(read_throughput=4, write_throughput=8)),
}


def tensors_of(wl):
    return [t for t, _, _ in wl.tensors_of("E0")]


def base_arch():
    return S.Arch(nodes=(S.Mem("Main", S.INF, 7, 11, keep="~Intermediates", may_keep="All"),
                         S.Mem("Buf", S.INF, 2, 3, keep=None, may_keep="All"), S.Comp("MAC", 5, 1)))


def toll_arch(row_id, dirs: dict):
    kw = ROWS[row_id]
    main = dict(name="Main", size=S.INF, read_energy=7, write_energy=11, keep="~Intermediates", may_keep="All")
    buf = dict(name="Buf", size=S.INF, read_energy=2, write_energy=3, keep=None, may_keep="All")
    toll = dict(name=TOLL, kind="Toll", read_energy=100, keep=None, may_keep="All",
                direction="{" + ", ".join(f"{k}: {v}" for k, v in dirs.items()) + "}")
    mac = dict(name="MAC", energy=5, throughput=1)
    main.update(kw.get("main", {})); buf.update(kw.get("buf", {})); toll.update(kw.get("toll", {}))
    mac.update(kw.get("mac", {}))
    return S.Arch(nodes=(S.Mem(**main), S.Mem(**toll), S.Mem(**buf), S.Comp(**mac)))


_TREES: dict = {}


def trees_of(wl_id):
    if wl_id not in _TREES:
        _TREES[wl_id] = list(MS.single_einsum_trees(base_arch(), WORKLOADS[wl_id], "E0"))
    return _TREES[wl_id]


_FIX: dict = {}


def fixture(wl_id, row_id, dirs_tuple):
    key = (wl_id, row_id, dirs_tuple)
    if key not in _FIX:
        wl = WORKLOADS[wl_id]
        dirs = dict(zip(tensors_of(wl), dirs_tuple))
        arch = toll_arch(row_id, dirs)
        spec = S.build_spec(arch, wl, S.Knobs("E"))
        _FIX.clear()
        _BASE.clear()
        _FIX[key] = (wl, arch, dirs, afx.prepare(spec))
    return _FIX[key]


def insert_tolls(tree, subset, placement):
    out = list(tree)
    if placement == "top":
        i = 0
        while out[i][0] == "S" and out[i][1] == "Main":
            i += 1
        for t in reversed(subset):
            out.insert(i, ("S", TOLL, t))
        return out
    for t in subset:
        idx = None
        for i, n in enumerate(out):
            if n[0] == "S" and n[1] == "Buf" and n[2] == t:
                idx = i
                break
        if idx is None:
            idx = len(out) - 1  # directly above the compute
        out.insert(idx, ("S", TOLL, t))
    return out


def model_obs(m):
    """-> (actions {(comp,tensor,action): v}, usage {mem: v}, toll reservation/usage columns, energy, latency),
    read from the raw `<SEP>` columns of the single-row model table (the accessors of Mappings are C28's subject
    and cost a third of a model evaluation each)."""
    row = m.data.iloc[0]
    acts, ru, occ = {}, {}, []
    for c in m.data.columns:
        parts = c.split("<SEP>")
        if len(parts) == 5 and parts[1] == "action":
            k = (parts[2], parts[3], parts[4])
            acts[k] = acts.get(k, 0.0) + float(row[c])
        elif parts[0] == "reservation" and len(parts) == 4:
            ru[parts[1]] = max(ru.get(parts[1], 0.0), float(row[c]))
        if TOLL in parts and ("reservation" in parts or "usage" in parts):
            occ.append((c, float(row[c])))
    return acts, ru, occ, float(row["Total<SEP>energy"]), float(row["Total<SEP>latency"])


_BASE: dict = {}


def base_obs(prep, key, tree):
    if key not in _BASE:
        _BASE.clear()
        _BASE[key] = model_obs(afx.evaluate_tree(prep, tree))
        return _BASE[key], 1
    return _BASE[key], 0


def close(a, b, tol=TOL):
    return abs(a - b) <= tol * max(1.0, abs(b))


def compare_A(wl_id, row_id, dirs_tuple, tree_index, subset, placement):
    """-> (outcome, violation|None, evaluations)"""
    wl, arch, dirs, prep = fixture(wl_id, row_id, dirs_tuple)
    tree = trees_of(wl_id)[tree_index]
    ttree = insert_tolls(tree, subset, placement)
    (b_acts, b_ru, _b_occ, b_e, b_l), n_eval = base_obs(prep, (wl_id, row_id, dirs_tuple, tree_index), tree)
    outs = {t for t, _, o in wl.tensors_of("E0") if o}
    bufheld = {n[2] for n in tree if n[0] == "S" and n[1] == "Buf"}
    # reference: explicit execution with and without the Toll nodes
    ref = X.finish(X.execute(ttree, arch, wl, directions={TOLL: dirs}), arch, wl, "E0")
    ref0 = X.finish(X.execute(tree, arch, wl, directions={TOLL: dirs}), arch, wl, "E0")
    exp_reads = {t: float(ref.actions.get((TOLL, t, "read"), 0)) for t in subset}
    outcome = tuple(round(exp_reads[t], 4) for t in subset)
    try:
        m = afx.evaluate_tree(prep, ttree, tolls=(TOLL,))
    except Exception as e:
        got = f"raise:{type(e).__name__}"
        return outcome, {"observed": got + ":" + str(e)[:300], "expected": "a result (valid mapping, all sizes inf)",
                         "family": "model-raises-on-toll-tree"}, n_eval + 1
    acts, ru, occ, e_got, l_got = model_obs(m)
    n_eval += 1
    # (1) zero writes
    w = {"|".join(map(str, k)): v for k, v in acts.items() if k[0] == TOLL and k[2] != "read" and v}
    if w:
        return outcome, {"observed": w, "expected": "no Toll action other than read", "family": "toll-write-actions"}, n_eval
    # (2) zero occupancy, memory usage unaffected
    nz = [c for c in occ if c[1]]
    if nz or TOLL in ru:
        return outcome, {"observed": {"toll_columns": nz, "usage": ru}, "expected": "no Toll reservation / usage",
                         "family": "toll-occupancy"}, n_eval
    bad_ru = {k: (ru.get(k, 0.0), b_ru.get(k, 0.0)) for k in set(ru) | set(b_ru)
              if not close(ru.get(k, 0.0), b_ru.get(k, 0.0))}
    if bad_ru:
        return outcome, {"observed": {k: v[0] for k, v in bad_ru.items()}, "expected": {k: v[1] for k, v in bad_ru.items()},
                         "family": "memory-usage-changed-by-toll"}, n_eval
    # (3) other components unchanged
    other = {}
    for k in set(acts) | set(b_acts):
        if k[0] == TOLL:
            continue
        if not close(acts.get(k, 0.0), b_acts.get(k, 0.0)):
            other["|".join(map(str, k))] = (acts.get(k, 0.0), b_acts.get(k, 0.0))
    if other:
        comps = sorted({k.split("|")[0] + ":" + k.split("|")[2] for k in other})
        return outcome, {"observed": {k: v[0] for k, v in other.items()}, "expected": {k: v[1] for k, v in other.items()},
                         "family": "other-component-changed/" + "+".join(comps),
                         "note": "counts of a non-Toll component differ from the same tree without Toll nodes"}, n_eval
    # (4) toll reads
    for t in sorted(set(subset) | {k[1] for k in acts if k[0] == TOLL}):
        g = acts.get((TOLL, t, "read"), 0.0)
        e = exp_reads.get(t, 0.0)
        if not close(g, e):
            fam = "toll-reads/{}/{}/{}/{}".format(dirs.get(t, "?"), "out" if t in outs else "in",
                                                  "above-buf" if t in bufheld else "above-compute",
                                                  "over" if g > e else "under")
            return outcome, {"observed": {f"{TOLL}|{t}|read": g}, "expected": {f"{TOLL}|{t}|read": e}, "family": fam,
                             "note": "Toll read actions != values crossing in a counted direction / values-per-action"}, n_eval
    # (5) energy / latency deltas
    de_exp = float(ref.energy) - float(ref0.energy)
    if abs((e_got - b_e) - de_exp) > 8 * TOL * max(1.0, abs(float(ref.energy))):
        return outcome, {"observed": {"energy_delta": e_got - b_e}, "expected": {"energy_delta": de_exp},
                         "family": "toll-energy-delta"}, n_eval
    dl_exp = float(ref.latency) - float(ref0.latency)
    if abs((l_got - b_l) - dl_exp) > 8 * TOL * max(1.0, abs(float(ref.latency))):
        return outcome, {"observed": {"latency_delta": l_got - b_l}, "expected": {"latency_delta": dl_exp},
                         "family": "toll-latency-delta"}, n_eval
    return outcome, None, n_eval


SUBSETS_CACHE: dict = {}


def subsets(tens):
    return [s for r in range(1, len(tens) + 1) for s in itertools.combinations(tens, r)]


def latin(n):
    return [tuple(DIRS[(i + j) % 3] for j in range(n)) for i in range(3)]


CHUNK = 8


def make_tree_A(plan, thorough):
    """plan item: (wl_id, row_id, stride, placements, full_dirs)"""
    def tree(p):
        if len(p) == 0:
            return list(range(len(plan)))
        wl_id, row_id, stride, placements, full = plan[p[0]]
        tens = tensors_of(WORKLOADS[wl_id])
        if len(p) == 1:
            return list(itertools.product(DIRS, repeat=len(tens))) if full else latin(len(tens))
        idxs = list(range(0, len(trees_of(wl_id)), stride))
        if len(p) == 2:
            return list(range((len(idxs) + CHUNK - 1) // CHUNK))
        if len(p) == 3:
            return idxs[p[2] * CHUNK:(p[2] + 1) * CHUNK]
        if len(p) == 4:
            dirs = dict(zip(tens, p[1]))
            menu = []
            for s in subsets(tens):
                # canonical: tensors without a Toll node carry the filler direction
                if full and any(dirs[t] != "up_and_down" for t in tens if t not in s):
                    continue
                for pl in placements:
                    menu.append((s, pl))
            return menu
        return None
    return tree


def make_body_A(plan):
    def body(cfg):
        wl_id, row_id, stride, placements, full = plan[cfg[0]]
        dirs_tuple, tree_index, (subset, placement) = cfg[1], cfg[3], cfg[4]
        outcome, viol, n_eval = compare_A(wl_id, row_id, dirs_tuple, tree_index, subset, placement)
        wl = WORKLOADS[wl_id]
        tens = tensors_of(wl)
        dirs = dict(zip(tens, dirs_tuple))
        outs = {t for t, _, o in wl.tensors_of("E0") if o}
        sample = {"phase": "A", "workload": wl_id, "row": row_id, "dirs": list(dirs_tuple), "tree_index": tree_index,
                  "subset": list(subset), "placement": placement,
                  "tree": afx.tree_str(insert_tolls(trees_of(wl_id)[tree_index], subset, placement))}
        if viol:
            viol["config"] = sample
        nontriv = bool(set(subset) & outs) or any(dirs[t] != "up_and_down" for t in subset)
        canon = [wl_id, row_id, tree_index, [[t, dirs[t]] for t in subset], placement]
        return Result(outcome=outcome, nontrivial=nontriv, violation=viol, sample=sample, canon=canon,
                      evaluations=n_eval, outcome_class="A")
    return body


# ------------------------------------------------------------------ phase B: mapper

def T2(size=S.INF, main_keep="~Intermediates", main_may="All", toll_keep="All", toll_may="All", buf_keep="All",
       buf_may="All", direction="up_and_down", toll_e=100):
    return S.Arch(nodes=(S.Mem("Main", S.INF, 10, 10, keep=main_keep, may_keep=main_may),
                         S.Mem(TOLL, kind="Toll", read_energy=toll_e, keep=toll_keep, may_keep=toll_may,
                               direction=direction),
                         S.Mem("Buf", size, 1, 1, keep=buf_keep, may_keep=buf_may), S.Comp("MAC", 1, 1)))


B_WORKLOADS = {
    "MM1-222": S.MM1(2, 2, 2), "MM1-422": S.MM1(4, 2, 2), "MV2-222": S.MV2(2, 2, 2), "MV2-424": S.MV2(4, 2, 4),
    "MM2-2222": S.MM2(2, 2, 2, 2), "MV3-2222": S.MV3(2, 2, 2, 2),
}
B_KEEP = {
    # the configuration of tests/input_files/toll_no_outer.arch.yaml: Toll keeps All, Main excludes intermediates
    "toll-all": dict(toll_keep="All", buf_keep="All"),
    "toll-all-tight": dict(toll_keep="All", buf_keep="All", size_frac=0.4),
    "toll-may": dict(toll_keep=None, toll_may="All", buf_keep="~Main"),
    "toll-inter": dict(toll_keep="Intermediates", buf_keep="All", size_frac=0.6),
    "toll-outputs-buf-may": dict(toll_keep="Outputs", buf_keep="~Main", buf_may="All", size_frac=0.5),
    "main-all": dict(main_keep="All", toll_keep="All", buf_keep="All", size_frac=0.75),
    "cheap-toll": dict(toll_keep=None, toll_may="All", buf_keep="~Main", toll_e=0.5, size_frac=0.5),
}
B_DIRS = {"ud": "up_and_down", "io": "{Inputs: down, Outputs: up}", "down": "down", "up": "up"}


def b_arch(wl_id, keepv, dirv):
    from mc import family as FAM

    kw = dict(B_KEEP[keepv])
    frac = kw.pop("size_frac", None)
    wl = B_WORKLOADS[wl_id]
    size = S.INF if frac is None else FAM.sized(wl, frac)
    return wl, T2(size=size, direction=B_DIRS[dirv], **kw)


def flat_paths(nodes, prefix=()):
    """Root-to-compute paths of a (possibly split) tree."""
    for i, n in enumerate(nodes):
        if n[0] == "SEQ":
            for b in n[1]:
                yield from flat_paths(b, prefix + tuple(nodes[:i]))
            return
    yield prefix + tuple(nodes)


def shared_tensors(wl):
    cnt = {}
    for e in wl.einsums:
        for t, _, _ in wl.tensors_of(e[0]):
            cnt[t] = cnt.get(t, 0) + 1
    return {t for t, c in cnt.items() if c > 1}


def body_B(cfg):
    from accelforge.mapper.FFM.main import map_workload_to_arch
    from accelforge.model.main import evaluate_mapping

    wl_id, keepv, dirv, metric = cfg
    sample = {"phase": "B", "workload": wl_id, "keep": keepv, "direction": dirv, "metric": metric}
    wl, arch = b_arch(wl_id, keepv, dirv)
    spec = S.build_spec(arch, wl, S.Knobs(metric))
    try:
        r = map_workload_to_arch(spec, print_progress=False, eval_in_detail=False)
    except Exception as e:
        return Result(outcome="mapper-raised", nontrivial=False, sample=sample,
                      violation={"observed": f"{type(e).__name__}: {str(e)[:300]}", "expected": "mappings",
                                 "family": "mapper-raises-on-toll-arch/" + type(e).__name__, "config": sample})
    shared = shared_tensors(wl)
    bad, fam = [], None
    n_toll_rows = 0
    n_eval = 1
    sigs = []
    dirs_all = None
    for i in range(len(r.data)):
        row = r.data.iloc[i]
        mapping = row["Total<SEP>mapping"](_for_model=True)
        nodes = afx.mapping_to_tree(mapping)
        ts = afx.tree_str(nodes)
        has_toll = f"@{TOLL}]" in ts
        n_toll_rows += has_toll
        sigs.append(ts)
        # joined table: no Toll reservation columns
        for c in r.data.columns:
            parts = c.split("<SEP>")
            if TOLL in parts and parts[0] in ("reservation", "usage") and float(row[c]) != 0:
                bad.append({"tree": ts, "column": c, "value": float(row[c])})
                fam = fam or "toll-occupancy/joined-table"
        # outermost holder of every shared tensor
        for path in flat_paths(nodes):
            first = {}
            for n in path:
                if n[0] == "S" and n[2] not in first:
                    first[n[2]] = n[1]
            for t in shared:
                if first.get(t) == TOLL:
                    bad.append({"tree": ts, "tensor": t, "outermost_holder": TOLL})
                    fam = fam or "toll-outermost-holder-of-shared-tensor"
        # re-evaluation exactly as main.py:eval_mapping
        local = deepcopy(spec)
        local.model.metrics = local.mapper.info_metrics
        local.mapping = mapping
        n_eval += 1
        try:
            m = evaluate_mapping(local, flattened_arches=r.flattened_arches, evaluated_specs=r.evaluated_specs)
        except Exception as e:
            bad.append({"tree": ts, "reevaluation": f"{type(e).__name__}: {str(e)[:200]}"})
            fam = fam or "returned-mapping-does-not-reevaluate/" + type(e).__name__
            continue
        mrow = m.data.iloc[0]
        for c in m.data.columns:
            parts = c.split("<SEP>")
            if TOLL not in parts:
                continue
            v = mrow[c]
            if ("reservation" in parts or "usage" in parts) and float(v) != 0:
                bad.append({"tree": ts, "column": c, "value": float(v)})
                fam = fam or "toll-occupancy/model-table"
            if "action" in parts and parts[-1] != "read" and float(v) != 0:
                bad.append({"tree": ts, "column": c, "value": float(v)})
                fam = fam or "toll-write-actions/model-table"
        # single-Einsum results: Toll reads == explicit execution
        if len(wl.einsums) == 1 and has_toll and not any(n[0] == "P" for n in nodes):
            tens = tensors_of(wl)
            outs = {t for t, _, o in wl.tensors_of("E0") if o}
            d = B_DIRS[dirv]
            dirs = {t: (d if not d.startswith("{") else ("up" if t in outs else "down")) for t in tens}
            ref = X.finish(X.execute(nodes, arch, wl, directions={TOLL: dirs}), arch, wl, "E0")
            acts = m.actions(per_component=True, per_tensor=True)
            for t in tens:
                g = float(acts.get((TOLL, t, "read"), 0.0))
                e = float(ref.actions.get((TOLL, t, "read"), 0))
                if not close(g, e):
                    bad.append({"tree": ts, "tensor": t, "toll_reads": g, "expected": e})
                    fam = fam or "toll-reads/mapper-row/" + dirs[t]
    viol = None
    if bad:
        viol = {"observed": bad[:4], "expected": "no Toll outermost holder of a shared tensor; re-evaluates; zero Toll "
                                                 "occupancy/writes; Toll reads == crossings", "family": fam, "config": sample}
    return Result(outcome=(len(r.data), n_toll_rows, jh(sigs)), nontrivial=n_toll_rows > 0, violation=viol,
                  evaluations=n_eval, sample=dict(sample, rows=len(r.data), first_tree=sigs[0] if sigs else None),
                  outcome_class="B")


def jh(x):
    from mc.explorer import jhash

    return jhash(sorted(x)) % (1 << 32)


def tree_B(quick):
    if quick:
        wls = ["MM1-222", "MV2-222", "MM2-2222"]
        keeps = ["toll-all", "toll-all-tight", "toll-may", "toll-inter", "cheap-toll"]
        dirs = ["ud", "io"]
        metrics = ["E", "ELR"]
    else:
        wls = list(B_WORKLOADS)
        keeps = list(B_KEEP)
        dirs = list(B_DIRS)
        metrics = ["E", "EL", "ELR"]

    def tree(p):
        if len(p) == 0:
            return wls
        if len(p) == 1:
            return keeps
        if len(p) == 2:
            return dirs
        if len(p) == 3:
            return metrics if not quick or p[1] in ("toll-all", "toll-all-tight") else ["E"]
        return None
    return tree, dict(workloads=wls, keep_variants=keeps, directions=dirs, metrics=metrics)


# ------------------------------------------------------------------------------ run

def plan_A(quick):
    if quick:
        return [
            ("MM1-222", "base", 2, ("adj",), False),
            ("MV1-42", "base", 3, ("adj", "top"), False),
            ("MM1-422", "base", 12, ("adj",), False),
            ("MM1-222", "all-noskip", 11, ("adj",), False),
            ("MM1-222", "main-noskip", 13, ("adj",), False),
            ("MM1-222", "buf-noskip", 12, ("adj",), False),
            ("MM1-222", "toll-vpa", 14, ("adj",), False),
            ("MM1-222", "toll-actvpa", 15, ("adj",), False),
            ("MM1-222", "toll-thr-leak", 17, ("adj",), False),
        ]
    plan = [
        ("MM1-222", "base", 1, ("adj", "top"), True),
        ("MV1-42", "base", 1, ("adj", "top"), True),
        ("MM1-422", "base", 1, ("adj",), False),
        ("MV1-24", "base", 1, ("adj",), False),
    ]
    for row in ROWS:
        if row != "base":
            plan.append(("MM1-222", row, 1, ("adj",), False))
    return plan


def warm():
    """Import the mapper / model modules and run each once in the parent so that forked workers inherit
    the imports, jitted kernels and sympy caches."""
    compare_A("MM1-222", "base", ("down", "up", "up_and_down"), 0, ("T0", "T1"), "adj")
    body_B(("MM1-222", "toll-all-tight", "io", "ELR"))
    _FIX.clear()
    _BASE.clear()


def run(ctx):
    afx.serial()
    plan = plan_A(ctx.quick)
    for it in plan:
        trees_of(it[0])
    warm()
    ctx.explore("toll-trees", make_tree_A(plan, not ctx.quick), make_body_A(plan), shard_depth=3,
                distinct_by_construction=False)
    treeB, boundsB = tree_B(ctx.quick)
    ctx.explore("mapper-rows", treeB, body_B, shard_depth=4, distinct_by_construction=True)
    ctx.bound(phase_A=[{"workload": p[0], "row": p[1], "tree_stride": p[2], "placements": list(p[3]),
                        "directions": "all 3^n (canonical 63 subset/direction pairs)" if p[4] else "Latin square (3 rows) x 7 subsets"}
                       for p in plan],
              trees={w: len(trees_of(w)) for w in sorted({p[0] for p in plan})}, phase_B=boundsB)
    if ctx.quick:
        ctx.note("quick tier is a documented covering subset: Latin-square direction rows, strided tree lists for "
                 "parameter rows; thorough enumerates all direction assignments and all trees")


def replay(ctx, rec):
    afx.serial()
    c = rec["config"]
    if c["phase"] == "B":
        r = body_B((c["workload"], c["keep"], c["direction"], c["metric"]))
        return {"observed": r.violation and r.violation["observed"], "violation": bool(r.violation)}
    outcome, viol, _ = compare_A(c["workload"], c["row"], tuple(c["dirs"]), c["tree_index"], tuple(c["subset"]),
                                 c["placement"])
    return {"observed": viol and viol["observed"], "expected": viol and viol["expected"], "violation": bool(viol)}
