"""C18 — relaxing the mapspace never makes the optimum worse.

Alphabet: (spec, single relaxation, metric in {E, L, EDP}).  Family specs (mc/family.py) with the
relaxations: memory size /4 -> /2 -> 1 -> x2 -> inf, Buf.may_keep "Inputs" -> "All", Buf.keep "All" -> "~Main",
max_fused_loops 0 -> 1 -> inf (two-Einsum specs), explore_imperfect_temporal_loops False -> True.
Spatial specs = the repository's examples/arches/fanout_variations/*.yaml with
examples/workloads/basic/matmuls.yaml (N_EINSUMS 1..2, M/KN 3..8) with the relaxations
"loop_bounds constraint removed" and "min_usage 1 -> 0.5 -> 0".  Every (base, relaxed) pair is run
through the real mapper; oracle: opt(relaxed) <= opt(base) * (1 + 1e-5), where "no mapping"
(error 'No pmappings' / empty result) counts as +inf.  Differential between two mapper runs.

An exception of the mapper other than 'No pmappings' / 'No mappings found' is also read as "no
mapping" for the relation but is counted in outcome class "...:mapper-error:<Exception>" (see the
side finding below).

Mutation self-test (scratch copies /tmp/af-mut-*; under the machine load of the session each mutant
was run through `./check C18 --replay` on configurations of the quick tier, not the whole tier):
  1. make_tile_shapes.py get_possible_factor_sizes._try_admit `if n > outer_size` -> `if n >= outer_size`
     (imperfect mode never admits the untiled loop): CAUGHT, relaxation-worsens-optimum/imperfect-factorisation/E
     on MM1-422/tight, MM1-323/tight and MV2-222/tight.
  2. pmapping_dataframe.py limit_capacity `<= 1 + tolerance` -> `< 1 + tolerance`: MISSED by design - a
     validity rule that is uniformly stricter keeps every relaxed mapspace a superset of the base
     mapspace, so a monotonicity oracle cannot see it (C01 compares with the exact optimum).
  3. make_tile_shapes.py imperfect enumeration starts at `inner_size + 1` (tile == inner tile lost for
     the imperfect loop): MISSED - equivalent on the bound (the same LoopTrees are reachable through the
     inner loop whose tile is fixed to 1).
  4. make_tile_shapes.py max-fused-loop filter `n <= limit` -> `n == limit`: MISSED - on all MV2 specs of
     the bound the unfused optimum equals the fused one, max_fused_loops never changes the optimum.
  5. make_storages.py `may_keep -= must_keep` -> `must_keep -= may_keep`: every run raises (Main keeps
     nothing) -> all states "both-none": the tier exits 2 (VACUOUS), not 1.

Side finding seen while building this check (NOT a C18 violation; belongs to C01/C03): the mapper
aborts with accelforge.model.main.InvalidMappingError instead of discarding the template when a
pmapping template without free tile shapes overflows a memory, although valid mappings exist:
S.MV2(2,2,2) on S.H2(size=32) with max_fused_loops=0, or S.H2(size=8) with default knobs
("The mapping uses 64.0 bits of Buf but its size is only 32 bits").  run_model.py:180 raises for
fully numeric occupancies; make_pmappings_from_templates.py:234 re-raises every exception.
"""

from __future__ import annotations

import dataclasses

from mc import afx
from mc import family as FAM
from mc import treehash
from mc import specs as S
from mc.explorer import Result, jhash, pmap
from mc.yamlspec import YamlArch, YamlWL

MANIFEST = {
    "text": "for every spec of a small family (and the repository's spatial fanout examples at small sizes) and every "
            "single documented relaxation, the real mapper is run on the base and on the relaxed spec for energy, "
            "latency and EDP and the relaxed optimum must not be worse; the relation is a metamorphic input-output "
            "property of the whole mapper, so exhaustive small-scope enumeration of specs x relaxations is the right level",
    "note": "trusted: nothing (differential between two runs of the implementation; the absolute optimum is C01's job); "
            "each relaxation is applied alone; relative tolerance 1e-5 for float32 tables; an error of the mapper counts "
            "as 'no mapping' (+inf)",
    "technique": "bounded exhaustive enumeration of specs x single relaxations x metrics; metamorphic comparison of mapper runs",
}
RULE = ("one state per (spec, relaxation, metric), distinct by construction; non-trivial = the relaxation matters: "
        "the relaxed optimum is strictly better than the base optimum, or the base has no mapping and the relaxed has one")
ASSUMPTIONS = [
    "float32 result tables: opt(relaxed) <= opt(base) * (1 + 1e-5)",
    "a mapper error (e.g. 'No pmappings') is read as 'no mapping', i.e. +inf",
    "min_usage: 'if no mapping satisfies the constraint the highest-usage mappings may be returned' still makes a lower "
    "min_usage a superset of the mapspace",
]

METRICS = ["E", "L", "EDP"]
REL = 1e-5
INF = float("inf")

# ------------------------------------------------------------------ family variants

def _edit_mem(arch, name, **ch):
    nodes = list(arch.nodes)
    for i, n in enumerate(nodes):
        if isinstance(n, S.Mem) and n.name == name:
            nodes[i] = dataclasses.replace(n, **ch)
    return S.Arch(nodes=tuple(nodes), variables=arch.variables)


def fam_variant(sid, variant):
    """-> (arch, wl, knobs).  variant = '+'-joined atoms."""
    wl, arch = FAM.FAMILY[sid]
    knobs = []
    for atom in variant.split("+"):
        if atom == "default":
            continue
        if atom.startswith(("x2:", "inf:", "div2:", "div4:")):
            how, mem = atom.split(":")
            cur = [n for n in arch.memories if n.name == mem][0].size
            assert str(cur) != "inf"
            new = {"x2": 2 * cur, "inf": S.INF, "div2": max(8, cur // 2 // 8 * 8), "div4": max(8, cur // 4 // 8 * 8)}[how]
            arch = _edit_mem(arch, mem, size=new)
        elif atom == "may-inputs":
            arch = _edit_mem(arch, "Buf", may_keep="Inputs")
        elif atom == "may-outputs":
            arch = _edit_mem(arch, "Buf", may_keep="Outputs")
        elif atom == "keep-all":
            arch = _edit_mem(arch, "Buf", keep="All")
        elif atom.startswith("mfl"):
            knobs.append(("max_fused_loops", int(atom[3:])))
        elif atom == "imperfect":
            knobs.append(("explore_imperfect_temporal_loops", True))
        else:
            raise ValueError(atom)
    return arch, wl, tuple(knobs)


def fam_relaxations(sid, quick):
    """-> list of (name, kind, base variant, relaxed variant)."""
    wl, arch = FAM.FAMILY[sid]
    out = []
    for m in arch.memories:
        if str(m.size) != "inf":
            n = m.name
            out.append((f"size-div4-to-div2:{n}", "larger-memory", f"div4:{n}", f"div2:{n}"))
            out.append((f"size-div2-to-1:{n}", "larger-memory", f"div2:{n}", "default"))
            if quick:
                out.append((f"size-1-to-inf:{n}", "larger-memory", "default", f"inf:{n}"))
            else:
                out.append((f"size-1-to-x2:{n}", "larger-memory", "default", f"x2:{n}"))
                out.append((f"size-x2-to-inf:{n}", "larger-memory", f"x2:{n}", f"inf:{n}"))
    buf = [m for m in arch.memories if m.name == "Buf"][0]
    out.append(("may_keep-Inputs-to-All:Buf", "larger-may_keep", "may-inputs", "default"))
    out.append(("keep-All-to-default:Buf", "smaller-keep", "keep-all", "default"))
    if not quick:
        out.append(("may_keep-Outputs-to-All:Buf", "larger-may_keep", "may-outputs", "default"))
        if str(buf.size) != "inf":
            out.append(("may_keep-Inputs-to-All:Buf@div2", "larger-may_keep", "div2:Buf+may-inputs", "div2:Buf"))
            out.append(("keep-All-to-default:Buf@x2", "smaller-keep", "x2:Buf+keep-all", "x2:Buf"))
            out.append(("imperfect-temporal-on@div2", "imperfect-factorisation", "div2:Buf", "div2:Buf+imperfect"))
    if len(wl.einsums) > 1:
        out.append(("max_fused_loops-0-to-1", "higher-max_fused_loops", "mfl0", "mfl1"))
        out.append(("max_fused_loops-1-to-inf", "higher-max_fused_loops", "mfl1", "default"))
    out.append(("imperfect-temporal-on", "imperfect-factorisation", "default", "imperfect"))
    return out


# ------------------------------------------------------------------ spatial (repository examples)

FAN_DIR = "arches/fanout_variations/"
LB_TEXT = "      loop_bounds:\n      - expression: ~m\n        operator: ==\n        value: 1\n"
FANOUT_LINE = "      fanout: 4\n"


def spatial_variant(sp, variant):
    an, n, m, kn = sp
    edits = []
    for atom in variant.split("+"):
        if atom == "default":
            continue
        if atom == "no-loop-bounds":
            edits.append((LB_TEXT, ""))
        elif atom.startswith("lb="):
            edits.append(("expression: ~m\n", f"expression: ~{atom[3:]}\n"))
        elif atom.startswith("min_usage="):
            edits.append((FANOUT_LINE, FANOUT_LINE + f"      min_usage: {atom[10:]}\n"))
        else:
            raise ValueError(atom)
    arch = YamlArch(FAN_DIR + an + ".yaml", tuple(edits))
    wl = YamlWL("workloads/basic/matmuls.yaml", (("N_EINSUMS", n), ("M", m), ("KN", kn)))
    return arch, wl, ()


def spatial_relaxations(sp, quick):
    an, n, m, kn = sp
    out = []
    if an == "at_mac_with_constraints":
        out.append(("loop_bounds-removed(~m==1)", "loop_bounds-removed", "default", "no-loop-bounds"))
        if not quick:
            for v in ("n0", "n1"):
                out.append((f"loop_bounds-removed(~{v}==1)", "loop_bounds-removed", f"lb={v}", "no-loop-bounds"))
            out.append(("min_usage-1-to-0+loop_bounds", "lower-min_usage", "min_usage=1", "default"))
    else:
        out.append(("min_usage-1-to-0.5", "lower-min_usage", "min_usage=1", "min_usage=0.5"))
        out.append(("min_usage-0.5-to-0", "lower-min_usage", "min_usage=0.5", "default"))
    return out


def spatial_id(sp):
    return f"{sp[0]}/N{sp[1]}-M{sp[2]}-KN{sp[3]}"


# ------------------------------------------------------------------ runs

def _spec_table(ctx):
    """-> {spec id: ("fam", sid) | ("spatial", sp)}"""
    q = ctx.quick
    tab = {}
    fam = (["MM1-422/tight", "MV2-222/mid-thr", "MM1-323/tight", "MM1-444/s96"] if q else
           list(FAM.MEDIUM_SIDS) + ["MM1-444/s96", "MM1-933/s160", "MM1-323/tight", "MM1-323/mid", "MM2-2222/tight", "MV2-442/mid", "MM1-222/H3",
                                    "MV1-42/H3", "MM1-1222/tight", "MV1-62/tight"])
    for sid in fam:
        tab[sid] = ("fam", sid)
    if q:
        sps = [("at_mac_with_constraints", n, m, kn) for n in (1, 2) for (m, kn) in ((4, 4), (6, 4))]
        sps += [("at_mac", 1, 6, 4), ("at_glb_with_fanout_node", 1, 3, 3)]
    else:
        shapes = ((4, 4), (6, 4), (4, 6), (6, 6), (3, 3), (8, 8), (5, 4))
        sps = [(an, n, m, kn) for an in ("at_mac_with_constraints", "at_mac", "at_glb", "at_mac_with_fanout_node",
                                         "at_glb_with_fanout_node") for n in (1, 2) for (m, kn) in shapes
               if not (n == 2 and m * kn > 36)]
    for sp in sps:
        tab[spatial_id(sp)] = ("spatial", sp)
    return tab


_TAB: dict = {}
_QUICK = [True]


def relaxations_of(spec_id):
    kind, x = _TAB[spec_id]
    return fam_relaxations(x, _QUICK[0]) if kind == "fam" else spatial_relaxations(x, _QUICK[0])


def run_variant(spec_id, variant, metric):
    kind, x = _TAB[spec_id]
    arch, wl, knobs = fam_variant(x, variant) if kind == "fam" else spatial_variant(x, variant)
    tag = f"{jhash(arch.yaml() + wl.yaml()):x}"[:8] if kind == "spatial" else ""
    return FAM.run_mapper(f"c18|{spec_id}|{variant}|{tag}", metric, knobs, arch=arch, wl=wl)


def opt_of(res, metric):
    """-> (value, class).  No mapping / mapper error = +inf."""
    if res["error"] is not None:
        e = res["error"]
        return INF, ("no-pmappings" if ("No pmappings" in e or "No mappings found" in e) else "error:" + e.split(":")[0])
    if not res["rows"]:
        return INF, "empty"
    return min(FAM.row_metric(r, metric) for r in res["rows"]), "ok"


def body(cfg):
    spec_id, rel, metric = cfg
    name, kind, vb, vr = [r for r in relaxations_of(spec_id) if r[0] == rel][0]
    rb, rr = run_variant(spec_id, vb, metric), run_variant(spec_id, vr, metric)
    (ob, cb), (orl, cr) = opt_of(rb, metric), opt_of(rr, metric)
    sample = {"spec": spec_id, "relaxation": name, "kind": kind, "metric": metric, "base_variant": vb,
              "relaxed_variant": vr, "opt_base": None if ob == INF else ob, "opt_relaxed": None if orl == INF else orl,
              "base_status": cb, "relaxed_status": cr}
    viol = None
    if orl > ob * (1 + REL) + 1e-9:
        wb = min(rb["rows"], key=lambda r: FAM.row_metric(r, metric))
        viol = {"observed": {"opt_relaxed": None if orl == INF else orl, "relaxed_status": cr, "relaxed_error": rr["error"],
                             "relaxed_tree": (min(rr["rows"], key=lambda r: FAM.row_metric(r, metric))["tree"]
                                              if rr["rows"] else None)},
                "expected": {"at_most": ob, "base_tree": wb["tree"]},
                "family": f"relaxation-worsens-optimum/{kind}/{metric}" + ("/relaxed-finds-nothing" if orl == INF else ""),
                "config": sample}
    nontriv = orl < ob * (1 - REL) if ob != INF else orl != INF
    oc = "both-none" if (ob == INF and orl == INF) else ("improved" if nontriv else "equal")
    if cb.startswith("error:") or cr.startswith("error:"):
        oc = "mapper-error:" + (cb if cb.startswith("error:") else cr)
    return Result(outcome=(spec_id, rel, metric, sample["opt_base"], sample["opt_relaxed"]), nontrivial=nontriv,
                  violation=viol, sample=sample, evaluations=2, outcome_class=f"{kind}:{oc}")


def _warm(item):
    run_variant(*item)
    return 1


def make_tree():
    ids = list(_TAB)

    def tree(p):
        if len(p) == 0:
            return ids
        if len(p) == 1:
            return [r[0] for r in relaxations_of(p[0])]
        if len(p) == 2:
            return METRICS
        return None
    return tree


def run(ctx):
    afx.serial()
    treehash.tree_hash()  # pin the cache key in the parent: all forked workers of this run share one cache directory
    _QUICK[0] = ctx.quick
    _TAB.update(_spec_table(ctx))
    # fill the on-disk run cache once per distinct (spec, variant, metric): a variant is shared by several relaxations
    items = sorted({(sid, v, m) for sid in _TAB for r in relaxations_of(sid) for v in (r[2], r[3]) for m in METRICS})
    k = ctx.seed % len(items)
    pmap(_warm, items[k:] + items[:k], init=afx.serial)
    ctx.explore("base-vs-relaxed", make_tree(), body, shard_depth=2, distinct_by_construction=True)
    ctx.bound(specs=list(_TAB), metrics=METRICS, distinct_mapper_runs=len(items),
              relaxation_kinds=sorted({r[1] for sid in _TAB for r in relaxations_of(sid)}))


def replay(ctx, rec):
    c = rec["config"]
    _QUICK[0] = False
    if not _TAB:
        class _C:
            quick = False
        _TAB.update(_spec_table(_C()))

        class _Q:
            quick = True
        _TAB.update(_spec_table(_Q()))
    r = body((c["spec"], c["relaxation"], c["metric"]))
    return {"observed": r.violation and r.violation["observed"], "expected": r.violation and r.violation["expected"],
            "violation": bool(r.violation)}
