"""C29 - renames resolve with per-Einsum entries overriding 'default'.

Alphabet: workloads MM1 (one matmul E1) and MM2 (E1 -> E2); a tensor rename ``x`` defined in
every non-empty subset of the three sites {D = top-level ``renames`` entry named "default",
P = top-level ``renames`` entry named after an Einsum, L = that Einsum's own ``renames``},
with every assignment of the distinct sources {Inputs, Outputs, W1 (MM1) / All (MM2)} to the
sites, in the dict and in the list syntax, with ``expected_count`` absent / matching / mismatching on the site
that wins; a second name ``y`` independently defined in every subset of the sites; for MM2
every choice of the Einsum the P entry and the L entry belong to, evaluated for both
Einsums; the same for a rank-variable rename ``r`` (top-level ``rank_variables`` sections).
Oracle (property statement): a name given under the Einsum's name in the top-level renames,
or in the Einsum's own renames, resolves to that source (if both are given with different
sources either is accepted); a name given only under "default" resolves to the default
source; a mismatching ``expected_count`` on the definition that is in force must be
rejected.  Observed through ``Spec._spec_eval_expressions(einsum_name=...)``: the Einsum's
evaluated rename table and a Memory whose ``tensors.keep`` is the renamed name.

Finding on the unchanged tree (one root cause, six families ``<tensor|rank>:toplevel-per-einsum-
entry-ignored/{resolves-to-default,name-undefined,expected_count-not-checked}``): entries of the
top-level ``renames`` section named after an Einsum are never applied --
``Einsum._eval_expressions`` only asks ``get_renames_for_einsum("default")`` and
``Renames.get_renames_for_einsum`` tests ``einsum_name not in self.einsums`` on a plain list of
EinsumRename objects (always true for a str).  A two-line candidate fix (look the entry up by
``.name``; pass ``self.name``) makes this check silent.

Mutation self-test (scratch copy /tmp/af-mut-c29 via VERIF_REPO, quick tier, copy removed
afterwards); families in addition to the finding families:
  M1 workload.Einsum._eval_expressions: default tensor renames appended even when the Einsum
     defines the name                         -> CAUGHT (tensor:wrong-resolution/winner=L/
     observed-site=D 480, winner=L|P 336)
  M2 renames.Rename._eval_expressions: count test ``!=`` weakened to ``>`` -> CAUGHT
     (expected_count-mismatch-accepted/site=L|D, tensor 468 + rank 114)
  M3 renames.Renames.get_renames_for_einsum: every entry treated as "default" -> CAUGHT
     (wrong-resolution/winner=D/observed-site=none-in-force, 162)
  M4 workload.Einsum._eval_expressions: default rank-variable renames appended only when
     already defined (condition inverted)     -> CAUGHT (rank:wrong-resolution/*, 432)
"""

from __future__ import annotations

import itertools
import os

from mc.explorer import Result
from mc.ref import setalg as RS

MANIFEST = {
    "text": "every placement of a renamed name over the three rename sites (top-level default, top-level "
            "per-Einsum, Einsum-local) x every assignment of distinct sources x dict/list syntax x "
            "expected_count absent/matching/mismatching, crossed with every placement of a second name, "
            "on the 1- and 2-Einsum workloads (every Einsum targeting), is evaluated by the real Spec and "
            "compared with the resolution rule of the property statement; right level because resolution "
            "is a finite lookup rule over three sites",
    "note": "trusted: R-set for the value of Inputs/Outputs/tensor names; when a name is given both under "
            "the Einsum's name and in the Einsum's own renames with different sources either source is "
            "accepted (the property does not order them); expected_count only judged on the definition "
            "that is in force; only integer counts",
    "technique": "bounded exhaustive input enumeration (explicit-state) vs reference model",
}

RULE = (
    "a configuration = (workload, Einsum owning the P entry, Einsum owning the L entry, sites of x, "
    "source permutation, syntax/expected_count variant, sites of y) evaluated for every Einsum of the "
    "workload (evaluations = number of Einsums); distinct by construction; NON-TRIVIAL = for some Einsum "
    "the name is defined in >= 2 sites that are in force with different sources (an override actually "
    "decides), or a mismatching expected_count is in force"
)
ASSUMPTIONS = [
    "resolution rule = the C29 statement; Einsum-local vs top-level per-Einsum precedence is left open",
    "sources are Inputs, Outputs and the tensor name W1 (MM2: All); rank variables m, n, k (MM2: m | n); "
    "their values come from R-set (mc/ref/setalg.py); a source naming a tensor the Einsum does not use "
    "is a C22 question (tested there)",
    "a name that is defined nowhere for an Einsum is not referenced (not judged)",
]

WORKLOADS = {
    "MM1": {"einsums": [{"name": "E1", "inputs": ["A", "W1"], "outputs": ["T1"]}]},
    "MM2": {"einsums": [{"name": "E1", "inputs": ["A", "W1"], "outputs": ["T1"]},
                        {"name": "E2", "inputs": ["T1", "W2"], "outputs": ["T2"]}]},
}
PROJ = {"A": ["m", "k"], "W1": ["k", "n"], "T1": ["m", "n"], "W2": ["n", "p"], "T2": ["m", "p"]}
RANKVARS = {"E1": ["m", "k", "n"], "E2": ["m", "n", "p"]}
# third source: a tensor / rank-variable name on MM1; on MM2 an expression that is defined and distinct
# from the other two in both Einsums (a name that the *other* Einsum does not use is a C22 question)
T_SOURCES = {"MM1": ["Inputs", "Outputs", "W1"], "MM2": ["Inputs", "Outputs", "All"]}
R_SOURCES = {"MM1": ["m", "n", "k"], "MM2": ["m", "n", "m | n"]}
SITES = ["D", "P", "L"]
VARIANTS = ["dict", "list", "list+match", "list+mismatch"]
MISMATCH = 7


def _imports():
    from accelforge.frontend.spec import Spec
    from accelforge.frontend.arch import Memory, Compute
    from accelforge.util.exceptions import EvaluationError
    from accelforge.util._setexpressions import InvertibleSet

    return Spec, Memory, Compute, EvaluationError, InvertibleSet


# ----------------------------------------------------------------------------------
# reference
# ----------------------------------------------------------------------------------

def source_value(wl, e_idx, kind, src):
    if kind == "rank":
        have = RANKVARS[wl["einsums"][e_idx]["name"]]
        return sorted(v for v in (x.strip() for x in src.split("|")) if v in have)
    env, uni = RS.named_sets(wl, e_idx)
    return sorted(env[src])


def in_force(cfg_name, einsum, tP, tL):
    """sites of a name that apply to ``einsum``: list of (site, source)."""
    out = []
    for site, src in cfg_name["sites"].items():
        if site == "D" or (site == "P" and tP == einsum) or (site == "L" and tL == einsum):
            out.append((site, src))
    return out


def expected_for(cfg, name, e_idx):
    """-> dict(allowed=[values...] | None (undefined), winners=[sites], count_violation=bool)"""
    wl = WORKLOADS[cfg["workload"]]
    einsum = wl["einsums"][e_idx]["name"]
    nm = cfg["names"][name]
    force = dict(in_force(nm, einsum, cfg["tP"], cfg["tL"]))
    specific = [s for s in ("L", "P") if s in force]
    winners = specific if specific else (["D"] if "D" in force else [])
    allowed = [source_value(wl, e_idx, nm["kind"], force[s]) for s in winners]
    bad_count = False
    c = nm.get("count")
    if c is not None and len(winners) == 1 and c["site"] == winners[0]:
        bad_count = c["value"] != len(allowed[0])
    return dict(allowed=allowed if winners else None, winners=winners, count_violation=bad_count,
                force=force)


def expectation(cfg):
    """Whole-spec expectation: 'raise' if a mismatching expected_count is in force for some Einsum
    (the whole workload is evaluated whatever einsum_name is), else per Einsum / per name allowed values."""
    wl = WORKLOADS[cfg["workload"]]
    per = {}
    must_raise = False
    for e_idx, e in enumerate(wl["einsums"]):
        for name in cfg["names"]:
            x = expected_for(cfg, name, e_idx)
            per[(e["name"], name)] = x
            must_raise = must_raise or x["count_violation"]
    return must_raise, per


def count_is_judgeable(cfg):
    """expected_count is only enumerated on a site that is in force as the single winner for at least one
    Einsum; 'match' must match wherever it is in force."""
    wl = WORKLOADS[cfg["workload"]]
    for name, nm in cfg["names"].items():
        c = nm.get("count")
        if c is None:
            continue
        hits = []
        for e_idx in range(len(wl["einsums"])):
            x = expected_for(cfg, name, e_idx)
            if x["winners"] == [c["site"]]:
                hits.append(x)
            elif c["site"] in x["force"]:
                return False  # defined but overridden / ambiguous for this Einsum: unspecified
        if not hits:
            return False
        if c["mode"] == "match" and any(h["count_violation"] for h in hits):
            return False
    return True


# ----------------------------------------------------------------------------------
# building the spec
# ----------------------------------------------------------------------------------

def rename_entry(name, nm, site, variant):
    src = nm["sites"][site]
    if variant == "dict":
        return name, src
    d = {"name": name, "source": src}
    c = nm.get("count")
    if c is not None and c["site"] == site:
        d["expected_count"] = c["value"]
    return name, d


def section(entries, variant):
    """entries: list of (name, src | dict) -> dict syntax or list syntax"""
    if variant == "dict":
        return {n: v for n, v in entries}
    return [v for _, v in entries]


def spec_dict(cfg, keep_names):
    """Plain data (what YAML loading would give) for the spec of a configuration."""
    wl = WORKLOADS[cfg["workload"]]
    variant = "dict" if cfg["variant"] == "dict" else "list"
    top = []
    for site, ename in (("D", "default"), ("P", cfg["tP"])):
        t_entries = [rename_entry(n, nm, site, variant) for n, nm in cfg["names"].items()
                     if site in nm["sites"] and nm["kind"] == "tensor"]
        r_entries = [rename_entry(n, nm, site, variant) for n, nm in cfg["names"].items()
                     if site in nm["sites"] and nm["kind"] == "rank"]
        if t_entries or r_entries:
            d = {"name": ename}
            if t_entries:
                d["tensor_accesses"] = section(t_entries, variant)
            if r_entries:
                d["rank_variables"] = section(r_entries, variant)
            top.append(d)
    if cfg.get("P_first"):
        top = top[::-1]
    einsums = []
    for e in wl["einsums"]:
        tas = [{"name": t, "projection": list(PROJ[t])} for t in e["inputs"]]
        tas += [{"name": t, "projection": list(PROJ[t]), "output": True} for t in e["outputs"]]
        d = {"name": e["name"], "tensor_accesses": tas}
        if cfg["tL"] == e["name"]:
            loc = [rename_entry(n, nm, "L", variant) for n, nm in cfg["names"].items() if "L" in nm["sites"]]
            if loc:
                d["renames"] = section(loc, variant)
        einsums.append(d)
    return {
        "workload": {"rank_sizes": {"M": 4, "K": 4, "N": 4, "P": 4}, "bits_per_value": {"All": 8},
                     "einsums": einsums},
        "renames": {"einsums": top},
        "mems": [{"name": f"Mem_{n}", "keep": n} for n in keep_names],
    }


def build_py(sd):
    Spec, Memory, Compute = _imports()[:3]
    import copy

    mems = [Memory(name=m["name"], size=1, leak_power=0, area=0, tensors={"keep": m["keep"]},
                   actions=[dict(name="read", energy=1, throughput=1), dict(name="write", energy=1, throughput=1)])
            for m in sd["mems"]]
    return Spec(arch=dict(nodes=mems + [Compute(name="MAC", leak_power=0, area=0,
                                                actions=[dict(name="compute", energy=1, throughput=1)])]),
                workload=copy.deepcopy(sd["workload"]), renames=copy.deepcopy(sd["renames"]))


def _flow(v):
    if isinstance(v, dict):
        return "{" + ", ".join(f"{k}: {_flow(x)}" for k, x in v.items()) + "}"
    if isinstance(v, list):
        return "[" + ", ".join(_flow(x) for x in v) + "]"
    if v is True:
        return "true"
    return str(v)


def yaml_text(sd):
    s = "arch:\n  nodes:\n"
    for m in sd["mems"]:
        s += (f"  - !Memory\n    name: {m['name']}\n    size: 1\n    leak_power: 0\n    area: 0\n"
              f"    tensors: {{keep: {m['keep']}}}\n    actions:\n"
              "    - {name: read, energy: 1, throughput: 1}\n    - {name: write, energy: 1, throughput: 1}\n")
    s += ("  - !Compute\n    name: MAC\n    leak_power: 0\n    area: 0\n    actions:\n"
          "    - {name: compute, energy: 1, throughput: 1}\n")
    w = sd["workload"]
    s += f"workload:\n  rank_sizes: {_flow(w['rank_sizes'])}\n  bits_per_value: {_flow(w['bits_per_value'])}\n  einsums:\n"
    for e in w["einsums"]:
        s += f"  - name: {e['name']}\n    tensor_accesses:\n"
        for t in e["tensor_accesses"]:
            s += f"    - {_flow(t)}\n"
        if "renames" in e:
            s += f"    renames: {_flow(e['renames'])}\n"
    s += "renames:\n  einsums:" + (" []\n" if not sd["renames"]["einsums"] else "\n")
    for t in sd["renames"]["einsums"]:
        s += f"  - name: {t['name']}\n"
        for k in ("tensor_accesses", "rank_variables"):
            if k in t:
                s += f"    {k}: {_flow(t[k])}\n"
    return s


_yaml_n = [0]


def build_yaml(sd):
    Spec = _imports()[0]
    _yaml_n[0] += 1
    path = os.path.join(os.getcwd(), f"c29-{os.getpid()}-{_yaml_n[0] % 4}.yaml")
    with open(path, "w") as f:
        f.write(yaml_text(sd))
    try:
        return Spec.from_yaml(path)
    finally:
        try:
            os.unlink(path)
        except OSError:
            pass


# ----------------------------------------------------------------------------------
# running one configuration
# ----------------------------------------------------------------------------------

def run_cfg(cfg):
    """-> (violations [(family, observed, expected)], n_evaluations, nontrivial, outcome)"""
    _, _, _, EvaluationError, InvertibleSet = _imports()
    wl = WORKLOADS[cfg["workload"]]
    must_raise, per = expectation(cfg)
    viols, outcome, n_eval, nontrivial = [], [], 0, must_raise
    for e_idx, e in enumerate(wl["einsums"]):
        ename = e["name"]
        defined = [n for n in cfg["names"] if per[(ename, n)]["allowed"] is not None]
        keep = [n for n in defined if cfg["names"][n]["kind"] == "tensor"]
        sd = spec_dict(cfg, keep)
        n_eval += 1
        try:
            spec = build_yaml(sd) if cfg.get("via") == "yaml" else build_py(sd)
            ev = spec._spec_eval_expressions(einsum_name=ename)
            table = {r.name: r.source for r in ev.workload.einsums[ename].renames}
            obs = {}
            for n in defined:
                v = table.get(n)
                tv = sorted(v.instance) if isinstance(v, InvertibleSet) else ("undefined" if v is None else f"str:{v}")
                av = tv
                if n in keep:
                    k = ev.arch.find(f"Mem_{n}").tensors.keep
                    av = sorted(k.instance) if isinstance(k, InvertibleSet) else "unresolved"
                obs[n] = tv if av == tv or (tv == "undefined" and av == "unresolved") else {"table": tv, "arch": av}
            got = {"values": obs}
        except EvaluationError:
            got = {"raise": "EvaluationError"}
        except Exception as ex:
            got = {"raise": type(ex).__name__, "msg": str(ex)[:160]}
        outcome.append([ename, got.get("values", got.get("raise"))])
        if must_raise:
            if "raise" not in got:
                # which name carries the violated count, and on which site
                for n, nm in cfg["names"].items():
                    c = nm.get("count")
                    if c and any(per[(x["name"], n)]["count_violation"] for x in wl["einsums"]):
                        fam = ("toplevel-per-einsum-entry-ignored/expected_count-not-checked" if c["site"] == "P"
                               else f"expected_count-mismatch-accepted/site={c['site']}")
                        viols.append((f"{nm['kind']}:{fam}", got, {"raise": "EvaluationError (expected_count)"}, ename))
            continue
        if "raise" in got:
            viols.append((f"valid-renames-rejected/{got['raise']}", got, {"values": {n: per[(ename, n)]["allowed"] for n in defined}}, ename))
            continue
        for n in defined:
            x = per[(ename, n)]
            if len(x["force"]) >= 2 and len({source for source in x["force"].values()}) >= 2:
                nontrivial = True
            if got["values"][n] in x["allowed"]:
                continue
            nm = cfg["names"][n]
            # what would be observed if the top-level per-Einsum entry did not exist?
            fam = None
            if "P" in x["winners"]:
                rest = {s: v for s, v in x["force"].items() if s != "P"}
                if "L" in rest:
                    alt = source_value(wl, e_idx, nm["kind"], rest["L"])
                elif "D" in rest:
                    alt = source_value(wl, e_idx, nm["kind"], rest["D"])
                else:
                    alt = "undefined"
                if got["values"][n] == alt:
                    fam = f"{nm['kind']}:toplevel-per-einsum-entry-ignored/" + (
                        "resolves-to-default" if alt != "undefined" else "name-undefined")
            if fam is None:
                sites = [s for s, v in x["force"].items()
                         if source_value(wl, e_idx, nm["kind"], v) == got["values"][n]]
                fam = f"{nm['kind']}:wrong-resolution/winner={'|'.join(x['winners'])}/observed-site=" + (
                    "|".join(sites) if sites else "none-in-force")
            viols.append((fam, {"name": n, "value": got["values"][n]},
                          {"name": n, "allowed": x["allowed"], "in_force": x["force"]}, ename))
    return viols, n_eval, nontrivial, outcome


def to_result(cfg):
    viols, n_eval, nontrivial, outcome = run_cfg(cfg)
    viol = None
    if viols:
        fam, got, exp, ename = viols[0]
        viol = {"observed": got, "expected": exp, "family": fam,
                "note": f"einsum_name={ename}; {len(viols)} disagreement(s) in this configuration: "
                        + ", ".join(sorted({v[0] for v in viols}))}
    must_raise = expectation(cfg)[0]
    return Result(outcome=outcome, nontrivial=nontrivial, violation=viol, evaluations=n_eval, sample=cfg,
                  outcome_class=cfg["phase"] + ":" + ("must-raise" if must_raise else "resolves"))


# ----------------------------------------------------------------------------------
# alphabet
# ----------------------------------------------------------------------------------

def site_subsets(include_empty):
    out = [list(c) for r in range(0 if include_empty else 1, 4) for c in itertools.combinations(SITES, r)]
    return out


def name_cfg(kind, sites, perm, sources):
    return {"kind": kind, "sites": {s: sources[perm[SITES.index(s)]] for s in sites}}


def with_count(cfg, name, variant):
    """attach expected_count (matching / mismatching) to the site with the highest priority among the
    defined ones (L, then P, then D); -> cfg or None when the combination is not judgeable"""
    if variant in ("dict", "list"):
        return cfg
    nm = cfg["names"][name]
    site = next(s for s in ("L", "P", "D") if s in nm["sites"])
    if "L" in nm["sites"] and "P" in nm["sites"] and cfg["tP"] == cfg["tL"]:
        return None  # ambiguous winner
    mode = "match" if variant == "list+match" else "mismatch"
    wl = WORKLOADS[cfg["workload"]]
    if mode == "mismatch":
        value = MISMATCH
    else:
        # size of the source in the first Einsum where the site wins
        value = None
        for e_idx in range(len(wl["einsums"])):
            x = expected_for(cfg, name, e_idx)
            if x["winners"] == [site]:
                value = len(x["allowed"][0])
                break
        if value is None:
            return None
    nm["count"] = {"site": site, "value": value, "mode": mode}
    return cfg if count_is_judgeable(cfg) else None


def make(q):
    perms = list(itertools.permutations(range(3)))
    x_sites = site_subsets(False)
    y_sites = site_subsets(True)

    def targets(wname):
        es = [e["name"] for e in WORKLOADS[wname]["einsums"]]
        return [(a, b) for a in es for b in es]

    def tree(p):
        if len(p) == 0:
            return ["tensor", "rank", "yaml"]
        ph = p[0]
        if len(p) == 1:
            return ["MM1"] if ph == "yaml" else ["MM1", "MM2"]
        if len(p) == 2:
            return targets(p[1])
        if len(p) == 3:
            return list(range(len(x_sites)))
        if len(p) == 4:
            return list(range(len(perms))) if ph != "rank" else [0, 1, 3]
        if len(p) == 5:
            return VARIANTS
        if len(p) == 6:
            if ph == "tensor" and (p[1] == "MM1" or not q):
                return list(range(len(y_sites)))
            if ph == "tensor":
                return [0, 4, 6]  # quick, MM2: y absent / in D and P / in P and L
            return [0, 4]  # y absent / y in D and P
        if len(p) == 7:
            both = "D" in x_sites[p[3]] and "P" in x_sites[p[3]]
            return [False, True] if both and (p[5] == "dict" or not q) else [False]
        return None

    def to_cfg(c):
        ph, wname, (tP, tL), xs, pm, variant, ys, p_first = c
        kind = "rank" if ph == "rank" else "tensor"
        sources = (R_SOURCES if kind == "rank" else T_SOURCES)[wname]
        cfg = {"phase": ph, "workload": wname, "tP": tP, "tL": tL, "variant": variant, "P_first": p_first,
               "via": "yaml" if ph == "yaml" else "py",
               "names": {"x": name_cfg(kind, x_sites[xs], perms[pm], sources)}}
        if y_sites[ys]:
            cfg["names"]["y"] = name_cfg("tensor", y_sites[ys], (1, 0, 2), T_SOURCES[wname])
        return with_count(cfg, "x", variant)

    def body(c):
        cfg = to_cfg(c)
        if cfg is None:
            return Result(outcome="not-judgeable", validated=False, evaluations=0,
                          sample={"skipped": list(map(str, c))}, outcome_class=c[0] + ":not-judgeable")
        return to_result(cfg)

    return tree, body


def run(ctx):
    tree, body = make(ctx.quick)
    # warm-up
    warm = {"phase": "tensor", "workload": "MM1", "tP": "E1", "tL": "E1", "variant": "dict", "via": "py",
            "names": {"x": name_cfg("tensor", ["D"], (0, 1, 2), T_SOURCES["MM1"])}}
    run_cfg(warm)
    run_cfg(dict(warm, via="yaml"))
    ctx.explore("all", tree, body, shard_depth=4, distinct_by_construction=True)
    ctx.bound(workloads=list(WORKLOADS), sites=SITES, tensor_sources=T_SOURCES, rank_sources=R_SOURCES,
              variants=VARIANTS, names=["x (full alphabet)", "y (every site subset, fixed sources)"],
              entry_points=["Spec(**data)", "Spec.from_yaml (MM1)"], mismatching_count=MISMATCH)
    ctx.note("outcome_classes '<phase>:resolves|must-raise|not-judgeable'; not-judgeable = expected_count on a "
             "definition that is overridden or ambiguous (the property does not say)")


def replay(ctx, rec):
    cfg = rec["config"]
    viols, n_eval, nontrivial, outcome = run_cfg(cfg)
    if not viols:
        return {"observed": outcome, "expected": "as observed", "violation": False}
    fam, got, exp, ename = viols[0]
    return {"observed": got, "expected": exp, "violation": True}
