"""C04 — mapper-reported metrics == the model's evaluation of the returned mapping.

Alphabet: specs of the shared small family (mc/family.py: 1- and 2-Einsum workloads on
finite 2-/3-level hierarchies with throughput / leak variants) plus 3-Einsum chains
(MV3, FAN3 on H2), crossed with the metric sets {E, EL, ELR, EDP, L}.  For every
(spec, metric set): `map_workload_to_arch(spec, eval_in_detail=False)` is run in-process
(serial) and EVERY returned row is rebuilt with `row["Total<SEP>mapping"](_for_model=True)`
and evaluated on its own by the real model exactly as main.py:eval_mapping does.
Oracle: (1) Total<SEP>{energy, latency, energy_delay_product} of the joined row == the
model table's columns; (2) the same joined totals == totals recomputed from the model's
per-Einsum breakdown columns only (energy = sum of all `<e><SEP>energy<SEP>...`, latency
= sum over Einsums of the max `<e><SEP>latency<SEP><component>`, EDP = their product)
-- this second form does not pass through the joiner's objective summation, which the
model's own `Total` columns do; (3) per-memory resource_usage() equal; (4) every
`<einsum><SEP>{energy,latency,action}...` column present in both tables equal;
(5) `eval_in_detail=True` on a fresh spec returns the same multiset of objective vectors.
Tolerance: relative 2^-20, absolute 1e-9 (float32 rounding of the joiner).

The joiner reports per-memory usage only when RESOURCE_USAGE is an objective (the
reservation columns are dropped otherwise); usage is compared for the memories it reports.

Mutation self-test (2026-09-21/22).  Full quick runs through mc/mutant.sh:
  * pmapping_dataframe.py merge_next: objective columns added twice      -> caught
    (joined-vs-model-breakdown/energy x18, /energy_delay_product x6; the model's own Total
    columns pass through the same merge, so only oracle (2) sees it)
  * pmapping_dataframe.py row2pmappings: reads einsum_names[0]'s column  -> caught on the
    multi-Einsum specs whose Einsums' tile columns differ (model-rejects-returned-mapping/
    ValueError x3, /AssertionError x2: the rebuilt mapping is no longer a valid mapping)
Targeted runs (run_one on a patched copy, 5 spec x metric configurations):
  * compress_pmappings.py _compress: compressed index reversed (rows get another pmapping's
    mapping/breakdown columns)                                           -> caught
    (joined-vs-model-total/energy, /energy_delay_product on 4 of 5)
  * make_tile_shapes.py _clean_energy_columns: Total energy = dynamic only (leak dropped)
                                                                         -> caught on the leak specs
    (joined-vs-model-breakdown/energy)
  * join_pmappings.py _apply_edp_columns: energy + latency instead of product -> caught
    (joined-vs-model-breakdown/energy_delay_product)
"""

from __future__ import annotations

from copy import deepcopy

from mc import afx
from mc import family as FAM
from mc import specs as S
from mc.explorer import Result

MANIFEST = {
    "text": "for every spec of a small family x metric set the real mapper is run without detailed evaluation; every "
            "returned row is rebuilt into a mapping and evaluated on its own by the real model; joined totals "
            "(energy, latency, EDP, per-memory usage) and shared per-Einsum columns must agree with the model table and "
            "with totals recomputed from the model's per-Einsum breakdown, and eval_in_detail=True must give the same "
            "multiset of objective vectors. All specs x metric sets within the bounds are enumerated, which is what "
            "reveals a wrong joined value that default runs overwrite with model values",
    "note": "trusted: the model's per-Einsum breakdown columns (C05/C06 check them against explicit execution); bounds: "
            "rank sizes <= 12, <= 3 Einsums, 2-3 memory levels, temporal loops only",
    "technique": "bounded exhaustive enumeration of specs x metric sets; every returned mapping re-evaluated by the real model",
}
RULE = ("configuration = (spec id, metric set); distinct by construction; non-trivial = the run returned a mapping with a "
        "storage node below the outermost level or a fused (split) mapping, and at least one comparison per row took place")
ASSUMPTIONS = [
    "sequential Einsums: total latency = sum over Einsums of the bottleneck component latency; total energy = sum of "
    "all per-Einsum energy columns (the documented aggregation, also stated by C28)",
    "float32 rounding in the joiner stays below relative 2^-20 for the magnitudes of the family",
]

REL = 2.0 ** -20
ABS = 1e-9

EXTRA = {
    "MV3-2222/tight": (S.MV3(2, 2, 2, 2), 0.3),
    "MV3-2422/mid": (S.MV3(2, 4, 2, 2), 0.6),
    "FAN3-22222/mid": (S.FAN3(2, 2, 2, 2, 2), 0.5),
    "MV3-2222/mid-leak": (S.MV3(2, 2, 2, 2), 0.6),
}


def spec_of(sid):
    if sid in EXTRA:
        wl, frac = EXTRA[sid]
        if sid.endswith("leak"):
            return wl, S.H2(size=FAM.sized(wl, frac), leak=0.25, main_thr=8, buf_thr=4)
        return wl, S.H2(size=FAM.sized(wl, frac))
    return FAM.FAMILY[sid]


def close(a, b):
    a, b = float(a), float(b)
    return abs(a - b) <= max(ABS, REL * max(abs(a), abs(b)))


def objective_vector(row, ru, metric, mems):
    v = []
    if metric in ("E", "EL", "ELR"):
        v.append(float(row["Total<SEP>energy"]))
    if metric in ("L", "EL", "ELR"):
        v.append(float(row["Total<SEP>latency"]))
    if metric == "EDP":
        v.append(float(row["Total<SEP>energy_delay_product"]))
    if metric == "ELR":
        v.extend(float(ru.get(m, 0.0)) for m in mems)
    return tuple(v)


def multiset_diff(a, b):
    """Greedy tolerance matching; returns (unmatched in a, unmatched in b)."""
    b = list(b)
    ua = []
    for x in a:
        for j, y in enumerate(b):
            if len(x) == len(y) and all(close(p, q) for p, q in zip(x, y)):
                b.pop(j)
                break
        else:
            ua.append(x)
    return ua, b


def model_totals_from_breakdown(m, einsums):
    """Totals recomputed from the per-Einsum columns of a single-row model table."""
    row = m.data.iloc[0]
    energy, latency = 0.0, 0.0
    for e in einsums:
        lat = []
        for c in m.data.columns:
            p = c.split("<SEP>")
            if p[0] != e or len(p) < 3:
                continue
            if p[1] == "energy":
                energy += float(row[c])
            elif p[1] == "latency" and len(p) == 3:
                lat.append(float(row[c]))
        latency += max(lat) if lat else 0.0
    return energy, latency


def run_one(sid, metric):
    """-> dict(outcome, violation, nontrivial, evaluations, rows)"""
    from accelforge.mapper.FFM.main import map_workload_to_arch
    from accelforge.model.main import evaluate_mapping

    wl, arch = spec_of(sid)
    mems = [m.name for m in arch.memories]
    einsums = wl.einsum_names
    spec = S.build_spec(arch, wl, S.Knobs(metric))
    n_eval = 1
    try:
        r = map_workload_to_arch(spec, eval_in_detail=False, print_progress=False)
    except Exception as e:
        return dict(outcome="mapper-raised", nontrivial=False, evaluations=n_eval, rows=0, validated=False,
                    violation={"observed": f"{type(e).__name__}: {str(e)[:300]}", "expected": "mappings",
                               "family": "mapper-raises/" + type(e).__name__})
    bad, fam = [], None
    vec0 = []
    nontriv = False
    n_cmp = 0
    for i in range(len(r.data)):
        row = r.data.iloc[i]
        ru0 = {k: float(v) for k, v in r[i].resource_usage().items()}
        vec0.append(objective_vector(row, ru0, metric, mems))
        try:
            mapping = row["Total<SEP>mapping"](_for_model=True)
            ts = afx.tree_str(afx.mapping_to_tree(mapping))
        except Exception as e:
            bad.append({"row": i, "rebuild": f"{type(e).__name__}: {str(e)[:200]}"})
            fam = fam or "mapping-rebuild-raises/" + type(e).__name__
            continue
        if "@Buf]" in ts or "@Reg]" in ts or "SEQ(" in ts:
            nontriv = True
        local = deepcopy(spec)
        local.model.metrics = local.mapper.info_metrics
        local.mapping = mapping
        n_eval += 1
        try:
            m = evaluate_mapping(local, flattened_arches=r.flattened_arches, evaluated_specs=r.evaluated_specs)
        except Exception as e:
            bad.append({"row": i, "tree": ts, "model": f"{type(e).__name__}: {str(e)[:200]}"})
            fam = fam or "model-rejects-returned-mapping/" + type(e).__name__
            continue
        if len(m.data) != 1:
            bad.append({"row": i, "tree": ts, "model_rows": len(m.data)})
            fam = fam or "model-rejects-returned-mapping/empty"
            continue
        mrow = m.data.iloc[0]
        # (1) Total columns
        for col in ("Total<SEP>energy", "Total<SEP>latency", "Total<SEP>energy_delay_product"):
            if col in r.data.columns:
                n_cmp += 1
                if col not in m.data.columns or not close(row[col], mrow[col]):
                    bad.append({"row": i, "tree": ts, "column": col, "joined": float(row[col]),
                                "model": float(mrow[col]) if col in m.data.columns else None})
                    fam = fam or "joined-vs-model-total/" + col.split("<SEP>")[1]
        # (2) totals from the model's per-Einsum breakdown
        be, bl = model_totals_from_breakdown(m, einsums)
        for col, val in (("Total<SEP>energy", be), ("Total<SEP>latency", bl),
                         ("Total<SEP>energy_delay_product", be * bl)):
            if col in r.data.columns:
                n_cmp += 1
                if not close(row[col], val):
                    bad.append({"row": i, "tree": ts, "column": col, "joined": float(row[col]),
                                "model_breakdown_total": val})
                    fam = fam or "joined-vs-model-breakdown/" + col.split("<SEP>")[1]
        # (3) usage
        ru1 = {k: float(v) for k, v in m.resource_usage().items()}
        for mem in mems:
            if mem not in ru0:
                continue  # the joiner reports usage only when RESOURCE_USAGE is an objective (columns dropped otherwise)
            n_cmp += 1
            if not close(ru0.get(mem, 0.0), ru1.get(mem, 0.0)):
                bad.append({"row": i, "tree": ts, "memory": mem, "joined_usage": ru0.get(mem, 0.0),
                            "model_usage": ru1.get(mem, 0.0)})
                fam = fam or ("joined-usage-too-low" if ru0.get(mem, 0.0) < ru1.get(mem, 0.0) else "joined-usage-too-high")
        # (4) shared per-Einsum columns
        for c in r.data.columns:
            p = c.split("<SEP>")
            if p[0] in einsums and len(p) >= 3 and p[1] in ("energy", "latency", "action") and c in m.data.columns:
                n_cmp += 1
                if not close(row[c], mrow[c]):
                    bad.append({"row": i, "tree": ts, "column": c, "joined": float(row[c]), "model": float(mrow[c])})
                    fam = fam or "joined-vs-model-per-einsum/" + p[1]
    # (5) eval_in_detail=True gives the same multiset of objective vectors
    spec2 = S.build_spec(arch, wl, S.Knobs(metric))
    n_eval += 1
    try:
        r1 = map_workload_to_arch(spec2, eval_in_detail=True, print_progress=False)
        vec1 = []
        for i in range(len(r1.data)):
            ru = {k: float(v) for k, v in r1[i].resource_usage().items()}
            vec1.append(objective_vector(r1.data.iloc[i], ru, metric, mems))
        n_eval += len(r1.data)
        ua, ub = multiset_diff(vec0, vec1)
        if ua or ub:
            bad.append({"only_without_detail": ua[:4], "only_with_detail": ub[:4], "rows": [len(vec0), len(vec1)]})
            fam = fam or "detail-vs-nodetail-objectives-differ"
    except Exception as e:
        bad.append({"eval_in_detail": f"{type(e).__name__}: {str(e)[:300]}"})
        fam = fam or "eval-in-detail-raises/" + type(e).__name__
    viol = None
    if bad:
        viol = {"observed": bad[:4], "expected": "joined values == model values of the rebuilt mapping (rel 2^-20, abs 1e-9)",
                "family": fam}
    outcome = tuple(sorted(tuple(round(x, 6) for x in v) for v in vec0))
    return dict(outcome=outcome, violation=viol, nontrivial=nontriv and n_cmp > 0, evaluations=n_eval,
                rows=len(vec0), validated=n_cmp > 0)


def body(cfg):
    sid, metric = cfg
    res = run_one(sid, metric)
    sample = {"spec": sid, "metric": metric, "rows": res["rows"]}
    viol = res["violation"]
    if viol:
        viol["config"] = sample
    return Result(outcome=res["outcome"], nontrivial=res["nontrivial"], violation=viol, validated=res["validated"],
                  evaluations=res["evaluations"], sample=sample, outcome_class=f"{metric}")


QUICK = ["MM1-222/tight", "MM1-422/tight-thr", "MM1-224/mid-leak", "MM1-622/tight", "MV1-42/tight", "MM1-222/H3",
         "MV2-222/tight", "MV2-222/mid-thr", "MV2-424/mid", "MM2-2222/tight", "MV3-2222/tight", "MV3-2222/mid-leak"]


def tree_of(ctx):
    if ctx.quick:
        sids = QUICK
        metrics = ["E", "EL", "ELR", "EDP"]
    else:
        sids = list(FAM.FAMILY) + list(EXTRA)
        metrics = ["E", "EL", "ELR", "EDP", "L"]

    def tree(p):
        if len(p) == 0:
            return sids
        if len(p) == 1:
            return metrics
        return None
    return tree, sids, metrics


def run(ctx):
    afx.serial()
    run_one("MV2-222/tight", "ELR")  # warm-up in the parent: imports, jitted kernels, caches are inherited by the workers
    tree, sids, metrics = tree_of(ctx)
    ctx.explore("returned-rows", tree, body, shard_depth=2, distinct_by_construction=True)
    ctx.bound(specs=sids, metrics=metrics)


def replay(ctx, rec):
    afx.serial()
    c = rec["config"]
    res = run_one(c["spec"], c["metric"])
    v = res["violation"]
    return {"observed": v and v["observed"], "violation": bool(v)}
