"""C26 — component totals count every instance of the component.

Alphabet: the C25 architecture trees (Memory/Toll, Container, Compute leaves, Fork and
nested Hierarchical branches; node and depth bounds below) x every assignment of spatial
fanouts from {2,3} to at most two leaves (component, container or compute; on the
component itself, above it, below it, in a sibling fork, on a sibling compute).  Every
component gets its own prime per-instance area and leak power, all scale fields are 1.
Oracle (R-arch, mc/ref/arch.py): after ``Spec.calculate_component_costs`` every component
that lies on some compute path has
    total_area = area * own fanout * prod(fanouts of the non-compute leaves above it)
(same for leak power); per-instance ``area`` / ``leak_power`` are the configured values;
``Arch.total_area`` / ``total_leak_power`` are the sums of the per-component totals.
Components that are on no compute path (after the last compute, in a Fork without
compute) have no "compute path" in the statement and are not compared.

FINDINGS on the unchanged tree (both genuine, see families):
  own-fanout-ignored             a component's own ``spatial`` fanout is not multiplied into
                                 its totals (minimal: [Memory m0 fanout 2, Compute c1]:
                                 total_area(m0) = area instead of 2*area)
  sibling-compute-fanout-counted a Compute placed directly in a hierarchy is treated as a
                                 parent of the nodes that follow it: its fanout multiplies
                                 their totals (minimal: [Compute c0 fanout 2, Memory m1,
                                 Compute c2]: total_area(m1) = 2*area instead of area)
  (and their combination when both occur in one architecture)

Families carry a ``[total_area-only]`` / ``[total_leak-only]`` suffix when a pattern hits
only one of the two quantities of a component (then it is a different bug).

PROPOSED PATCH (applied to the scratch copy: check silent on all quick configurations (15575 then),
repo tests test_api_gaps/test_component_fields/test_arch_flattening/test_spec: 200 passed)
  spec.py:255         global_fanout = 1            ->  global_fanout = leaf.get_fanout()
  structure.py:123-125  `_parents.append(self)`    ->  only `if not isinstance(self, Compute)`

SELFTEST (scratch copy /tmp/af-mut-c26 = accelforge/ + the proposed patch, so that the
baseline is silent; VERIF_REPO, quick tier; copy deleted afterwards)
  M0 the unchanged tree itself (= patch reverted)                       caught  own-fanout-ignored (8426),
                                                                                own-fanout-ignored+sibling-compute-fanout-counted (2683)
  M1 structure.py:iterate_hierarchically  Fork no longer copies _parents caught  unexplained (688), sibling-compute-fanout-counted (8)
  M2 spec.py  total_leak_power = c.leak_power (fanout dropped for leak)  caught  11574 cfgs (own-fanout-ignored where the values coincide,
                                                                                 unexplained elsewhere; now suffixed [total_leak-only])
  M3 spec.py  only Container parents multiplied                          caught  unexplained (2450) + 400
  M4 arch.py  Arch.total_area = max(...) instead of sum(...)             caught  arch-total-not-sum (14123)
  M5 structure.py  nested Hierarchical gets a private copy of _parents   caught  unexplained (526) + 88
"""

from __future__ import annotations

import itertools
import math

from mc.explorer import Result
from mc.ref import arch as R
from mc.checks.c25 import build_arch

MANIFEST = {
    "text": "every small architecture tree (<= 4 nodes quick / <= 5 thorough) with every placement of fanouts {2,3} on <= 2 "
            "leaves (plus all 5- / 6-node shapes with one fanout) is "
            "costed with the real Spec.calculate_component_costs and each component's total area / leak power and "
            "the architecture totals are compared with instance counts multiplied out along a nested-list path "
            "search; right level because the accumulation is a structural walk whose cases (own fanout, container "
            "above, fork, sibling compute, nested hierarchy) all occur in trees of <= 5 nodes",
    "note": "trusted: R-arch; per-instance values are distinct primes so that a wrong multiplier cannot cancel; "
            "components on no compute path are not compared; scale fields and n_parallel_instances are 1 (C27 "
            "covers them); Array/Network nodes not generated",
    "technique": "bounded exhaustive input enumeration (explicit-state) vs reference model",
}

RULE = (
    "(tree token sequence) x (fanout assignment: <= 2 leaves, values {2,3}); distinct = distinct concrete tree "
    "with its fanouts (hashed); "
    "non-trivial = at least one compared component has more than one instance (so a multiplier must be applied)"
)
ASSUMPTIONS = [
    "R-arch: a nested Hierarchical is part of the enclosing hierarchy, a Fork branches off, a Compute ends a path "
    "and is not above anything (property text: 'sibling compute branches are not ancestors')",
    "spatialable.py docstring: a fanout of N on a node means N instances of that node and applies to lower-level "
    "leaves; hence the own fanout counts",
    "components on no compute path are outside the statement and skipped",
]

AREA = [5, 7, 11, 13, 17, 19, 23, 29]
LEAK = [31, 37, 41, 43, 47, 53, 59, 61]
_FAM = {}


def make_tree(tokens, rot, assignment):
    toks, nx = [], 0
    for t in tokens:
        if t == "X":  # component leaf: Memory / Toll alternate
            toks.append(("M", "T")[nx % 2])
            nx += 1
        else:
            toks.append(t)
    tree = R.parse_tokens(toks, rot)
    lv = R.leaves(tree)
    for idx, f in assignment:
        lv[idx][2] = f
    return tree


def params_of(tree):
    return {n[1]: {"area": AREA[i], "leak_power": LEAK[i]} for i, n in enumerate(R.leaves(tree)) if n[0] != "K"}


def observe(tree):
    from accelforge.frontend.spec import Spec

    try:
        spec = Spec(arch=build_arch(tree, params_of(tree)))
        s = spec.calculate_component_costs()
    except Exception as e:
        return {"raise": f"{type(e).__name__}:{str(e)[:200]}"}
    a = s.arch
    obs = {}
    try:
        obs["total_area"] = dict(a.per_component_total_area)
        obs["total_leak"] = dict(a.per_component_total_leak_power)
        obs["arch_area"] = a.total_area
        obs["arch_leak"] = a.total_leak_power
        obs["area"] = {k: a.find(k).area for k in obs["total_area"]}
        obs["leak"] = {k: a.find(k).leak_power for k in obs["total_leak"]}
    except Exception as e:
        obs["raise"] = f"{type(e).__name__}:{str(e)[:200]}"
    return obs


def _carried_computes(node):
    if R.is_leaf(node):
        return [node] if node[0] == "C" else []
    if node[0] == "F":
        return []
    return [c for ch in node[1] for c in _carried_computes(ch)]


def earlier_sibling_computes(tree, name):
    """Computes that precede the leaf in its enclosing hierarchies without being in a
    Fork of their own (used only to *name* a failure pattern, not by the oracle)."""
    out = []
    for s, idx in R.find_chain(tree, name):
        for sib in s[:idx]:
            out.extend(_carried_computes(sib))
    return out


def expected(tree):
    exp = {"n": {}, "compared": []}
    pr = params_of(tree)
    for n in R.leaves(tree):
        if n[0] == "K":
            continue
        exp["n"][n[1]] = R.instances(tree, n[1])
        if R.on_some_compute_path(tree, n[1]):
            exp["compared"].append(n[1])
    exp["area"] = {k: v["area"] for k, v in pr.items()}
    exp["leak"] = {k: v["leak_power"] for k, v in pr.items()}
    return exp


def diagnose(tree, name, per_instance, observed_total):
    """Which known wrong formula reproduces the observed total of one component?"""
    leaf = next(n for n in R.leaves(tree) if n[1] == name)
    above = math.prod(a[2] for a in R.above(tree, name))
    sib = math.prod(c[2] for c in earlier_sibling_computes(tree, name))
    own = leaf[2]
    cands = [("own-fanout-ignored", per_instance * above),
             ("sibling-compute-fanout-counted", per_instance * above * own * sib),
             ("own-fanout-ignored+sibling-compute-fanout-counted", per_instance * above * sib)]
    for tag, val in cands:
        if math.isclose(val, observed_total):
            return tag
    return "unexplained"


def check_tree(tree):
    exp = expected(tree)
    obs = observe(tree)
    if "raise" in obs:
        return exp, obs, {"family": "raises", "observed": obs["raise"], "expected": "costs computed",
                          "note": "calculate_component_costs / totals raised"}, []
    comps = list(exp["n"])
    if sorted(obs["total_area"]) != sorted(comps) or sorted(obs["total_leak"]) != sorted(comps):
        return exp, obs, {"family": "component-set", "observed": sorted(obs["total_area"]), "expected": sorted(comps),
                          "note": "per_component_total_* keys"}, []
    bad, tags = [], set()
    for c in comps:
        for q, tot in (("area", "total_area"), ("leak", "total_leak")):
            if not _eq(obs[q][c], exp[q][c]):
                bad.append({"component": c, "quantity": q, "observed": obs[q][c], "expected": exp[q][c]})
                tags.add(f"per-instance-{q}-changed")
    for c in exp["compared"]:
        per_q = {}
        for q, tot in (("area", "total_area"), ("leak", "total_leak")):
            want = exp[q][c] * exp["n"][c]
            if not _eq(obs[tot][c], want):
                bad.append({"component": c, "quantity": tot, "observed": obs[tot][c], "expected": want,
                            "instances": exp["n"][c]})
                per_q[tot] = diagnose(tree, c, exp[q][c], obs[tot][c])
        if len(per_q) == 2 and len(set(per_q.values())) == 1:
            tags.add(next(iter(per_q.values())))  # area and leak wrong in the same way
        else:
            for tot, tag in per_q.items():  # a pattern that hits only one of the two quantities is a different bug
                tags.update(f"{t}[{tot}-only]" for t in tag.split("+"))
    for q, tot in (("arch_area", "total_area"), ("arch_leak", "total_leak")):
        want = sum(obs[tot].values())
        if not _eq(obs[q], want):
            bad.append({"quantity": q, "observed": obs[q], "expected": want})
            tags.add("arch-total-not-sum")
    if not bad:
        return exp, obs, None, []
    parts = set()
    for t in tags:
        parts.update(t.split("+"))
    order = ["own-fanout-ignored", "sibling-compute-fanout-counted"]
    fam = "+".join([p for p in order if p in parts] + sorted(parts - set(order)))
    viol = {"family": fam, "observed": bad[:6], "expected": "total = per-instance x own fanout x fanouts above",
            "note": f"{len(bad)} mismatching (component, quantity) pairs; instance counts {exp['n']}"}
    return exp, obs, viol, bad


def _eq(a, b):
    return a is not None and math.isclose(a, b, rel_tol=1e-12, abs_tol=0)


def body(cfg):
    fam = cfg[0]
    k = cfg.index("$")
    tokens, assignment = cfg[1:k], cfg[k + 1]
    tree = make_tree(tokens, _FAM[fam]["rot"], assignment)
    exp, obs, viol, bad = check_tree(tree)
    nt = any(exp["n"][c] > 1 for c in exp["compared"])
    sample = {"tree": tree}
    if viol is not None:
        viol = dict(viol)
        viol["config"] = sample
    n_f = len(assignment)
    cls = f"{n_f}fanouts/" + ("ok" if viol is None else viol["family"])
    return Result(outcome={k2: obs.get(k2) for k2 in ("total_area", "total_leak", "arch_area", "arch_leak", "raise")},
                  nontrivial=nt, validated=bool(exp["compared"]), violation=viol, sample=sample, canon=tree,
                  evaluations=1, outcome_class=cls)


def assignments(n_leaves, max_nodes, values):
    out = [()]
    for k in range(1, max_nodes + 1):
        for idxs in itertools.combinations(range(n_leaves), k):
            for vals in itertools.product(values, repeat=k):
                out.append(tuple(zip(idxs, vals)))
    return out


def tree_fn(p):
    """levels: family, tokens..., '$', fanout assignment."""
    if len(p) == 0:
        return list(_FAM)
    f = _FAM[p[0]]
    if "$" in p:
        if p[-1] == "$":
            n_leaves = sum(1 for t in p[1:] if t not in ("F(", "H(", ")", "$"))
            return assignments(n_leaves, f["fan_nodes"], f["fan_values"])
        return None
    menu = R.token_menu(p[1:], f["tokens"], f["nodes"], f["depth"])
    if f.get("exact_nodes") and menu and "$" in menu:
        n_nodes = sum(1 for t in p[1:] if t != ")")
        if n_nodes != f["nodes"]:
            menu = [m for m in menu if m != "$"]
    return menu


def run(ctx):
    q = ctx.quick
    check_tree(make_tree(["X", "K", "X", "C"], 0, ((1, 2), (2, 3))))  # warm-up / import
    _FAM.clear()
    XKC, LC = ["X", "K", "C"], ["L", "C"]
    if q:
        _FAM["kinds<=4"] = dict(tokens=XKC, nodes=4, depth=3, rot=0, fan_nodes=2, fan_values=(2, 3))
        _FAM["shapes=5"] = dict(tokens=LC, nodes=5, depth=3, rot=0, fan_nodes=1, fan_values=(2, 3),
                                exact_nodes=True)
        _FAM["two-dims<=3"] = dict(tokens=XKC, nodes=3, depth=2, rot=0, fan_nodes=2, fan_values=(6,))
    else:
        _FAM["kinds<=5"] = dict(tokens=XKC, nodes=5, depth=3, rot=0, fan_nodes=2, fan_values=(2, 3))
        _FAM["two-dims<=4"] = dict(tokens=XKC, nodes=4, depth=3, rot=0, fan_nodes=2, fan_values=(6,))
        _FAM["shapes=6"] = dict(tokens=LC, nodes=6, depth=4, rot=0, fan_nodes=1, fan_values=(2, 3),
                                exact_nodes=True)
    ctx.explore("fanouts", tree_fn, body, shard_depth=4, distinct_by_construction=False)
    ctx.bound(**{k: {kk: vv for kk, vv in f.items()} for k, f in _FAM.items()})
    ctx.note("fanout value 6 is written as two spatial dimensions (2 x 3) on the same node")
    ctx.note("token X = component leaf (Memory, Toll alternating), K = Container, C = Compute, L = non-compute leaf "
             "with kind (Memory, Toll, Container)[index % 3]; fan_nodes = max number of leaves carrying a fanout")


def replay(ctx, rec):
    tree = rec["config"]["tree"]
    exp, obs, viol, bad = check_tree(tree)
    return {"observed": (viol or {}).get("observed", obs), "expected": (viol or {}).get("expected"),
            "family": (viol or {}).get("family"), "violation": viol is not None}
