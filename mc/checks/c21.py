"""C21 - spec expressions evaluate in dependency order with correct scoping.

Alphabet: small systems of named definitions (terms ``c + deps``, ``c*deps``,
``max(..)*2+min(..)``) placed in the three documented scopes -- ``spec.variables``
(outermost), ``arch.variables`` and a component's
``extra_attributes_for_component_model`` (innermost) -- as *every* digraph on n <= 3
names (self references included), every digraph without self references on 4 names
(5 names / DAGs only in the thorough tier), in every written key order; mixed
placements; the same names defined in several scopes (shadowing); cycles whose names
also exist in an outer scope.  Oracle: R-dag (mc/ref/dag.py): lexical scoping,
innermost wins, any cycle must raise ``EvaluationError``.  The real
``Spec._spec_eval_expressions`` (and ``Spec.calculate_component_costs`` /
``Spec.from_yaml`` in side phases) is run on every configuration.

Mutation self-test (scratch copy /tmp/af-mut-c21 via VERIF_REPO, quick tier, copy removed
afterwards; counts are for the final quick alphabet of 21489 configurations); unchanged tree:
exit 0 for VERIF_SEED=0,1,7 (quick) and for the thorough tier (810026 configurations).
  M1 _basetypes._get_parsable_field_order: dependency test ``\\bname\\b`` regex replaced by
     ``field in other_value`` (substring)            -> CAUGHT, 2148 violations
     (acyclic-rejected/EvaluationError/*: false cycles between n1/n10/n11, e/len/pi)
  M2 same function: readiness test ``all(dep in order ...)`` dropped (fields evaluated in
     sorted-name order)                              -> CAUGHT, 9482 violations
     (acyclic-rejected/*, wrong-value/*/shadow, cycle-not-rejected/*/outer-defined)
  M3 arch.py PostCallArch: ``symbol_table.update(arch variables)`` replaced by setdefault
     (spec-level variables win over arch.variables)  -> CAUGHT, 40 violations
     (wrong-value/spec+arch+comp/shadow)
  M4 _get_parsable_field_order: "Circular dependency" raise replaced by appending the
     remaining fields                                -> CAUGHT, 1014 violations
     (cycle-not-rejected/*/outer-defined, builtin-name/cycle-not-rejected/*)
"""

from __future__ import annotations

import itertools
import os

from mc.explorer import Result
from mc.ref import dag as R

MANIFEST = {
    "text": "every digraph of definitions on <=3 names (all of them, self references included) in every "
            "written key order (quick: 2 orders for cyclic 3-name digraphs), every self-reference-free digraph on 4 names (DAGs in 4 key orders quick / "
            "all 24 thorough), in each of the three documented scopes, plus every mixed placement of 3 "
            "names, every shadowing pattern of one name over the three scopes and every cycle among names that also exist in an outer scope, "
            "is evaluated by the real Spec._spec_eval_expressions and compared with a term-rewriting "
            "reference (lexical scoping, cycle => EvaluationError); right level because evaluation "
            "order/scoping is a finite combinatorial rule that small systems exhaust",
    "note": "trusted: Python int arithmetic, R-dag (mc/ref/dag.py). Out of scope: a definition that "
            "references its own name while an outer scope defines that name (the implementation "
            "documents this as 'use the outer value', e.g. TensorHolderAction.bits_per_action), nested "
            "dict/list values, names that collide with other symbol-table entries except the enumerated "
            "builtin-name mini-alphabet (e, pi, len)",
    "technique": "bounded exhaustive input enumeration (explicit-state) vs reference model",
}

RULE = (
    "a configuration = (scope of every name, term of every name, written key order per scope, entry "
    "point); distinct = distinct such tuple (products, distinct by construction); NON-TRIVIAL = the "
    "written order and/or the sorted-name order is not a topological order of the dependencies (a "
    "dependency is written or sorted after its user), or there is a cycle of length >= 2, or a name "
    "that is read is defined in >= 2 scopes"
)
ASSUMPTIONS = [
    "R-dag (mc/ref/dag.py) is the specification: lexical scoping spec.variables < arch.variables < "
    "component extra attributes; values are plain Python ints",
    "names are ordinary identifiers (n1, n10, n11, n2, n21: prefixes of one another on purpose); the "
    "builtin-name mini-alphabet (e, pi, len) is enumerated separately and reported under its own family",
    "self reference + outer definition of the same name is outside the domain (documented override idiom)",
    "n <= 4 names (5 for DAGs, thorough tier); deeper nesting than three scopes is not covered",
]

NAMES = ["n1", "n10", "n11", "n2", "n21"]
BUILTIN_NAMES = ["e", "len", "pi"]
CONSTS = {"sum": [1, 10, 100, 1000, 10000], "prod": [2, 3, 5, 7, 11], "mm": [4, 9, 1, 16, 6]}
SCOPE_NAMES = ["spec", "arch", "comp"]


# ----------------------------------------------------------------------------------
# driving the implementation
# ----------------------------------------------------------------------------------

def _imports():
    from accelforge.frontend.spec import Spec
    from accelforge.frontend.arch import Memory, Compute
    from accelforge.util.exceptions import EvaluationError

    return Spec, Memory, Compute, EvaluationError


WORKLOAD = dict(
    rank_sizes={"M": 4},
    bits_per_value={"All": 8},
    einsums=[dict(name="E", tensor_accesses=[dict(name="TA", projection=["m"]),
                                             dict(name="TB", projection=["m"], output=True)])],
)


def _written(sw):
    """sw: 3 lists of [name, term] in written order -> 3 ordered dicts name -> text/int."""
    return [{n: R.render(_t(t)) for n, t in sc} for sc in sw]


def _t(t):
    """JSON list -> R-dag term tuple."""
    return ("const", t[1]) if t[0] == "const" else (t[0], t[1], tuple(t[2]))


def build_py(sw, workload: bool):
    Spec, Memory, Compute, _ = _imports()
    import copy

    w = _written(sw)
    d = dict(
        variables=dict(w[0]),
        arch=dict(
            variables=dict(w[1]),
            nodes=[
                Memory(name="Mem", size=1, leak_power=0, area=0,
                       extra_attributes_for_component_model=dict(w[2]),
                       actions=[dict(name="read", energy=1, throughput=1),
                                dict(name="write", energy=1, throughput=1)]),
                Compute(name="MAC", leak_power=0, area=0,
                        actions=[dict(name="compute", energy=1, throughput=1)]),
            ],
        ),
    )
    if workload:
        d["workload"] = copy.deepcopy(WORKLOAD)
    return Spec(**d)


def yaml_text(sw, workload: bool) -> str:
    w = _written(sw)

    def block(d, ind):
        if not d:
            return " {}\n"
        return "\n" + "".join(f"{' ' * ind}{k}: {v}\n" for k, v in d.items())

    s = "variables:" + block(w[0], 2)
    s += "arch:\n  variables:" + block(w[1], 4)
    s += ("  nodes:\n  - !Memory\n    name: Mem\n    size: 1\n    leak_power: 0\n    area: 0\n"
          "    extra_attributes_for_component_model:" + block(w[2], 6) +
          "    actions:\n    - {name: read, energy: 1, throughput: 1}\n"
          "    - {name: write, energy: 1, throughput: 1}\n"
          "  - !Compute\n    name: MAC\n    leak_power: 0\n    area: 0\n"
          "    actions:\n    - {name: compute, energy: 1, throughput: 1}\n")
    if workload:
        s += ("workload:\n  rank_sizes: {M: 4}\n  bits_per_value: {All: 8}\n  einsums:\n"
              "  - name: E\n    tensor_accesses:\n    - {name: TA, projection: [m]}\n"
              "    - {name: TB, projection: [m], output: true}\n")
    return s


_yaml_counter = [0]


def build_yaml(sw, workload: bool):
    Spec = _imports()[0]
    _yaml_counter[0] += 1
    path = os.path.join(os.getcwd(), f"c21-{os.getpid()}-{_yaml_counter[0] % 4}.yaml")
    with open(path, "w") as f:
        f.write(yaml_text(sw, workload))
    try:
        return Spec.from_yaml(path)
    finally:
        try:
            os.unlink(path)
        except OSError:
            pass


def _canon_val(v):
    if isinstance(v, bool) or not isinstance(v, int):
        return f"{type(v).__name__}:{v!r}"
    return v


def observe(sw, via: str, workload: bool, einsum):
    """Run the real implementation.  -> {"values": [..3 dicts..]} | {"raise": type name}."""
    EvaluationError = _imports()[3]
    try:
        spec = build_yaml(sw, workload) if via == "yaml" else build_py(sw, workload)
        if via == "costs":
            ev = spec.calculate_component_costs(einsum_name=einsum)
        else:
            ev = spec._spec_eval_expressions(einsum_name=einsum)
        got = [
            dict(ev.variables),
            ev.arch.variables.shallow_model_dump(),
            ev.arch.find("Mem").extra_attributes_for_component_model.shallow_model_dump(),
        ]
        vals = []
        for sc, g in zip(sw, got):
            vals.append({n: (_canon_val(g[n]) if n in g else "MISSING") for n, _ in sc})
        return {"values": vals}
    except EvaluationError:
        return {"raise": "EvaluationError"}
    except Exception as e:  # an implementation exception is an observation
        return {"raise": type(e).__name__, "msg": str(e)[:200]}


def expect(sw):
    scopes = [{n: _t(t) for n, t in sc} for sc in sw]
    try:
        vals = R.evaluate(scopes)
        return {"values": [dict(v) for v in vals]}
    except R.Cycle:
        return {"raise": "EvaluationError"}


def placement_of(sw) -> str:
    return "+".join(SCOPE_NAMES[k] for k in range(3) if sw[k])


def classify(sw, exp, got, tag: str):
    """-> family string of a disagreement."""
    pl = placement_of(sw)
    multi = len({n for sc in sw for n, _ in sc}) < sum(len(sc) for sc in sw)
    pre = f"{tag}/" if tag else ""
    if "raise" in exp:
        if "raise" not in got:
            return f"{pre}cycle-not-rejected/{pl}" + ("/outer-defined" if multi else "")
        return f"{pre}cycle-wrong-exception/{got['raise']}/{pl}"
    if "raise" in got:
        return f"{pre}acyclic-rejected/{got['raise']}/{pl}" + ("/shadow" if multi else "")
    return f"{pre}wrong-value/{pl}" + ("/shadow" if multi else "/order")


def nontrivial(sw) -> bool:
    scopes = [{n: _t(t) for n, t in sc} for sc in sw]
    cyc = R.has_cycle(scopes)
    if cyc:
        return not R.longest_cycle_is_self_loop_only(scopes)
    defined_in: dict = {}
    for k, sc in enumerate(sw):
        for n, _ in sc:
            defined_in.setdefault(n, []).append(k)
    for k, sc in enumerate(sw):
        pos = {n: i for i, (n, _) in enumerate(sc)}
        for n, t in sc:
            for r in R.refs(_t(t)):
                if len(defined_in.get(r, [])) >= 2:
                    return True
                if r in pos and (pos[r] > pos[n] or r > n):
                    return True
    return False


def run_one(sample):
    sw = sample["scopes"]
    exp = expect(sw)
    got = observe(sw, sample.get("via", "py"), sample.get("workload", True), sample.get("einsum", "E"))
    obs = {k: v for k, v in got.items() if k != "msg"}
    return exp, got, obs


# ----------------------------------------------------------------------------------
# alphabets
# ----------------------------------------------------------------------------------

def pairs(n, self_loops):
    return [(i, j) for i in range(n) for j in range(n) if self_loops or i != j]


def edges_of(n, mask, self_loops):
    return [p for b, p in enumerate(pairs(n, self_loops)) if mask >> b & 1]


def is_acyclic(n, edges) -> bool:
    uses = {i: [j for (a, j) in edges if a == i] for i in range(n)}
    state = [0] * n

    def visit(i):
        if state[i] == 1:
            return False
        if state[i] == 2:
            return True
        state[i] = 1
        ok = all(visit(j) for j in uses[i])
        state[i] = 2
        return ok

    return all(visit(i) for i in range(n))


def term(op, c, deps, names):
    if not deps and op == "sum":
        return ["const", c, []]
    return [op, c, [names[j] for j in deps]]


def graph_scopes(names, n, edges, order, op, scope_of, consts=None):
    """-> 3 lists of [name, term] in the written order ``order`` (a permutation of nodes)."""
    consts = consts or CONSTS[op]
    sw = [[], [], []]
    for i in order:
        deps = [j for (a, j) in edges if a == i]
        sw[scope_of[i]].append([names[i], term(op, consts[i], deps, names)])
    return sw


def rot_orders(n):
    """identity, reversal and every rotation (and its reversal): 2n orders (n >= 3)."""
    base = list(range(n))
    out = []
    for r in range(n):
        o = base[r:] + base[:r]
        for cand in (o, o[::-1]):
            if cand not in out:
                out.append(cand)
    return out


def uniform_tree(ns, ops_for, self_loops_by_n, orders_for, dag_only_n=(), names=NAMES,
                 placements=(0, 1, 2)):
    """levels: n, (mask, acyclic), placement, op, order.

    ops_for(n, mask_has_self_loop) -> list of term shapes; orders_for(n, mask, acyclic) -> orders."""
    cache = {}

    def masks(n):
        if n not in cache:
            sl = self_loops_by_n[n]
            np_ = len(pairs(n, sl))
            ms = []
            for m in range(1 << np_):
                ac = is_acyclic(n, edges_of(n, m, sl))
                if n in dag_only_n and not ac:
                    continue
                ms.append((m, ac))
            cache[n] = ms
        return cache[n]

    def tree(p):
        if len(p) == 0:
            return list(ns)
        if len(p) == 1:
            return masks(p[0])
        if len(p) == 2:
            return list(placements)
        if len(p) == 3:
            n, (m, ac) = p[0], p[1]
            has_self = any(i == j for i, j in edges_of(n, m, self_loops_by_n[n]))
            return ops_for(n, has_self)
        if len(p) == 4:
            n, (m, ac) = p[0], p[1]
            return orders_for(n, m, ac)
        return None

    def to_sample(cfg):
        n, (m, ac), k, op, order = cfg
        edges = edges_of(n, m, self_loops_by_n[n])
        return {"scopes": graph_scopes(names, n, edges, order, op, [k] * n), "via": "py",
                "workload": True, "einsum": "E"}

    return tree, to_sample


def _restrict_level(tree, level, menu_of_prefix):
    """wrap a uniform tree: the menu at ``level`` becomes menu_of_prefix(prefix)"""
    def wrapped(p):
        if len(p) == level:
            return menu_of_prefix(p)
        return tree(p)

    return wrapped


def _restrict_ops(tree, ops_of_prefix):
    """the term-shape menu (level 3) becomes ops_of_prefix(prefix)"""
    return _restrict_level(tree, 3, ops_of_prefix)


def all_orders(n):
    return [list(p) for p in itertools.permutations(range(n))]


def mixed_tree(n, include_uniform=False, few_orders=False):
    """levels: scope assignment, mask (edges only to the same or an outer scope), order."""
    prs = pairs(n, False)
    assigns = [a for a in itertools.product(range(3), repeat=n) if include_uniform or len(set(a)) > 1]
    cache = {}

    def masks(a):
        if a not in cache:
            ok = [b for b, (i, j) in enumerate(prs) if a[j] <= a[i]]
            out = []
            for sub in range(1 << len(ok)):
                m = 0
                for q, b in enumerate(ok):
                    if sub >> q & 1:
                        m |= 1 << b
                out.append((m, is_acyclic(n, edges_of(n, m, False))))
            cache[a] = out
        return cache[a]

    def tree(p):
        if len(p) == 0:
            return assigns
        if len(p) == 1:
            return masks(p[0])
        if len(p) == 2:
            if few_orders:
                return [list(range(n)), list(range(n))[::-1]]
            return all_orders(n)
        return None

    def to_sample(cfg):
        a, (m, ac), order = cfg
        return {"scopes": graph_scopes(NAMES, n, edges_of(n, m, False), order, "sum", list(a)),
                "via": "py", "workload": True, "einsum": "E"}

    return tree, to_sample


def outer_tree(ns):
    """The graph lives in scope k; every name is also a constant in an outer scope j < k.
    levels: (k, j), n, mask (no self references), order."""

    def tree(p):
        if len(p) == 0:
            return [(1, 0), (2, 0), (2, 1)]
        if len(p) == 1:
            return list(ns)
        if len(p) == 2:
            n = p[1]
            return [(m, is_acyclic(n, edges_of(n, m, False))) for m in range(1 << len(pairs(n, False)))]
        if len(p) == 3:
            return [list(q) for q in itertools.permutations(range(p[1]))]
        return None

    def to_sample(cfg):
        (k, j), n, (m, ac), order = cfg
        sw = graph_scopes(NAMES, n, edges_of(n, m, False), order, "sum", [k] * n)
        for i in reversed(order):  # outer constants written in the opposite order
            sw[j].append([NAMES[i], ["const", 7000 + 7 * i, []]])
        return {"scopes": sw, "via": "py", "workload": True, "einsum": "E"}

    return tree, to_sample


def shadow_tree():
    """One name ``s`` defined in every non-empty subset D of the three scopes; form of each
    definition in {constant, 'c + u' with u defined once in spec.variables}; in every scope
    that can see an ``s``: an observer ``r: 1000k + s`` and ``q: 2*r`` (so that the sorted
    field order q < r < s is the reverse of the dependency order).
    levels: D, forms, written order, entry point."""
    subsets = [d for r in (1, 2, 3) for d in itertools.combinations(range(3), r)]

    def tree(p):
        if len(p) == 0:
            return subsets
        if len(p) == 1:
            return list(itertools.product(("const", "uref"), repeat=len(p[0])))
        if len(p) == 2:
            return ["fwd", "rev"]
        if len(p) == 3:
            return [("py", True, "E"), ("py", True, None), ("py", False, None), ("costs", True, "E"),
                    ("yaml", True, "E")]
        return None

    def to_sample(cfg):
        D, forms, wo, (via, wl, en) = cfg
        sw = [[], [], []]
        sw[0].append(["u", ["const", 5, []]])
        for k, form in zip(D, forms):
            c = 10 * (k + 1)
            sw[k].append(["s", ["const", c, []] if form == "const" else ["sum", c, ["u"]]])
        for k in range(3):
            if any(j <= k for j in D):
                sw[k].append(["r", ["sum", 1000 * (k + 1), ["s"]]])
                sw[k].append(["q", ["prod", 2, ["r"]]])
        if wo == "rev":
            sw = [sc[::-1] for sc in sw]
        return {"scopes": sw, "via": via, "workload": wl, "einsum": en}

    return tree, to_sample


def via_tree(via, k_list, n, self_loops):
    """Uniform placement through another entry point.  levels: placement, mask, order."""

    def tree(p):
        if len(p) == 0:
            return list(k_list)
        if len(p) == 1:
            return [(m, is_acyclic(n, edges_of(n, m, self_loops)))
                    for m in range(1 << len(pairs(n, self_loops)))]
        if len(p) == 2:
            return [list(q) for q in itertools.permutations(range(n))]
        return None

    def to_sample(cfg):
        k, (m, ac), order = cfg
        return {"scopes": graph_scopes(NAMES, n, edges_of(n, m, self_loops), order, "sum", [k] * n),
                "via": via, "workload": True, "einsum": "E"}

    return tree, to_sample


# ----------------------------------------------------------------------------------

def combined(phases):
    """One choice tree for several sub-alphabets (one worker pool instead of one per phase).
    phases: list of (name, tree, to_sample, tag).  Level 0 picks the phase."""
    names = [p[0] for p in phases]
    by = {p[0]: p for p in phases}

    def tree(p):
        if len(p) == 0:
            return names
        return by[p[0]][1](p[1:])

    bodies = {}

    def body(cfg):
        name = cfg[0]
        _, _, to_sample, tag = by[name]
        sample = to_sample(cfg[1:])
        sample["phase"] = name
        exp, got, obs = run_one(sample)
        viol = None
        if obs != exp:
            viol = {"observed": got, "expected": exp, "family": classify(sample["scopes"], exp, got, tag),
                    "note": "Spec evaluation disagrees with R-dag"}
        oc = name + ":" + ("raise" if "raise" in exp else "values")
        return Result(outcome=obs, nontrivial=nontrivial(sample["scopes"]), violation=viol,
                      sample=sample, outcome_class=oc)

    return tree, body


def run(ctx):
    q = ctx.quick
    # warm up in the parent: imports, pydantic schemas, hwcomponents model list
    warm = {"scopes": [[["n1", ["const", 1, []]]], [["n2", ["sum", 2, ["n1"]]]], [["n10", ["prod", 3, ["n2"]]]]],
            "via": "py", "workload": True, "einsum": "E"}
    for via in ("py", "costs", "yaml"):
        exp, got, obs = run_one(dict(warm, via=via))
        if obs != exp:
            ctx.note(f"warm-up disagreement via {via}: {got} vs {exp}")

    ALL3 = ["sum", "prod", "mm"]
    phases = []
    # A: one scope at a time; all digraphs incl. self references on n<=3; every key order.
    #    quick: the product / max-min term shapes only on the self-reference-free digraphs.
    #    quick: cyclic digraphs on 3 names in two key orders (identity, reversal) instead of all six.
    o3 = (lambda n, m, ac: all_orders(n)) if not q else (
        lambda n, m, ac: all_orders(n) if (ac or n < 3) else [[0, 1, 2], [2, 1, 0]])
    t, s = uniform_tree([1, 2, 3], (lambda n, has_self: ["sum"] if (q and has_self) else ALL3),
                        {1: True, 2: True, 3: True}, o3)
    phases.append(("uniform-n<=3", t, s, ""))
    # B: n = 4, every digraph without self references.  quick: DAGs in 4 rotation/reversal
    #    orders, cyclic digraphs in one order (alternating identity / reversal); thorough: all 24.
    if q:
        o4 = lambda n, m, ac: rot_orders(4)[:4] if ac else [list(range(4)) if m % 2 == 0 else [3, 2, 1, 0]]
        t, s = uniform_tree([4], lambda n, h: ["sum"], {4: False}, o4)
        # quick: a cyclic 4-name digraph is placed in one scope only (rotating with the digraph)
        t = _restrict_level(t, 2, lambda p: [0, 1, 2] if p[1][1] else [p[1][0] % 3])
    else:
        t, s = uniform_tree([4], lambda n, h: ALL3, {4: False}, lambda n, m, ac: all_orders(4))
        # (cyclic digraphs raise before any term is evaluated: one term shape is enough for them)
        t = _restrict_ops(t, lambda p: ALL3 if p[1][1] else ["sum"])
    phases.append(("uniform-n4", t, s, ""))
    if not q:
        o5 = [[0, 1, 2, 3, 4], [4, 3, 2, 1, 0], [2, 3, 4, 0, 1], [1, 0, 4, 3, 2]]
        t, s = uniform_tree([5], lambda n, h: ["sum"], {5: False}, lambda n, m, ac: o5, dag_only_n=(5,))
        phases.append(("uniform-n5-dags", t, s, ""))
    # C: names spread over the scopes (dependencies point to the same or an outer scope)
    t, s = mixed_tree(3)
    phases.append(("mixed-n3", t, s, ""))
    if not q:
        t, s = mixed_tree(4, few_orders=True)
        phases.append(("mixed-n4", t, s, ""))
    # D: graph in an inner scope while every name is also a constant in an outer scope
    t, s = outer_tree([2, 3])
    phases.append(("outer-defined", t, s, ""))
    # E: shadowing of one name over the three scopes, observers in every scope, 5 entry points
    t, s = shadow_tree()
    phases.append(("shadow", t, s, ""))
    # F: other entry points: calculate_component_costs and YAML text through Spec.from_yaml
    t, s = via_tree("costs", [1, 2], 3, False)
    phases.append(("via-calculate_component_costs", t, s, ""))
    t, s = via_tree("yaml", [0, 1, 2], 3, not q)
    phases.append(("via-from_yaml", t, s, ""))
    # G: names that collide with built-in constants / functions of the expression language
    t, s = uniform_tree([3], lambda n, h: ["sum"], {3: False}, lambda n, m, ac: all_orders(3),
                        names=BUILTIN_NAMES)
    phases.append(("builtin-names", t, s, "builtin-name"))

    tree, body = combined(phases)
    ctx.explore("all", tree, body, shard_depth=3, distinct_by_construction=True)

    ctx.bound(n_names_all_digraphs_with_self_refs=3, n_names_all_digraphs_no_self_refs=4,
              n_names_dags_only=None if q else 5,
              term_shapes="sum/prod/mm" + (" (prod/mm only without self references; n=4: sum)" if q else ""),
              key_orders=("all n! for n<=3" if not q else "all n! for n<=2 and for DAGs on 3 names, 2 for cyclic "
                          "digraphs on 3 names") + ("; n=4: 4 orders (identity, reversal, one rotation and its reversal) for DAGs, 1 for cyclic digraphs (one scope each)" if q
                                               else "; n=4: all 24; n=5: 4 orders"),
              scopes=SCOPE_NAMES, mixed_placements="n=3" + ("" if q else ", n=4 (2 key orders)"),
              entry_points=["Spec._spec_eval_expressions(einsum_name='E'|None)",
                            "Spec.calculate_component_costs", "Spec.from_yaml + _spec_eval_expressions"])
    ctx.note("phases (see outcome_classes '<phase>:raise|values'): " + ", ".join(p[0] for p in phases))
    ctx.note("self reference with an outer definition of the same name is excluded (documented override idiom)")


def replay(ctx, rec):
    sample = rec["config"]
    exp, got, obs = run_one(sample)
    return {"observed": got, "expected": exp, "violation": obs != exp}
