"""C17 — optima are consistent across metric sets; the EDP column is energy x latency.

Alphabet: specs of the small family x metric set in {ENERGY, LATENCY, ENERGY|LATENCY,
ENERGY_DELAY_PRODUCT}.  Phase 1 runs the real mapper once per (spec, metric set) and checks on
every returned row that the reported EDP column equals energy * latency (float32 product
tolerance).  Phase 2 compares the runs of one spec with each other: min energy over the
returned ENERGY|LATENCY front == optimum of the ENERGY run, min latency over the front ==
optimum of the LATENCY run, min(energy*latency) over the front == optimum of the EDP run
(relative 1e-5, both directions; "no mapping" must agree too).  Pure differential between
mapper runs - the absolute optimum is C01's job.

Mutation self-test (scratch copies /tmp/af-mut-*):
  1. join_pmappings.py _apply_edp_columns `energy * latency` -> `energy + latency`: CAUGHT by the whole
     quick tier (8+ violations: edp-column-not-product/* on every run and minEDP-front-*-than-EDP-run
     on the specs with an energy/latency trade-off, e.g. MM1-422/tight-thr).
  2. metrics.py includes_latency forgets ENERGY_DELAY_PRODUCT: CAUGHT (replay of MM1-422/tight-thr and
     MV2-222/mid-thr minEDP): the EDP run raises KeyError 'Total<SEP>latency' while the E|L run
     succeeds -> metric-sets-disagree-on-feasibility/minEDP.
  3. make_tile_shapes.py _clean_energy_columns drops the leak energy unless Metrics.ENERGY is set
     (EDP searches on dynamic energy only): MISSED on MM1-224/mid-leak (leak 0.25 x latency is too
     small to move the EDP optimum of the bound).
"""

from __future__ import annotations

from mc import afx
from mc import family as FAM
from mc import treehash
from mc.explorer import Result

MANIFEST = {
    "text": "for every spec of a small family the real mapper is run for ENERGY, LATENCY, ENERGY|LATENCY and EDP; the "
            "single-objective optima must be the extreme points of the returned two-objective front, the EDP optimum "
            "must be the best product on that front and the reported EDP column must be the product of the reported "
            "energy and latency on every row; exhaustive over specs x metric sets within the bound",
    "note": "trusted: nothing but float arithmetic (differential between runs of the implementation); relative 1e-5 "
            "between runs, 1e-6 for the float32 product; 1-2 Einsum specs, 2-3 level hierarchies, no spatial fanout",
    "technique": "bounded exhaustive enumeration of specs x metric sets; differential comparison between mapper runs",
}
RULE = ("phase 1: one state per (spec, metric set) run, non-trivial = a row whose energy*latency differs from "
        "energy+latency, energy and latency; phase 2: one state per (spec, relation in {minE, minL, minEDP}), "
        "non-trivial = the ENERGY|LATENCY front has at least two rows (the extremes are different mappings)")
ASSUMPTIONS = [
    "result tables are float32: relative 1e-5 between runs, 1e-6 between the EDP column and the float64 product of "
    "the float32 energy and latency",
    "every EDP-optimal mapping is on the (weak) energy-latency front, so min(E*L) over the returned front is the EDP optimum",
]

RUN_METRICS = ["E", "L", "EL", "EDP"]
RELATIONS = ["minE", "minL", "minEDP"]
REL = 1e-5
REL_PROD = 1e-6


def body_run(cfg):
    sid, metric = cfg
    res = FAM.run_mapper(sid, metric)
    rows = res["rows"]
    sample = {"spec": sid, "metric": metric, "rows": len(rows), "error": res["error"]}
    bad = []
    nontriv = False
    for r in rows:
        e, l, p = r["energy"], r["latency"], r["edp"]
        if p is None:
            bad.append({"energy": e, "latency": l, "edp_column": None})
            continue
        exp = e * l
        if abs(p - exp) > REL_PROD * abs(exp) + 1e-30:
            bad.append({"energy": e, "latency": l, "edp_column": p, "energy*latency": exp})
        if exp not in (e, l) and abs(exp - (e + l)) > 1e-3 * abs(exp):
            nontriv = True
    viol = None
    if bad:
        miss = bad[0]["edp_column"] is None
        viol = {"observed": bad[:3], "expected": "EDP column == energy*latency on every returned row",
                "family": f"edp-column-{'missing' if miss else 'not-product'}/{metric}", "config": sample}
    out = tuple(sorted((r["energy"], r["latency"]) for r in rows))
    return Result(outcome=(sid, metric, out), nontrivial=nontriv, violation=viol, sample=sample,
                  evaluations=1 + len(rows), outcome_class="rows>1" if len(rows) > 1 else f"rows={len(rows)}")


def _best(res, key):
    if res["error"] is not None or not res["rows"]:
        return None
    return min(FAM.row_metric(r, key) for r in res["rows"])


def body_rel(cfg):
    sid, rel = cfg
    single = {"minE": "E", "minL": "L", "minEDP": "EDP"}[rel]
    front = FAM.run_mapper(sid, "EL")
    one = FAM.run_mapper(sid, single)
    a, b = _best(front, single), _best(one, single)
    sample = {"spec": sid, "relation": rel, "front_rows": len(front["rows"]), "best_on_front": a,
              f"best_of_{single}_run": b}
    viol = None
    if a is None and b is None:
        pass
    elif a is None or b is None:
        viol = {"observed": {"front": a, "front_error": front["error"], single: b, f"{single}_error": one["error"]},
                "expected": "both runs find a mapping or neither does",
                "family": f"metric-sets-disagree-on-feasibility/{rel}"}
    elif abs(a - b) > REL * abs(b) + 1e-9:
        wf = min(front["rows"], key=lambda r: FAM.row_metric(r, single))
        wo = min(one["rows"], key=lambda r: FAM.row_metric(r, single))
        viol = {"observed": {"best_on_EL_front": a, "front_tree": wf["tree"], f"{single}_run": b, "run_tree": wo["tree"]},
                "expected": "equal (relative 1e-5)",
                "family": f"{rel}-front-{'worse' if a > b else 'better'}-than-{single}-run"}
    if viol:
        viol["config"] = sample
    return Result(outcome=(sid, rel, a, b), nontrivial=len(front["rows"]) >= 2, violation=viol, sample=sample,
                  evaluations=2, outcome_class="front>1" if len(front["rows"]) >= 2 else "front<=1")


def body_nodetail(cfg):
    """The joiner's own EDP table (eval_in_detail=False, nothing recomputed by the model): its best
    EDP must equal min(E*L) over the E|L front, and EDP == energy*latency where both are reported."""
    (sid,) = cfg
    front = FAM.run_mapper(sid, "EL")
    raw = FAM.run_mapper(sid, "EDP", eval_in_detail=False)
    a = _best(front, "EDP")
    sample = {"spec": sid, "relation": "minEDP-nodetail", "front_rows": len(front["rows"]), "raw_error": raw["error"]}
    viol = None
    b = None
    if raw["error"] is None and raw["rows"]:
        cols = [r["edp"] for r in raw["rows"] if r["edp"] is not None]
        b = min(cols) if cols else None
    if a is not None:
        if b is None:
            viol = {"observed": {"raw_edp_table": raw["error"] or "no EDP column"}, "expected": {"min E*L on front": a},
                    "family": "nodetail-edp-table-unusable"}
        elif abs(a - b) > REL * abs(a) + 1e-9:
            viol = {"observed": {"best EDP column of the eval_in_detail=False table": b},
                    "expected": {"min E*L over the E|L front": a},
                    "family": f"nodetail-edp-column-{'below' if b < a else 'above'}-front-optimum"}
    if viol:
        viol["config"] = sample
    return Result(outcome=(sid, "nodetail", a, b), nontrivial=len(front["rows"]) >= 2 or sid.startswith(("MV2", "MM2")),
                  violation=viol, sample=sample, evaluations=2)


def sids_of(ctx):
    return list(FAM.MEDIUM_SIDS) if ctx.quick else list(FAM.THOROUGH_SIDS)


def run(ctx):
    afx.serial()
    treehash.tree_hash()  # pin the cache key in the parent: all forked workers of this run share one cache directory
    sids = sids_of(ctx)
    ctx.explore("runs+edp-column", lambda p: sids if len(p) == 0 else (RUN_METRICS if len(p) == 1 else None),
                body_run, shard_depth=2, distinct_by_construction=True)
    ctx.explore("cross-metric", lambda p: sids if len(p) == 0 else (RELATIONS if len(p) == 1 else None),
                body_rel, shard_depth=2, distinct_by_construction=True)
    ctx.explore("edp-table-without-detail", lambda p: sids if len(p) == 0 else None, body_nodetail, shard_depth=1,
                distinct_by_construction=True)
    ctx.bound(specs=sids, metric_sets=RUN_METRICS, relations=RELATIONS + ["minEDP on the eval_in_detail=False table"])


def replay(ctx, rec):
    c = rec["config"]
    if c.get("relation") == "minEDP-nodetail":
        r = body_nodetail((c["spec"],))
    elif "relation" in c:
        r = body_rel((c["spec"], c["relation"]))
    else:
        r = body_run((c["spec"], c["metric"]))
    return {"observed": r.violation and r.violation["observed"], "expected": r.violation and r.violation["expected"],
            "violation": bool(r.violation)}
