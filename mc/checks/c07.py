"""C07 — symbolic cost formulas agree with concrete evaluation at every tile assignment.

For every pmapping template the real mapper generates for small single-Einsum specs
(matmul, matvec, elementwise, 1-D convolution with a partially relevant rank; 2- and
3-level hierarchies; infinite and tight buffers) and EVERY perfectly factorising
assignment of its tile-shape symbols (own divisor-chain enumerator):
 (a) the symbolic formulas returned by run_model(job), converted with plain
     sympy.sympify/lambdify (independent of _to_sp, compile_dict, _lambdify_cache),
 (b) the same assignment substituted into the template and evaluated by the concrete
     model (evaluate_mapping),
 (c) the values the implementation wrote into the rows returned by make_tile_shapes(job)
must agree: (a)==(b) on every assignment for energy, latency, per-memory usage and every
action count; (c)==(b) on every returned row.
"""

from __future__ import annotations

import copy

from mc import afx
from mc import specs as S
from mc import tiles as T
from mc.explorer import Result

MANIFEST = {
    "text": "every template of small single-Einsum specs x every perfectly factorising tile assignment (exhaustive "
            "for the stated rank bounds): symbolic formulas (independent sympy evaluation), the concrete model on the "
            "substituted template and the rows produced by make_tile_shapes agree on energy, latency, usage and action "
            "counts",
    "note": "trusted: the concrete model (checked against explicit execution by C05/C06); bounds: rank sizes <= 12, "
            "single-Einsum specs, temporal loops; relative tolerance 1e-5 (float32 tables)",
    "technique": "bounded exhaustive enumeration of templates x tile assignments; three-way differential on the real implementation",
}
RULE = ("configuration = (spec, template index, tile assignment); distinct by construction; non-trivial = the template "
        "has at least one free tile-shape symbol and the assignment is valid (usage <= 1)")
ASSUMPTIONS = ["plain sympy.lambdify with python max/min/ceil is the reference evaluation of a formula"]

REL = 1e-5


def conv1(p, r):
    return S.WL(einsums=(("E0", "O", ("p",), (("I", {"P": "p+r"}), ("W", ("r",)))),), bounds=(("p", p), ("r", r)))


def specs(quick):
    out = {}

    def add(name, wl, arch, metric):
        out[name] = (wl, arch, metric)

    for tag, dims in (("422", (4, 2, 2)), ("262", (2, 6, 2))) + (() if quick else (("1222", (12, 2, 2)), ("346", (3, 4, 6)))):
        wl = S.MM1(*dims)
        from mc.family import sized
        add(f"MM1-{tag}/H2-tight/E", wl, S.H2(size=sized(wl, 0.4)), "E")
        add(f"MM1-{tag}/H2-mid-thr/EDP", wl, S.H2(size=sized(wl, 0.75), main_thr=8, buf_thr=16, leak=0.25), "EDP")
        if tag in ("422",) or not quick:
            add(f"MM1-{tag}/H3/L", wl, S.H3(size=sized(wl, 0.75), rsize=sized(wl, 0.25)), "EL")
    add("MV1-62/H2-tight/EL", S.MV1(6, 2), S.H2(size=48, main_thr=8), "EL")
    add("EW1-43/H2/E", S.EW1(4, 3), S.H2(size=64), "E")
    # compute-bound with a throughput that does not divide the operation count (exact rationals
    # such as 16/3 appear in the latency formula)
    add("MM1-422/H2-macthr3/EL", S.MM1(4, 2, 2), S.H2(size=96, mac_thr=3), "EL")
    add("MV1-62/H2-macthr7/L", S.MV1(6, 2), S.H2(size=48, mac_thr=7), "L")
    add("CONV1-43/H2/EL", conv1(4, 3), S.H2(size=48, main_thr=8), "EL")
    if not quick:
        add("CONV1-64/H2/E", conv1(6, 4), S.H2(size=64), "E")
        add("MV1-122/H3/EL", S.MV1(12, 2), S.H3(size=96, rsize=24), "EL")
    return out


_FIX: dict = {}


def fixture(sid, quick):
    if sid not in _FIX:
        wl, arch, metric = specs(quick)[sid]
        spec = S.build_spec(arch, wl, S.Knobs(metric))
        prep = afx.prepare(spec)
        jobs = T.template_jobs(spec)
        _FIX.clear()
        _FIX[sid] = (wl, arch, spec, prep, jobs)
    return _FIX[sid]


def close(a, b):
    return abs(a - b) <= REL * max(1.0, abs(a), abs(b))


def check_template(sid, ti, quick):
    """-> list of Result-like tuples (one per assignment)"""
    from accelforge.mapper.FFM._make_pmappings.make_pmappings_from_templates import make_tile_shapes as MTS

    wl, arch, spec, prep, jobs = fixture(sid, quick)
    job = jobs[ti]
    j2, symbols, formulas = T.symbolic(job)
    ev = T.evaluator(symbols, formulas)
    bounds = {str(k): int(v) for k, v in job.rank_variable_bounds.items()}
    mems = [m.name for m in arch.memories if str(m.size) != "inf"]
    results = []
    conc = {}
    for a in T.assignments(j2, bounds):
        key = tuple(sorted(a.items()))
        fv = ev(a)
        tree = T.concrete_tree(j2, a)
        viol, valid = None, True
        try:
            m = afx.evaluate_tree(prep, tree)
            if len(m.data) == 0:
                valid = False
        except Exception as e:
            valid = False
            err = type(e).__name__
        f_usage = {k.split("<SEP>")[-1]: v for k, v in fv.items() if k.startswith("usage<SEP>memory<SEP>")}
        if not valid:
            if all(f_usage.get(mm, 0) <= 1 + 1e-9 for mm in f_usage):
                viol = {"observed": {"concrete": "rejected", "formula_usage": f_usage},
                        "expected": "formula usage > 1 for a rejected assignment", "family": "formula-usage-misses-overflow"}
            results.append((a, None, viol, False))
            continue
        bad = {}
        e_c, l_c = float(m.energy()), float(m.latency())
        conc[key] = (e_c, l_c)
        e_f = fv.get("Total<SEP>dynamic_energy", None)
        if e_f is not None:
            e_f = e_f + fv.get("Total<SEP>leak_energy", 0.0)
            if not close(e_f, e_c):
                bad["energy"] = (e_f, e_c)
        if "Total<SEP>latency" in fv and not close(fv["Total<SEP>latency"], l_c):
            bad["latency"] = (fv["Total<SEP>latency"], l_c)
        ru = m.resource_usage()
        for mm, v in f_usage.items():
            if mm in mems and not close(v, float(ru.get(mm, 0.0))):
                bad[f"usage:{mm}"] = (v, float(ru.get(mm, 0.0)))
        acts = m.actions(per_component=True)
        for k, v in fv.items():
            if k.startswith("action<SEP>"):
                _, comp, act = k.split("<SEP>")
                g = float(acts.get((comp, act), 0.0))
                if not close(v, g):
                    bad[f"action:{comp}:{act}"] = (v, g)
        if bad:
            kinds = sorted({b.split(":")[0] for b in bad})
            viol = {"observed": {k: v[0] for k, v in bad.items()}, "expected": {k: v[1] for k, v in bad.items()},
                    "family": "formula!=concrete/" + "+".join(kinds), "note": "observed = symbolic formula, expected = concrete model"}
        results.append((a, (round(e_c, 3), round(l_c, 3)), viol, bool(symbols)))
    # (c) rows written by the implementation
    try:
        df, _ = MTS.make_tile_shapes(copy.deepcopy(job))
        rows = df.to_dict("records")
    except Exception as e:
        rows = []
        results.append(({"make_tile_shapes": "raised"}, None,
                        {"observed": f"{type(e).__name__}: {str(e)[:200]}", "expected": "rows",
                         "family": "make_tile_shapes-raises"}, False))
    names = [str(s) for s in symbols]
    for row in rows:
        a = {n: int(row[n]) for n in names if n in row}
        key = tuple(sorted(a.items()))
        if key not in conc:
            results.append((a, None, {"observed": {"row": {k: float(v) for k, v in row.items() if "SEP" in k}},
                                      "expected": "a valid perfectly factorising assignment",
                                      "family": "row-with-invalid-assignment"}, False))
            continue
        e_c, l_c = conc[key]
        bad = {}
        if "Total<SEP>energy" in row and not close(float(row["Total<SEP>energy"]), e_c):
            bad["energy"] = (float(row["Total<SEP>energy"]), e_c)
        if "Total<SEP>latency" in row and not close(float(row["Total<SEP>latency"]), l_c):
            bad["latency"] = (float(row["Total<SEP>latency"]), l_c)
        viol = None
        if bad:
            viol = {"observed": {k: v[0] for k, v in bad.items()}, "expected": {k: v[1] for k, v in bad.items()},
                    "family": "row!=concrete/" + "+".join(sorted(bad))}
        results.append((dict(a, _row=True), (round(e_c, 3), round(l_c, 3)), viol, bool(symbols)))
    return results


_Q = {"quick": True}


def body(cfg):
    sid, ti = cfg
    res = check_template(sid, ti, _Q["quick"])
    viols = [(a, v) for a, o, v, nt in res if v]
    sample = {"spec": sid, "template": ti, "assignments": len(res)}
    viol = None
    if viols:
        viol = dict(viols[0][1])
        viol["config"] = dict(sample, assignment=viols[0][0], n_bad=len(viols))
    return Result(outcome=tuple(sorted({o for a, o, v, nt in res if o})), nontrivial=any(nt for *_, nt in res),
                  violation=viol, evaluations=len(res), sample=sample)


def run(ctx):
    afx.serial()
    _Q["quick"] = ctx.quick
    sp = specs(ctx.quick)
    counts = {}
    for sid in sp:
        counts[sid] = len(fixture(sid, ctx.quick)[4])
    _FIX.clear()

    def tree(p):
        if len(p) == 0:
            return list(sp)
        if len(p) == 1:
            return list(range(counts[p[0]]))
        return None

    ctx.explore("templates-x-assignments", tree, body, shard_depth=2, distinct_by_construction=True)
    ctx.bound(specs=list(sp), templates=counts)


def replay(ctx, rec):
    afx.serial()
    c = rec["config"]
    _Q["quick"] = rec.get("tier", "quick") == "quick"
    res = check_template(c["spec"], c["template"], _Q["quick"])
    v = [x for x in res if x[2]]
    return {"observed": v and v[0][2]["observed"], "expected": v and v[0][2]["expected"], "violation": bool(v),
            "n_bad": len(v)}
