"""C15 — compressing pmapping tables for joining loses no per-row detail.

History: build 1-3 pmapping tables (0-3 rows each, empty tables first / middle / last
included) for each of 1-2 Einsums -> real ``compress_einsum2pmappings`` -> simulated join =
cross-merge of the compressed tables on their ``<einsum><SEP>compressed_index`` columns,
keep a selection of the joined rows (every subset up to the bound, ascending and descending
order, rows re-used by several joined rows, tables not used at all) -> real
``decompress_pmappings``.

Oracle (from the statement): every result row carries exactly the non-joining columns of
the pmapping rows it was built from.  Each source row has a unique joining-column sentinel
(``Total<SEP>energy``) by which the harness - not the implementation's index bookkeeping -
identifies which original row a compressed row stands for; payload columns (mapping id,
per-Einsum energy / latency) carry unique sentinels too.  Columns a source table did not
have must be absent or NaN; joined columns and row order must be unchanged.  Domain (the
public path raises before/after otherwise): every Einsum has >= 1 row in total and the
selection is non-empty; histories outside it are executed and recorded but not judged.

Self-test (mutants on a scratch copy, VERIF_REPO=/tmp/af-mut-c15, quick tier, all in
compress_pmappings.py):
  Ma decompress walk ``i < start_index`` -> ``i <= start_index``  -> CAUGHT (14205 histories,
       exception/StopIteration|AssertionError and payload-mismatch)
  Mb _compress: ``data.index += start_index`` removed (indices collide across tables)
       -> CAUGHT (8339, payload-mismatch / exception)
  Mc _compress_pmapping_list: ``decompress_data[start_index] = decompress`` ->
       ``decompress_data.setdefault(start_index, decompress)`` (an empty table shadows the table
       that follows it) -> CAUGHT (2640, only histories with an empty table before a used one)
  Me decompress walks the sub-tables forwards instead of reversed -> CAUGHT (13230)
  (counts from the first quick space of 17004 histories; Mc re-run on the final, smaller quick
  space of 11585 histories: still CAUGHT, 1907 histories)
"""

from __future__ import annotations

import itertools
import math

from mc.explorer import Result

MANIFEST = {
    "text": "every history compress -> select joined rows -> decompress over 1-2 Einsums with 1-3 tables of 0-3 rows "
            "(empty tables in every position), 3 payload/index-style variants and every selection of up to 3 joined "
            "rows (both orders) is run on the real compress_einsum2pmappings / decompress_pmappings and each result "
            "row's payload is compared with the source rows; right level because the reversed sub-table walk depends "
            "only on table sizes and on which indices are selected",
    "note": "trusted: pandas merge/concat, the harness's simulated join (cross merge on compressed index columns); "
            "selections > 3 rows (quick) and > 2 Einsums not covered; parallel runner forced serial",
    "technique": "bounded exhaustive history enumeration (explicit-state) vs reference model",
}

RULE = (
    "one history = (row counts of every table of every Einsum, payload/index variant, ordered selection of joined "
    "rows); distinct by construction. NON-TRIVIAL: in-domain history in which some selected row lives in a table "
    "that is not the first of its Einsum's list (the reversed walk has to change sub-table)"
)
ASSUMPTIONS = [
    "pandas merge / concat semantics",
    "a join result refers to source rows only through the <einsum><SEP>compressed_index columns "
    "(simulated join = cross merge of compressed tables)",
    "Einsums without any pmapping and empty join results are outside the domain (the public path raises)",
    "accelforge.util.parallel forced to one job",
]

S = "<SEP>"
C_EN = f"Total{S}energy"
EINSUMS = ["A", "B"]
VARIANTS = ["p0-range", "p1-gappy", "p2-hetero-dupidx"]


# ------------------------------------------------------------------ fixtures
def payload_cols(e, variant, t):
    if variant == "p0-range":
        return []
    cols = [f"{e}{S}mapping"]
    if variant == "p2-hetero-dupidx":
        cols.append(f"{e}{S}energy{S}X{S}read")
        if t % 2 == 1:
            cols.append(f"{e}{S}latency{S}Y")
    return cols


def source_rows(shapes, variant):
    """-> {einsum: [ {energy, table, payload{col: value}} per row in list order ]}"""
    out = {}
    for ei, counts in enumerate(shapes):
        e = EINSUMS[ei]
        rows = []
        for t, n in enumerate(counts):
            for i in range(n):
                en = 1000.0 * (ei + 1) + 100.0 * t + 10.0 * i + 1
                pay = {}
                for k, c in enumerate(payload_cols(e, variant, t)):
                    v = 10000 * (ei + 1) + 1000 * (k + 1) + 100 * t + i
                    pay[c] = v if k == 0 else v + 0.5
                rows.append({"energy": en, "table": t, "payload": pay})
        out[e] = rows
    return out


def make_tables(shapes, variant):
    import pandas as pd

    src = source_rows(shapes, variant)
    tables = {}
    for ei, counts in enumerate(shapes):
        e = EINSUMS[ei]
        tl = []
        for t, n in enumerate(counts):
            rs = [r for r in src[e] if r["table"] == t]
            data = {C_EN: [r["energy"] for r in rs]}
            for c in payload_cols(e, variant, t):
                data[c] = [r["payload"][c] for r in rs]
            if variant == "p0-range":
                idx = list(range(n))
            elif variant == "p1-gappy":
                idx = [5 + 3 * i for i in range(n)]
            else:
                idx = [7] * n
            df = pd.DataFrame(data, index=idx)
            if n == 0:
                df = df.astype({C_EN: "float64"})
            tl.append(df)
        tables[e] = tl
    return src, tables


def _groups(tables):
    from accelforge.mapper.FFM._join_pmappings.pmapping_group import PmappingGroup
    from accelforge.mapper.FFM._join_pmappings.pmapping_dataframe import PmappingDataframe
    from accelforge.mapper.FFM._join_pmappings.compatibility import Compatibility
    from accelforge.util._frozenset import fzs

    return {e: [PmappingGroup(Compatibility(tensors=fzs()), PmappingDataframe(df, 1, 1, set(), False, skip_pareto=True))
                for df in tl] for e, tl in tables.items()}


class _Viol(Exception):
    pass


def n_rows(shapes):
    return [sum(c) for c in shapes]


# ------------------------------------------------------------------ one history
def run_history(shapes, variant, selection):
    """selection: ordered list of tuples (position in Einsum A's rows[, position in B's rows])"""
    import pandas as pd
    from accelforge.mapper.FFM._join_pmappings.compress_pmappings import (
        compress_einsum2pmappings, decompress_pmappings)
    from accelforge.mapper.FFM._join_pmappings.pmapping_dataframe import PmappingDataframe

    shapes = tuple(tuple(c) for c in shapes)
    selection = [tuple(s) for s in selection]
    src, tables = make_tables(shapes, variant)
    es = EINSUMS[:len(shapes)]
    in_domain = all(t > 0 for t in n_rows(shapes)) and len(selection) > 0
    nontrivial = in_domain and any(src[e][s[k]]["table"] > 0 for s in selection for k, e in enumerate(es))
    try:
        comp, dd = compress_einsum2pmappings(_groups(tables), print_progress=False)
        # ---- simulated join: cross merge of the compressed tables, referring to rows by compressed index only
        flat = {}
        for e in es:
            frames = [g.mappings.data for g in comp[e] if len(g.mappings.data)]
            flat[e] = (pd.concat(frames) if frames else comp[e][0].mappings.data).reset_index(drop=True)
            if len(flat[e]) != len(src[e]):
                raise _Viol("compress/row-count-changed", f"{e}: {len(flat[e])} compressed rows for {len(src[e])}")
        recs, expected = [], []
        for s in selection:
            rec, total, who = {}, 0.0, {}
            for k, e in enumerate(es):
                row = flat[e].iloc[s[k]]
                rec[f"{e}{S}compressed_index"] = row[f"{e}{S}compressed_index"]
                total += float(row[C_EN])
                # identity of the source row = its unique joining-column sentinel
                who[e] = next((r for r in src[e] if r["energy"] == float(row[C_EN])), None)
                if who[e] is None:
                    raise _Viol("compress/joining-column-altered", f"{e}: {C_EN}={float(row[C_EN])} is no source row")
            rec[C_EN] = total
            recs.append(rec)
            expected.append((total, who))
        cols = [f"{e}{S}compressed_index" for e in es] + [C_EN]
        joined = pd.DataFrame(recs, columns=cols)
        if len(recs) == 0:
            joined = joined.astype({C_EN: "float64", **{c: "int64" for c in cols[:-1]}})
        out = decompress_pmappings(PmappingDataframe(joined, 1, 1, set(), False, skip_pareto=True), dd).data
    except _Viol as ex:
        return f"viol:{ex.args[0]}", ((ex.args[0], ex.args[1]) if in_domain else None), in_domain, nontrivial
    except Exception as ex:  # observation
        return (f"raise:{type(ex).__name__}:{str(ex)[:80]}",
                ((f"exception/{type(ex).__name__}", str(ex)[:200]) if in_domain else None), in_domain, nontrivial)

    # ---- compare
    obs = [[(c, _j(out[c].iloc[r])) for c in out.columns] for r in range(len(out))]
    if not in_domain:
        return obs, None, False, False
    viol = None
    all_payload = {e: sorted({c for t in range(len(shapes[k])) for c in payload_cols(e, variant, t)})
                   for k, e in enumerate(es)}
    if len(out) != len(selection):
        viol = ("row-count", f"{len(out)} rows for {len(selection)} joined rows")
    else:
        for r, (total, who) in enumerate(expected):
            if C_EN not in out.columns or float(out[C_EN].iloc[r]) != total:
                viol = ("joined-column-or-order-changed", f"row {r}: {C_EN} expected {total}")
                break
            for e in es:
                pay = who[e]["payload"]
                for c in all_payload[e]:
                    if c in pay:
                        if c not in out.columns:
                            viol = ("payload-column-missing", f"row {r}: {c} missing, expected {pay[c]}")
                        else:
                            v = out[c].iloc[r]
                            if _isnan(v) or float(v) != float(pay[c]):
                                viol = ("payload-mismatch", f"row {r}: {c} = {_j(v)}, expected {pay[c]} "
                                                            f"(source table {who[e]['table']})")
                    elif c in out.columns and not _isnan(out[c].iloc[r]):
                        viol = ("payload-from-other-row", f"row {r}: {c} = {_j(out[c].iloc[r])} but the source "
                                                          f"row (table {who[e]['table']}) has no such column")
                    if viol:
                        break
                if viol:
                    break
            if viol:
                break
        if viol is None:
            known = {C_EN} | {c for e in es for c in all_payload[e]}
            extra = [c for c in out.columns if c not in known and "compressed_index" not in c]
            if extra:
                viol = ("unexpected-column", str(extra))
    return obs, viol, True, nontrivial


def _isnan(v):
    try:
        return v is None or (isinstance(v, float) and math.isnan(v)) or v != v
    except Exception:
        return False


def _j(v):
    if _isnan(v):
        return "nan"
    try:
        return float(v)
    except Exception:
        return repr(v)


# ------------------------------------------------------------------ explorer glue
def body(cfg):
    shapes, variant, sel, order = cfg
    selection = list(sel) if order == "asc" else list(sel)[::-1]
    obs, viol, validated, nontrivial = run_history(shapes, variant, selection)
    sample = {"shapes": [list(c) for c in shapes], "variant": variant, "selection": [list(s) for s in selection]}
    v = None
    if viol is not None:
        where = "tables=" + "/".join("".join("0" if n == 0 else "n" for n in c) for c in shapes)
        v = {"family": f"{viol[0]}", "observed": obs if isinstance(obs, str) else viol[1],
             "expected": "each result row carries the payload of the rows it was built from",
             "note": f"{viol[1]} [{where}]", "config": sample}
    oc = ("raise" if isinstance(obs, str) else "ok") + ("" if validated else "/out-of-domain")
    return Result(outcome=obs if isinstance(obs, str) else [list(map(list, r)) for r in obs],
                  nontrivial=nontrivial, validated=validated, violation=v, sample=sample,
                  evaluations=2, outcome_class=oc)


def shape_lists(max_tables, max_rows):
    return [c for k in range(1, max_tables + 1) for c in itertools.product(range(max_rows + 1), repeat=k)]


def history_tree(shape_combos, max_sel, variants=VARIANTS, desc_max=99):
    def tree(p):
        if len(p) == 0:
            return shape_combos
        if len(p) == 1:
            return variants
        if len(p) == 2:
            tot = n_rows(p[0])
            cross = list(itertools.product(*[range(t) for t in tot]))
            menu = []
            ms = max_sel(p[0]) if callable(max_sel) else max_sel
            for k in range(0, ms + 1):
                menu.extend(itertools.combinations(cross, k))
            return menu
        if len(p) == 3:
            return ["asc"] if (len(p[2]) < 2 or len(p[2]) > desc_max) else ["asc", "desc"]
        return None

    return tree


def run(ctx):
    import importlib

    importlib.import_module("accelforge.util.parallel").set_n_parallel_jobs(1)
    q = ctx.quick
    run_history(((2, 0, 1), (1,)), "p2-hetero-dupidx", [(2, 0), (0, 0)])  # warm-up / import
    one = [(c,) for c in shape_lists(3, 3)]
    if q:
        two = [(a, b) for a in shape_lists(2, 2) for b in shape_lists(2, 2)]
        sel = lambda shapes: 3 if sum(n_rows(shapes)) <= 4 else 2
        ctx.explore("one-einsum", history_tree(one, sel, desc_max=2), body, shard_depth=2,
                    distinct_by_construction=True)
        ctx.explore("two-einsums", history_tree(two, 2, variants=VARIANTS[1:]), body, shard_depth=2,
                    distinct_by_construction=True)
        ctx.bound(one_einsum="1-3 tables x 0-3 rows, every selection of <= 2 joined rows in both orders, and of 3 "
                             "joined rows (ascending) when the Einsum has <= 4 rows in total",
                  two_einsums="1-2 tables x 0-2 rows each, every selection of <= 2 joined rows, both orders, "
                              "variants with payload only",
                  variants=VARIANTS)
    else:
        two = [(a, b) for a in shape_lists(2, 3) for b in shape_lists(2, 2)]
        two3 = [(a, b) for a in shape_lists(3, 1) for b in shape_lists(2, 1)]
        ctx.explore("one-einsum", history_tree(one, 4), body, shard_depth=2, distinct_by_construction=True)
        ctx.explore("two-einsums", history_tree(two, 2), body, shard_depth=2, distinct_by_construction=True)
        ctx.explore("two-einsums-sel3", history_tree(two3, 3), body, shard_depth=2, distinct_by_construction=True)
        ctx.bound(one_einsum="1-3 tables x 0-3 rows, every selection of <= 4 joined rows, both orders",
                  two_einsums="A: 1-2 tables x 0-3 rows, B: 1-2 tables x 0-2 rows, selections <= 2; "
                              "A: 1-3 tables x 0-1 rows, B: 1-2 tables x 0-1 rows, selections <= 3",
                  variants=VARIANTS)


def replay(ctx, rec):
    import importlib

    importlib.import_module("accelforge.util.parallel").set_n_parallel_jobs(1)
    c = rec["config"]
    obs, viol, validated, _ = run_history(c["shapes"], c["variant"], c["selection"])
    return {"observed": obs if isinstance(obs, str) else [list(map(list, r)) for r in obs],
            "expected": "payload of source rows", "violation": viol is not None,
            "detail": list(viol) if viol else None}
