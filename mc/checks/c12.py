"""C12 — pmapping-table Pareto pruning respects objectives, reservations and tolerances.

Alphabet: tiny pmapping tables with the column kinds the joiner sees —
``Total<SEP>energy`` / ``Total<SEP>latency`` (objectives), ``reservation<SEP>M<SEP>0<SEP>right``,
``fused_loop<SEP>E<SEP>stride0`` (fused-loop tile shape), ``fused_loop<SEP>n_iterations<SEP>0``
(derived from the tile shape, as the code's contract says), ``tensor<SEP>T`` and
``E<SEP>mapping`` (payload that must be ignored) and one constant column of each
pareto-relevant kind.  Every table of the bound is pushed through the real ``makepareto``
and ``PmappingDataframe`` (constructor and ``make_pareto``), float64 and float32.

Bound (quick): zero tolerance - every table with <= 2 rows over 2-value alphabets x 9
variant/entry combinations (6 column-set variants through makepareto/f64, makepareto/f32,
PmappingDataframe constructor/f32, PmappingDataframe.make_pareto/f64), every 3-row table over
2-value alphabets and every 2-row table over 3-value alphabets x 2 entries (makepareto/f64,
constructor/f32).
Tolerance grid {0,.01,.1,.5}^3 (objective, relative-resource, absolute-resource): every 2-row
table over value ladders placed just inside / just outside the (1+t) buckets of each
tolerance, 2-row tables with differing tile shapes (both entry points), 3-row tables over
2-value ladders.  Thorough: <= 3 rows x 9 combinations, 4 rows (makepareto only), 9-value
energy ladder, 3-row 3-value ladders.  PmappingDataframe.make_pareto is exercised on the full
tolerance grid through the T-n2-split family (it only forwards its arguments to makepareto).

Oracle: mc/ref/pareto_table.py (built on the O(n^2) dominance of mc/ref/pareto.py).
Zero tolerance: no strictly dominated row (same fused-loop tile shape) is kept and every
class of non-dominated rows keeps a representative; adding a constant column never changes
the kept set; returned rows are unaltered input rows.  Tolerance t: every dropped row has a
kept row with the same tile shape within (1+t_obj) on objectives and within
(1+t_rel)*x + t_abs on reservations.

Self-test (mutants on a scratch copy, VERIF_REPO=/tmp/af-mut-c12, quick tier):
  M1 df_convention.is_n_iterations_col: ``startswith("fused_loop<SEP>n_iterations")`` ->
       ``startswith("fused_loop<SEP>")`` (tile-shape column no longer splits) -> CAUGHT (5366,
       */zero/drops-nondominated and */drops-uncovered)
  M2 pareto.logscale_to_tolerance: bucket width ``log(1+t)`` -> ``log(1+2t)`` -> CAUGHT (144
       drops-uncovered, e.g. energies 0.92 / 1.09 merged at t = 0.1)
  M2b logscale_to_tolerance ``np.round`` -> ``np.floor`` (DESIGN's suggestion) -> NOT CAUGHT, and
       rightly so: floor buckets are still narrower than (1+t), the property keeps holding
  M3 makepareto: multi_round(x, rel, abs) called with the two tolerances swapped -> CAUGHT (432)
  M4 makepareto constant-column skip ``(arr == arr[0]).all()`` -> ``(arr[1:] == arr[0]).any()``
       -> CAUGHT (4080).  (DESIGN's ``arr[-1]`` variant is logically equivalent; not run.)
  M5 PmappingDataframe.make_pareto passes ``objective_tolerance=resource_usage_tolerance``
       -> CAUGHT (96, pdf-make_pareto/*/drops-uncovered)
  M6 makepareto: split columns get goal "min" instead of "diff" -> CAUGHT (3552)
  (counts from a slightly larger earlier quick space; M2 re-run on the final quick space:
  still CAUGHT, 144)
"""

from __future__ import annotations

import itertools

import numpy as np

from mc.explorer import Result
from mc.ref import pareto_table as RT

MANIFEST = {
    "text": "every pmapping table of the stated small shapes (<=3 rows quick / <=4 thorough over 2-3 value "
            "alphabets for objectives, a reservation and a fused-loop tile shape, with ignored payload columns "
            "and constant columns of every kind) is pruned by the real makepareto and PmappingDataframe.make_pareto "
            "under every tolerance triple of {0,.01,.1,.5}^3 and compared with an O(n^2) dominance reference; right "
            "level because pruning is a pure function of a small table and its tolerance paths are never tested",
    "note": "trusted: pandas/numpy, R-pareto dominance; n_iterations columns are kept a function of the tile-shape "
            "column (the code's stated contract); drop_valid_reservations=True, explicit columns=/split_by_cols= "
            "arguments, NaN/negative values and tables > 4 rows are not covered",
    "technique": "bounded exhaustive input enumeration (explicit-state) vs reference model",
}

RULE = (
    "one configuration = (table rows over the value alphabets, tolerance triple); each is run through several "
    "entry points / column-set variants inside one body. Distinct by construction (plain product). NON-TRIVIAL: "
    "phase Z - some row is strictly dominated within its tile-shape group and some row survives; phase T - a "
    "non-zero tolerance makes the implementation drop a row that is not dominated exactly"
)
ASSUMPTIONS = [
    "pandas / numpy float semantics; comparisons in the oracle carry a 1e-6 relative guard",
    "R-pareto dominance (mc/ref/pareto.py) is the specification of 'dominates'",
    "among exact ties on all pareto-relevant columns keeping any non-empty subset is accepted",
    "with both a relative and an absolute resource tolerance the allowed slack is their sum",
    "fused_loop n_iterations columns are a function of the fused-loop tile-shape columns",
]

S = "<SEP>"
C_E, C_L = f"Total{S}energy", f"Total{S}latency"
C_R = f"reservation{S}M{S}0{S}right"
C_F = f"fused_loop{S}E{S}stride0"
C_N = f"fused_loop{S}n_iterations{S}0"
C_T = f"tensor{S}T"
C_M = f"E{S}mapping"
CONST = {"cobj": (f"Total{S}area", 7.0), "cres": (f"reservation{S}G{S}0{S}right", 0.5),
         "cfus": (f"fused_loop{S}E{S}stride1", 3)}
VARIANTS = ["full", "cobj", "cres", "cfus", "bare", "rev"]
DT = {"f64": np.float64, "f32": np.float32}
TOLS = [0, 0.01, 0.1, 0.5]
TOL_GRID = list(itertools.product(TOLS, repeat=3))  # (objective, relative resource, absolute resource)


def _impl():
    from accelforge.mapper.FFM._pareto_df.pareto import makepareto
    from accelforge.mapper.FFM._join_pmappings.pmapping_dataframe import PmappingDataframe

    return makepareto, PmappingDataframe


def build(rows, variant, dtype):
    import pandas as pd

    n = len(rows)
    dt = DT[dtype]
    cols = {
        C_E: np.array([r[0] for r in rows], dtype=dt),
        C_L: np.array([r[1] for r in rows], dtype=dt),
        C_R: np.array([r[2] for r in rows], dtype=dt),
        C_F: np.array([r[3] for r in rows], dtype=np.int64),
    }
    if variant != "bare":
        cols[C_N] = np.array([8 // r[3] for r in rows], dtype=np.int64)  # derived from the tile shape
        cols[C_T] = np.array([float(n - i) for i in range(n)], dtype=dt)  # would matter if it were used
        m = np.empty(n, dtype=object)
        for i in range(n):
            m[i] = 100 + (n - i)
        cols[C_M] = m
    if variant in CONST:
        name, val = CONST[variant]
        cols[name] = np.array([val] * n, dtype=(np.int64 if isinstance(val, int) else dt))
    names = list(cols)
    if variant == "rev":
        names = names[::-1]
    return pd.DataFrame({k: cols[k] for k in names})


def call(entry, df, tol):
    """-> (kept row positions, returned-rows-unaltered?) or 'raise:...'"""
    makepareto, PDF = _impl()
    to, tr, ta = tol
    orig = df.copy()
    try:
        if entry == "makepareto":
            res = makepareto(df, objective_tolerance=to, resource_usage_tolerance=tr,
                             absolute_resource_usage_tolerance=ta)
        elif entry == "pdf-ctor":
            assert tol == (0, 0, 0)
            res = PDF(df, 1, 1, set(), False, skip_pareto=False).data
        else:
            p = PDF(df, 1, 1, set(), False, skip_pareto=True)
            res = p.make_pareto(objective_tolerance=to, resource_usage_tolerance=tr,
                                absolute_resource_usage_tolerance=ta).data
    except Exception as e:  # observation
        return f"raise:{type(e).__name__}:{e}", True
    kept = [int(i) for i in res.index]
    ok = len(set(kept)) == len(kept) and all(0 <= i < len(orig) for i in kept)
    if ok:
        for c in orig.columns:
            if c not in res.columns or res[c].tolist() != orig[c].iloc[kept].tolist():
                ok = False
                break
    return kept, ok


def vectors(df):
    """What the statement talks about, read back from the table actually handed over."""
    obj = [[float(a), float(b)] for a, b in zip(df[C_E], df[C_L])]
    res = [[float(a)] for a in df[C_R]]
    split = [(int(f),) for f in df[C_F]]  # a constant fused-loop column cannot change the grouping
    return obj, res, split


def _toltype(tol):
    to, tr, ta = tol
    if tol == (0, 0, 0):
        return "zero"
    r = ("rel" if tr else "") + ("+" if tr and ta else "") + ("abs" if ta else "")
    return "+".join(x for x in (("obj" if to else ""), r) if x)


def judge(entry, variant, dtype, rows, tol):
    df = build(rows, variant, dtype)
    obj, res, split = vectors(df)
    kept, unaltered = call(entry, df, tol)
    tag = f"{entry}/{_toltype(tol)}"
    if isinstance(kept, str):
        return kept, (f"{tag}/exception", kept), False
    if not unaltered:
        return kept, (f"{tag}/returned-rows-altered", kept), False
    opt = [o + r for o, r in zip(obj, res)]
    v = RT.judge_tolerance(obj, res, split, kept, *tol)
    if v is None and tol == (0, 0, 0):
        v = RT.judge_zero(opt, split, kept)
    md = RT.must_drop(opt, split)
    if tol == (0, 0, 0):
        nontriv = bool(md) and len(md) < len(rows)
    else:
        # tolerance had an effect: a row went that is neither dominated nor an exact tie of a kept row
        kept_vecs = {(tuple(opt[j]), split[j]) for j in kept}
        nontriv = any(i not in md and (tuple(opt[i]), split[i]) not in kept_vecs
                      for i in range(len(rows)) if i not in kept)
    if v is not None:
        return kept, (f"{tag}/{v[0]}", v[1]), nontriv
    return kept, None, nontriv


PLANS = {
    # name -> [(entry point, column-set variant, float dtype)]
    "Z": [("makepareto", v, "f64") for v in VARIANTS] + [
        ("makepareto", "full", "f32"), ("pdf-ctor", "full", "f32"), ("pdf-make_pareto", "full", "f64")],
    "Zs": [("makepareto", "full", "f64"), ("pdf-ctor", "full", "f32")],
    "Z1": [("makepareto", "full", "f64")],
    "T": [("makepareto", "full", "f64")],
    "Tb": [("makepareto", "full", "f64"), ("pdf-make_pareto", "full", "f32")],
}


def evaluate(phase, rows, tol):
    rows = [tuple(r) for r in rows]
    tol = tuple(tol)
    plan = PLANS[phase]
    obs, viol, nontriv = [], None, False
    base = None
    for entry, variant, dtype in plan:
        kept, v, nt = judge(entry, variant, dtype, rows, tol)
        obs.append(kept if isinstance(kept, str) else tuple(kept))
        nontriv = nontriv or nt
        if v is not None and viol is None:
            viol = {"family": v[0], "observed": kept, "expected": v[1],
                    "note": f"entry={entry} variant={variant} dtype={dtype}"}
        if entry == "makepareto" and dtype == "f64" and tol == (0, 0, 0):
            if variant == "full":
                base = kept
            elif variant in CONST and kept != base and viol is None:
                viol = {"family": f"makepareto/zero/constant-column-changes-result/{variant}",
                        "observed": kept, "expected": base,
                        "note": f"kept set with constant column {CONST[variant][0]} differs from the one without"}
    return obs, viol, nontriv, len(plan)


def make_body(phase):
    has_tol = phase.startswith("T")

    def body(cfg):
        n = cfg[0]
        rows = cfg[1:1 + n]
        tol = cfg[1 + n] if has_tol else (0, 0, 0)
        obs, viol, nontriv, n_eval = evaluate(phase, rows, tol)
        sample = {"phase": phase, "rows": [list(r) for r in rows], "tol": list(tol)}
        if viol is not None:
            viol["config"] = sample
        oc = f"{phase[0]}:kept={len(obs[0]) if not isinstance(obs[0], str) else 'raise'}/{n}"
        return Result(outcome=(tuple(obs), n), nontrivial=nontriv, violation=viol, sample=sample,
                      evaluations=n_eval, outcome_class=oc)

    return body


def table_tree(ns, alph, tols=None):
    """levels: n, row_1..row_n (each a tuple (E, L, R, F)), [tolerance triple]"""
    row_menu = list(itertools.product(*alph))

    def tree(p):
        if len(p) == 0:
            return list(ns)
        n = p[0]
        if len(p) - 1 < n:
            return row_menu
        if tols is not None and len(p) - 1 == n:
            return tols
        return None

    return tree


def union(families):
    """families: {name: (tree, plan)} -> (tree, body) with the family name as level 0 (one worker pool for all)."""
    names = list(families)
    bodies = {k: make_body(v[1]) for k, v in families.items()}

    def tree(p):
        if len(p) == 0:
            return names
        return families[p[0]][0](p[1:])

    def body(cfg):
        return bodies[cfg[0]](cfg[1:])

    return tree, body


def run(ctx):
    q = ctx.quick
    # warm-up (numba kernels, pandas paths) in the parent
    evaluate("Z", [(1, 2, 0.5, 1), (2, 1, 0.25, 1), (2, 2, 0.5, 2)], (0, 0, 0))
    evaluate("Tb", [(1, 2, 0.5, 1), (1.004, 1, 0.25, 1)], (0.1, 0.1, 0.01))
    # ---- zero tolerance: exactness, constant / ignored columns, every entry point
    A2 = ([1, 2], [1, 2], [0.25, 0.5], [1, 2])
    A3 = ([1, 2, 4], [1, 2, 4], [0.25, 0.5, 1], [1, 2, 4])
    A3q = ([1, 2, 4], [1, 2, 4], [0.25, 0.5, 1], [1, 2])
    fam = {"Z-2val": (table_tree([0, 1, 2] if q else [0, 1, 2, 3], A2), "Z"),
           "Z-3val-n2": (table_tree([2], A3q if q else A3), "Zs" if q else "Z")}
    if q:
        fam["Z-2val-n3"] = (table_tree([3], A2), "Zs")
    else:
        fam["Z-2val-n4"] = (table_tree([4], A2), "Z1")
        fam["Z-3val-n3"] = (table_tree([3], ([1, 2, 4], [1, 2, 4], [0.25, 0.5], [1, 2])), "Z1")
    tree, body = union(fam)
    ctx.explore("zero-tolerance", tree, body, shard_depth=4, distinct_by_construction=True)

    # ---- tolerance grid.  The ladders sit just inside / just outside the (1+t) buckets of t = .01, .1, .5
    if q:
        E2, L2, R2 = [0.92, 1, 1.004, 1.09, 1.3], [1], [0.25, 0.254, 0.5]
        T3 = ([1, 1.09], [1], [0.25, 0.3], [1])
    else:
        E2 = [0.75, 0.92, 0.993, 1, 1.004, 1.008, 1.09, 1.3, 2]
        L2 = [1]
        R2 = [0, 0.25, 0.254, 0.5, 1.0]
        T3 = ([0.92, 1, 1.09], [1], [0.25, 0.254, 0.5], [1])
    fam = {"T-n2": (table_tree([2], (E2, L2, R2, [1]), TOL_GRID), "T"),
           "T-n2-split": (table_tree([2], ([1, 1.004], [1], [0.25, 0.254], [1, 2]), TOL_GRID), "Tb"),
           "T-n3": (table_tree([3], T3, TOL_GRID), "T"),
           "T-n2-2obj": (table_tree([2], ([1, 1.004], [1, 1.09], [0.25], [1]), TOL_GRID), "T"),
           # values on both sides of 1.0: the log-scale bucket with index 0 (negative and positive logs meet)
           "T-n2-bucket0": (table_tree([2], ([0.6, 0.88, 0.993, 1.004, 1.2], [1], [0.88, 1.0], [1]), TOL_GRID), "T")}
    if not q:
        fam["T-n3-2val"] = (table_tree([3], ([1, 1.09], [1, 1.004], [0.25, 0.3], [1]), TOL_GRID), "T")
    tree, body = union(fam)
    ctx.explore("tolerance-grid", tree, body, shard_depth=4, distinct_by_construction=True)
    ctx.bound(Z="rows<=%s over 2-value alphabets x %d variant/entry combinations%s; rows=2 over 3-value alphabets%s"
                % (2 if q else 3, len(PLANS["Z"]), " and rows=3 x 2 entries" if q else "",
                   " (tile shape 2-valued, 2 entries)" if q else "; rows=4 over 2-value alphabets and rows=3 over 3x3x2x2 (makepareto only)"),
              variants=VARIANTS, T_rows2={"energy": E2, "latency": L2, "reservation": R2},
              T_rows3=[list(a) for a in T3],
              tolerance_grid="{0,0.01,0.1,0.5}^3 (objective, relative resource, absolute resource)",
              T_entries={"T-n2/T-n3/T-n2-2obj": "makepareto",
                         "T-n2-split": "makepareto + PmappingDataframe.make_pareto"})
    ctx.note("n_iterations column = 8 // tile-shape column (inside the contract stated in makepareto); note that "
             "is_n_iterations_col() only matches 'fused_loop<SEP>n_iterations...' while real tables name these "
             "columns 'fused_loop<SEP><einsum><SEP>n_iterations<SEP>k', so in real runs they act as split columns")


def replay(ctx, rec):
    c = rec["config"]
    obs, viol, _, _ = evaluate(c["phase"], c["rows"], tuple(c["tol"]))
    return {"observed": [list(o) if not isinstance(o, str) else o for o in obs],
            "expected": (viol or {}).get("expected"), "violation": viol is not None,
            "family": (viol or {}).get("family")}
