"""C19 — optimal costs scale with the architecture's cost parameters and with n_instances.

Alphabet: specs of the small family x k in {1/4, 1/2, 2, 8, 3, 0.3, 1e6, 1e-6} x {all per-action
energies and leak powers x k (metric ENERGY), all finite throughputs x k (metric LATENCY)} and
x n in {2, 3} x {workload.n_instances = n, the Einsum's n_instances = n (single-Einsum specs)} x
metric sets.  The scaled architectures are built with dataclasses.replace on the S.Mem / S.Comp
nodes of the family spec.  Oracle (relative 1e-5, float32 tables): optimal energy x k; optimal
latency / k; with n instances the optimum (E, L) resp. every (energy, latency) vector of the
ENERGY|LATENCY front x n and the same number of returned rows.  Differential between two runs of
the real mapper (base run vs scaled run).

Mutation self-test (scratch copies /tmp/af-mut-*):
  1. run_model.py `df["Total<SEP>latency"] = overall_latency * n_instances` -> without n_instances:
     CAUGHT by the whole quick tier (18 violations, wl-n_instances-scaling/front-not-scaled and
     einsum-n_instances-scaling/front-not-scaled).
  2. pareto.py makepareto rounds objective columns to 2 decimals (absolute, scale-dependent
     threshold): CAUGHT at energy k=1e-6 (MM1-422/tight) and throughput k=1e6 (MM1-422/tight-thr),
     correctly silent at k=2 (replays).
  3. fast_pareto.py treats a column as constant when max-min < 1e-2: MISSED - it only disables
     pruning (more rows survive), the optimum is unchanged.
"""

from __future__ import annotations

import dataclasses

from mc import afx
from mc import family as FAM
from mc import treehash
from mc import specs as S
from mc.explorer import Result, pmap

MANIFEST = {
    "text": "for every spec of a small family the real mapper is run on the base spec and on the spec with all action "
            "energies and leak powers (resp. all throughputs) multiplied by k, for powers of two, non-integers and the "
            "extreme factors 1e6 / 1e-6 that exercise float32 rounding and hard-coded sentinels, and with n_instances "
            "in {2,3} on the workload or the Einsum; the optimum must scale exactly as the linear cost model says; "
            "a metamorphic input-output relation of the whole mapper, enumerated exhaustively within the bound",
    "note": "trusted: nothing (differential between two runs of the implementation); relative 1e-5; ties between equally "
            "good mappings are allowed (only objective values are compared); 1-2 Einsum specs, no persistent tensors",
    "technique": "bounded exhaustive enumeration of specs x scale factors x scaled parameter groups; metamorphic comparison of mapper runs",
}
RULE = ("one state per (spec, scaled group, k or (n, metric set)), distinct by construction; non-trivial = the base "
        "optimum keeps a tensor below the outermost memory (the mapper made a capacity-constrained choice) and, for "
        "throughput scaling, at least two components have a finite throughput")
ASSUMPTIONS = [
    "float32 result tables: relative tolerance 1e-5 (also covers k = 1e6 and 1e-6)",
    "the specs have no persistent tensors, so n_instances does not change occupancy/validity",
]

KS = [0.25, 0.5, 2, 8, 3, 0.3, 1e6, 1e-6]
NS = [2, 3]
REL = 1e-5


def _sc(x, k):
    return x if str(x) == "inf" else x * k


def scale_arch(arch, ek=1, tk=1):
    nodes = []
    for n in arch.nodes:
        if isinstance(n, S.Mem):
            n = dataclasses.replace(n, read_energy=n.read_energy * ek, write_energy=n.write_energy * ek, leak=n.leak * ek,
                                    read_throughput=_sc(n.read_throughput, tk), write_throughput=_sc(n.write_throughput, tk))
        elif isinstance(n, S.Comp):
            n = dataclasses.replace(n, energy=n.energy * ek, leak=n.leak * ek, throughput=_sc(n.throughput, tk))
        else:
            raise ValueError("raw yaml node cannot be scaled")
        nodes.append(n)
    return S.Arch(nodes=tuple(nodes), variables=arch.variables)


def variant_run(sid, kind, par, metric):
    wl, arch = FAM.FAMILY[sid]
    if kind == "base":
        return FAM.run_mapper(sid, metric)
    if kind == "energy":
        arch = scale_arch(arch, ek=par)
    elif kind == "throughput":
        arch = scale_arch(arch, tk=par)
    elif kind == "wl-n_instances":
        wl = dataclasses.replace(wl, n_instances=par)
    elif kind == "einsum-n_instances":
        wl = dataclasses.replace(wl, einsum_n_instances=((wl.einsum_names[0], par),))
    else:
        raise ValueError(kind)
    return FAM.run_mapper(f"{sid}|c19-{kind}*{par!r}", metric, arch=arch, wl=wl)


def _vecs(res):
    return sorted((r["energy"], r["latency"]) for r in res["rows"])


def _close(a, b):
    return abs(a - b) <= REL * abs(b) + 1e-30


def _below_outermost(res, metric):
    if not res["rows"]:
        return False
    w = min(res["rows"], key=lambda r: FAM.row_metric(r, metric[0] if metric == "EL" else metric))
    outer = None
    found = [False]

    def rec(nodes):
        nonlocal outer
        for n in nodes:
            if n[0] == "S":
                if outer is None:
                    outer = n[1]
                elif n[1] != outer:
                    found[0] = True
            elif n[0] == "SEQ":
                for b in n[1]:
                    rec(b)
    if w["nodes"]:
        rec(w["nodes"])
    return found[0]


def jobs_of(cfg):
    """(sid, kind, par) -> metric of the base/scaled runs."""
    sid, kind, par = cfg
    if kind == "energy":
        return "E", par
    if kind == "throughput":
        return "L", par
    n, metric = par
    return metric, n


def body(cfg):
    sid, kind, par = cfg
    metric, p = jobs_of(cfg)
    base = variant_run(sid, "base", None, metric)
    res = variant_run(sid, kind, p, metric)
    sample = {"spec": sid, "scaled": kind, "factor": p, "metric": metric, "base_rows": len(base["rows"]),
              "rows": len(res["rows"]), "base_error": base["error"], "error": res["error"]}
    fe, fl = {"energy": (p, 1.0), "throughput": (1.0, 1.0 / p)}.get(kind, (float(p), float(p)))
    viol = None
    size = "huge-k" if p >= 1e3 else "tiny-k" if p <= 1e-3 else "moderate-k"
    fam_prefix = f"{kind}-scaling"
    if (base["error"] is None) != (res["error"] is None) or bool(base["rows"]) != bool(res["rows"]):
        viol = {"observed": {"rows": len(res["rows"]), "error": res["error"]},
                "expected": {"rows": len(base["rows"]), "error": base["error"]},
                "family": f"{fam_prefix}/validity-changes/{size}"}
    elif base["rows"]:
        if metric == "EL":
            a, b = _vecs(res), [(e * fe, l * fl) for e, l in _vecs(base)]
            sample["front"], sample["expected_front"] = a[:6], b[:6]
            if len(a) != len(b):
                viol = {"observed": {"rows": len(a), "front": a[:8]}, "expected": {"rows": len(b), "front": b[:8]},
                        "family": f"{fam_prefix}/number-of-rows-changes/{size}"}
            elif not all(_close(x[0], y[0]) and _close(x[1], y[1]) for x, y in zip(a, b)):
                viol = {"observed": {"front": a[:8]}, "expected": {"front": b[:8]},
                        "family": f"{fam_prefix}/front-not-scaled/{size}"}
        else:
            got = min(FAM.row_metric(r, metric) for r in res["rows"])
            b0 = min(FAM.row_metric(r, metric) for r in base["rows"])
            exp = b0 * (fe if metric == "E" else fl)
            sample["optimum"], sample["expected_optimum"], sample["base_optimum"] = got, exp, b0
            if not _close(got, exp):
                w = min(res["rows"], key=lambda r: FAM.row_metric(r, metric))
                wb = min(base["rows"], key=lambda r: FAM.row_metric(r, metric))
                viol = {"observed": {"optimum": got, "ratio_to_base": got / b0 if b0 else None, "tree": w["tree"]},
                        "expected": {"optimum": exp, "base_optimum": b0, "base_tree": wb["tree"]},
                        "family": f"{fam_prefix}/optimum-{'worse' if got > exp else 'better'}-than-scaled/{metric}/{size}"}
            elif kind.endswith("n_instances") and len(res["rows"]) != len(base["rows"]):
                viol = {"observed": {"rows": len(res["rows"])}, "expected": {"rows": len(base["rows"])},
                        "family": f"{fam_prefix}/number-of-rows-changes/{size}"}
    if viol:
        viol["config"] = sample
    wl, arch = FAM.FAMILY[sid]
    nontriv = _below_outermost(base, metric)
    if kind == "throughput":
        fin = sum(1 for n in arch.nodes if (isinstance(n, S.Mem) and str(n.read_throughput) != "inf") or
                  (isinstance(n, S.Comp) and str(n.throughput) != "inf"))
        nontriv = nontriv and fin >= 2
    out = (sid, kind, repr(par), tuple(_vecs(res)))
    return Result(outcome=out, nontrivial=nontriv, violation=viol, sample=sample, evaluations=2,
                  outcome_class=f"{kind}:{'rows>1' if len(res['rows']) > 1 else 'rows<=1'}")


def spec_list(ctx):
    if ctx.quick:
        return ["MM1-422/tight", "MM1-422/tight-thr", "MM1-224/mid-leak", "MV1-42/tight", "MV2-222/mid-thr"]
    return list(dict.fromkeys(list(FAM.MEDIUM_SIDS) + [s for s in FAM.THOROUGH_SIDS if s.endswith(("-thr", "-leak", "/H3"))]
                              + ["MM2-2222/tight", "MV2-442/mid"]))


_Q = [True]


def make_tree(sids):
    def tree(p):
        if len(p) == 0:
            return sids
        if len(p) == 1:
            single = len(FAM.FAMILY[p[0]][0].einsums) == 1
            return ["energy", "throughput", "wl-n_instances"] + (["einsum-n_instances"] if single else [])
        if len(p) == 2:
            if p[1] in ("energy", "throughput"):
                return KS
            ms = ["EL"] if _Q[0] else ["E", "L", "EL"]
            return [(n, m) for n in NS for m in ms]
        return None
    return tree


def _leaves(tree, p=()):
    menu = tree(p)
    if menu is None:
        yield p
        return
    for a in menu:
        yield from _leaves(tree, p + (a,))


def _warm(item):
    sid, kind, par, metric = item
    variant_run(sid, kind, par, metric)
    return 1


def run(ctx):
    afx.serial()
    treehash.tree_hash()  # pin the cache key in the parent: all forked workers of this run share one cache directory
    _Q[0] = ctx.quick
    sids = spec_list(ctx)
    tree = make_tree(sids)
    items = set()
    for cfg in _leaves(tree):
        metric, p = jobs_of(cfg)
        items.add((cfg[0], "base", None, metric))
        items.add((cfg[0], cfg[1], p, metric))
    items = sorted(items, key=repr)
    k = ctx.seed % len(items)
    pmap(_warm, items[k:] + items[:k], init=afx.serial)
    ctx.explore("base-vs-scaled", tree, body, shard_depth=3, distinct_by_construction=True)
    ctx.bound(specs=sids, k=KS, n_instances=NS, distinct_mapper_runs=len(items),
              n_instances_metric_sets=["EL"] if ctx.quick else ["E", "L", "EL"])


def replay(ctx, rec):
    c = rec["config"]
    par = c["factor"] if c["scaled"] in ("energy", "throughput") else (c["factor"], c["metric"])
    r = body((c["spec"], c["scaled"], par))
    return {"observed": r.violation and r.violation["observed"], "expected": r.violation and r.violation["expected"],
            "violation": bool(r.violation)}
