"""C11 — the Pareto filter keeps exactly the non-dominated rows.

Alphabet / bound / oracle: DESIGN.md section 4, C11.  Every matrix of the stated
finite families is pushed through the real ``fast_pareto_mask`` (and
``makepareto_numpy``) and compared with R-pareto (mc/ref/pareto.py).
"""

from __future__ import annotations

import itertools
import math

import numpy as np

from mc.explorer import Result
from mc.ref import pareto as R

MANIFEST = {
    "text": "every matrix of the stated finite families (all n<=3..5 x d<=3..4 matrices over small value "
            "alphabets incl. +inf, 1e30/1e308 sentinels and 2^24/1e20 magnitude mixes; all goal vectors; "
            "float32 and float64; antichain+probe families across the 16-row block boundaries) is run "
            "through the real fast_pareto_mask and compared with an O(n^2) reference; right level because "
            "the filter is a pure function with dimension-specific code paths that small matrices cover",
    "note": "trusted: numpy comparisons, R-pareto reference; matrices > 51 rows and NaN not covered",
    "technique": "bounded exhaustive input enumeration (explicit-state) vs reference model",
}

RULE = (
    "every matrix of each family (rows x cols over a small value alphabet) x every goal "
    "vector x dtype; distinct = distinct (dtype, goals, matrix); non-trivial = at least one "
    "row is strictly dominated by another row of its diff group (so the filter must drop "
    "something and keep something)"
)
ASSUMPTIONS = [
    "numpy float32/float64 comparison semantics",
    "R-pareto (mc/ref/pareto.py) is the specification of dominance / first-of-duplicates",
    "NaN entries are outside the property's quantifier",
    "block-boundary family: antichains of 15..49 rows + 1..2 probe rows at every position; "
    "matrices with more than 51 rows are not covered",
]

INF = float("inf")
DT = {"f32": np.float32, "f64": np.float64}


def _impl():
    from accelforge.mapper.FFM._pareto_df.fast_pareto import fast_pareto_mask

    return fast_pareto_mask


def run_one(dtype: str, goals, rows):
    arr = np.array(rows, dtype=DT[dtype]).reshape(len(rows), len(goals))
    vals = arr.astype(np.float64).tolist()
    exp = R.pareto_mask(vals, goals)
    try:
        got = [bool(x) for x in _impl()(arr, list(goals))]
    except Exception as e:  # an exception is an observation, not a harness error
        got = f"raise:{type(e).__name__}:{e}"
    return vals, exp, got


def family_of(dtype, goals, vals, exp, got):
    """Names the specific failing pattern (used to match known findings)."""
    flat = [v for r in vals for v in r]
    has_inf = any(math.isinf(v) for v in flat)
    big = any((not math.isinf(v)) and abs(v) >= 1e30 for v in flat)
    n_opt = sum(g != "diff" for g in goals)
    if isinstance(got, str):
        return "exception"
    kind = "drops-nondominated" if any(e and not g for e, g in zip(exp, got)) else "keeps-dominated"
    tag = "inf" if has_inf else ("huge" if big else "finite")
    return f"{kind}/{tag}/opt_cols={min(n_opt, 3)}"


def body_factory(phase):
    def body(cfg):
        dtype, goals = cfg[0], cfg[1]
        rows = cfg[3:] if phase != "block" else None
        if phase == "block":
            rows = cfg[3]
        vals, exp, got = run_one(dtype, goals, rows)
        nontriv = any(R.dominated_only_mask(vals, goals))
        sample = {"dtype": dtype, "goals": list(goals), "rows": _j(vals), "mask": got}
        viol = None
        if got != exp:
            viol = {"observed": got, "expected": exp,
                    "family": family_of(dtype, goals, vals, exp, got),
                    "note": "fast_pareto_mask != R-pareto", "config": sample | {"phase": phase}}
        return Result(outcome=(tuple(got) if not isinstance(got, str) else got),
                      nontrivial=nontriv, violation=viol,
                      sample=sample if (viol or nontriv) else sample)

    return body


def _j(vals):
    return [["inf" if v == INF else ("-inf" if v == -INF else v) for v in r] for r in vals]


def _unj(rows):
    return [[INF if v == "inf" else (-INF if v == "-inf" else v) for v in r] for r in rows]


def matrix_tree(dtypes, goal_alphabet, shapes, value_alphabet, goal_filter=None):
    """levels: dtype, goals(tuple), (n,d) is implied by goals+n, then n rows."""
    shapes = list(shapes)

    def tree(p):
        if len(p) == 0:
            return dtypes
        if len(p) == 1:
            ds = sorted({d for _, d in shapes})
            gl = []
            for d in ds:
                for g in itertools.product(goal_alphabet, repeat=d):
                    if goal_filter is None or goal_filter(g):
                        gl.append(g)
            return gl
        if len(p) == 2:
            d = len(p[1])
            return sorted({n for n, dd in shapes if dd == d})
        n, d = p[2], len(p[1])
        if len(p) - 3 == n:
            return None
        return list(itertools.product(value_alphabet, repeat=d))

    return tree


# ------------------------- block-boundary family ---------------------------

def block_configs(ms, ds, dtypes):
    out = []
    for dtype in dtypes:
        for d in ds:
            for m in ms:
                for shape in ("lin", "sq"):
                    if shape == "lin":
                        base = [[i, m - i] + [0] * (d - 2) for i in range(m)]
                    else:
                        base = [[i * i, (m - i) * (m - i)] + [0] * (d - 2) for i in range(m)]
                    for order in ("id", "rev", "rot"):
                        b = list(base)
                        if order == "rev":
                            b = b[::-1]
                        elif order == "rot":
                            b = b[7:] + b[:7]
                        out.append((dtype, d, m, shape, order, b))
    return out


def block_tree(ms, ds, dtypes):
    cfgs = block_configs(ms, ds, dtypes)
    goals_by_d = {d: ("min",) * d for d in ds}

    def tree(p):
        # p = (dtype, goals, tag, rows)  built in two steps: pick base, pick probe placement
        if len(p) == 0:
            return dtypes
        if len(p) == 1:
            return [goals_by_d[d] for d in ds]
        if len(p) == 2:
            d = len(p[1])
            return [(m, shape, order) for (dt, dd, m, shape, order, b) in cfgs
                    if dt == p[0] and dd == d]
        if len(p) == 3:
            d = len(p[1])
            m, shape, order = p[2]
            base = next(b for (dt, dd, mm, sh, o, b) in cfgs
                        if dt == p[0] and dd == d and mm == m and sh == shape and o == order)
            menu = []
            for k in range(m):
                tgt = base[k]
                worse = list(tgt)
                worse[-1] += 1  # dominated by exactly base[k]
                better = list(tgt)
                better[-1] -= 1  # dominates exactly base[k]
                for pos in range(m + 1):
                    for probe in (worse, better):
                        rows = base[:pos] + [probe] + base[pos:]
                        menu.append(tuple(map(tuple, rows)))
                # two probes: one dominating, one dominated, at the two ends
                rows = [better] + base + [worse]
                menu.append(tuple(map(tuple, rows)))
                rows = [worse] + base + [better]
                menu.append(tuple(map(tuple, rows)))
            return menu
        return None

    return tree


def run(ctx):
    q = ctx.quick
    # JIT-load the numba kernels once in the parent so forked workers inherit them
    for dt in DT:
        run_one(dt, ("min", "max", "min"), [[0, 1, 2], [1, 2, 0], [2, 2, 2]])
        run_one(dt, ("min", "diff", "min_per_prime_factor"), [[0, 1, 2], [1, 1, 4], [2, 2, 2]])
    G3 = ["min", "max", "diff"]
    has_opt = lambda g: any(x != "diff" for x in g) or True

    # Phase A: core alphabet
    shapes = [(n, d) for n in (2, 3) for d in (1, 2, 3)]
    ctx.explore("core-V3", matrix_tree(["f32", "f64"], G3, shapes, [0, 1, 2]),
                body_factory("core"), shard_depth=4, distinct_by_construction=True)
    if q:
        ctx.explore("core-V3-n4", matrix_tree(["f32"], G3, [(4, 1), (4, 2)], [0, 1, 2]),
                    body_factory("core"), shard_depth=4, distinct_by_construction=True)
        ctx.explore("core-V2-n4d3", matrix_tree(["f32"], G3, [(4, 3)], [0, 1]),
                    body_factory("core"), shard_depth=4, distinct_by_construction=True)
    else:
        ctx.explore("core-V3-n4", matrix_tree(["f32"], G3, [(4, 1), (4, 2), (4, 3)], [0, 1, 2]),
                    body_factory("core"), shard_depth=4, distinct_by_construction=True)
        ctx.explore("core-V2-n4d4", matrix_tree(["f32", "f64"], G3, [(4, 4)], [0, 1]),
                    body_factory("core"), shard_depth=4, distinct_by_construction=True)
        ctx.explore("core-V2-n5", matrix_tree(["f32"], G3, [(5, 2), (5, 3)], [0, 1]),
                    body_factory("core"), shard_depth=4, distinct_by_construction=True)

    # wider rows (other strides of the column views the filter negates / copies): d = 4, 5 with all
    # goal vectors, d = 8 with at most one "max" column
    ctx.explore("core-V2-d4d5", matrix_tree(["f32", "f64"], G3, [(2, 4), (3, 4), (2, 5)], [0, 1]),
                body_factory("core"), shard_depth=4, distinct_by_construction=True)
    ctx.explore("core-V2-n2d8", matrix_tree(["f32", "f64"], ["min", "max"], [(2, 8)], [0, 1],
                                            lambda g: sum(x == "max" for x in g) <= 1),
                body_factory("core"), shard_depth=4, distinct_by_construction=True)

    # Phase B: infinities and the implementation's sentinel magnitudes
    V5 = [0, 1, INF, 1e30, 2e30]
    shp = [(2, 1), (2, 2), (3, 1), (3, 2), (2, 3)]
    ctx.explore("ext-V5-f32", matrix_tree(["f32"], G3, shp, V5), body_factory("ext"),
                shard_depth=4, distinct_by_construction=True)
    ctx.explore("ext-V6-f64", matrix_tree(["f64"], G3, shp, V5 + [1.5e308]), body_factory("ext"),
                shard_depth=4, distinct_by_construction=True)
    # three varying columns with infinities: ties (inf == inf, inf - inf) in the SFS sums
    ctx.explore("ext-inf-n3d3", matrix_tree(["f32"], ["min", "max"], [(3, 3)], [0, 1, INF]),
                body_factory("ext"), shard_depth=4, distinct_by_construction=True)
    if not q:
        ctx.explore("ext-V4-n3d3", matrix_tree(["f32", "f64"], G3, [(3, 3)], [0, 1, INF, 1e30]),
                    body_factory("ext"), shard_depth=4, distinct_by_construction=True)

    # Phase C: magnitude mixing (ties in the SFS column sums)
    VM = [0, 1, 16777216, 1e20]
    mm_goals = lambda g: "diff" not in g
    ctx.explore("mix-n2d3", matrix_tree(["f32", "f64"], ["min", "max"], [(2, 3)], VM),
                body_factory("mix"), shard_depth=4, distinct_by_construction=True)
    ctx.explore("mix-n3d3", matrix_tree(["f32"] if q else ["f32", "f64"], ["min"] if q else ["min", "max"],
                                        [(3, 3)], VM if not q else [0, 1, 16777216]),
                body_factory("mix"), shard_depth=4, distinct_by_construction=True)

    # Phase D: prime-factor goals on integer columns
    PF = ["min_per_prime_factor", "max_per_prime_factor", "min", "diff"]
    pf_filter = lambda g: any("prime" in x for x in g)
    VP = [1, 2, 3, 4, 6, 12] if not q else [1, 2, 4, 6, 12]
    ctx.explore("prime", matrix_tree(["f32"], PF, [(2, 1), (3, 1), (2, 2), (3, 2)], VP, pf_filter),
                body_factory("prime"), shard_depth=4, distinct_by_construction=True)

    # Phase E: block boundaries of the block-nested-loop core
    ms = [15, 16, 17, 33] if q else [15, 16, 17, 31, 32, 33, 48, 49]
    ctx.explore("block", block_tree(ms, [3] if q else [3, 4], ["f32"] if q else ["f32", "f64"]),
                body_factory("block"), shard_depth=3, distinct_by_construction=True)
    ctx.bound(core="n<=3 x d<=3 over {0,1,2}, both dtypes; n<=3,d=4 / n=2,d=5 / n=2,d=8 (<=1 max goal) over {0,1}; n=4" + (" d<=2 / d=3 over {0,1}" if q else " d<=3; n=4,d=4 and n=5,d<=3 over {0,1}"),
              ext="n<=3,d<=2 and n=2,d=3 over {0,1,inf,1e30,2e30}(+1.5e308 f64)" + ("" if q else "; n=3,d=3 over {0,1,inf,1e30}"),
              mix="d=3, n<=3 over {0,1,2^24,1e20}", prime="n<=3,d<=2 over " + str(VP), block_rows=ms)


def replay(ctx, rec):
    cfg = rec["config"]
    vals, exp, got = run_one(cfg["dtype"], tuple(cfg["goals"]), _unj(cfg["rows"]))
    return {"observed": got, "expected": exp, "violation": got != exp}
