"""C27 — recomputing component costs on a costed spec changes nothing.

Alphabet: architectures H2 = Main > Buffer > MAC and H3T = Main > Toll > Container(x2) >
Buffer > MAC whose components all carry the same parameter assignment: per-instance
area / action energy / leak power / action throughput from {1,3} and every scale field
(component ``area_scale``, ``energy_scale``, ``leak_power_scale``, ``throughput_scale``,
``n_parallel_instances``; action ``energy_scale``, ``throughput_scale``) from {1, 2, 0.5};
first call on the raw Spec or on the result of ``_spec_eval_expressions``.
Histories: a full ``calculate_component_costs()`` (the spec is now "already costed")
followed by 1-3 further calls, each with a flag set from {all, area, energy, throughput,
leak, area+leak, energy+throughput}.
Oracle: after every further call, every component's ``area``, ``leak_power``,
``total_area``, ``total_leak_power`` and every action's ``energy`` and ``throughput`` equal
the values before that call (the reference model of an idempotent operation is the
identity; nothing is taken from the implementation).

FINDING on the unchanged tree (genuine): family ``scales-reapplied-on-recompute`` — the
first call stores the *scaled* value in ``area`` / ``leak_power`` / ``action.energy`` /
``action.throughput`` but leaves the scale fields in place, so every further call that
requests the quantity multiplies it again by (area_scale * n_parallel_instances),
(leak_power_scale * n_parallel_instances), (energy_scale * action.energy_scale),
(throughput_scale * action.throughput_scale * n_parallel_instances) respectively.
Minimal: Memory(area=1, area_scale=2): area 2 after the first call, 4 after the second.
Any change that is not exactly such a re-application gets family ``unexplained-change``.

Regression guard (beyond the literal statement, silent on the unchanged tree): after the
history the *input* spec object is costed once more and must reproduce the first result
(family ``fresh-call-on-same-input-differs``) -- a fix that remembers "already scaled" in
state shared between the input spec and its result would otherwise go unnoticed.

PROPOSED PATCH (applied to the scratch copy: check silent on all 3393 quick configurations,
repo tests test_api_gaps/test_component_fields/test_arch_flattening/test_spec: 200 passed)
  components.py  Component: `_costs_calculated: set = PrivateAttr(default_factory=set)`
  spec.py:251-283  `done = set(orig._costs_calculated)`; each block becomes
                   `if area and "area" not in done: ...; done.add("area")` (same for energy,
                   throughput, leak); finally `orig._costs_calculated = done` (a *new* set: the
                   private attribute is shared with the un-costed input spec by model_copy).

SELFTEST (scratch copy /tmp/af-mut-c27 = accelforge/ + the proposed patch so that the baseline is
silent, /tmp/af-mut-c27b = unchanged; VERIF_REPO, quick tier; copies deleted afterwards)
  M0 the unchanged tree itself                                            caught  scales-reapplied-on-recompute (3217 of 3393)
  M1 patch without the guard for area (`if area:`)                        caught  scales-reapplied-on-recompute (2184)
  M2 patch mutating the shared set (`done = orig._costs_calculated`)      caught  fresh-call-on-same-input-differs (3189)
  M3 patch without the guard for throughput                               caught  scales-reapplied-on-recompute (2378)
  M4 unchanged tree + throughput recomputed under the *energy* flag       caught  unexplained-change (282) besides the known family
  M5 totals written without fanout on every call (`total_area = area`)    equivalent for C27 (wrong from the first call on, stable
                                                                          afterwards; C26 reports it)
  M6 always re-evaluate (`if True: self = self._spec_eval_expressions`)   equivalent (values and marker survive re-evaluation)
"""

from __future__ import annotations

import itertools
import math

from mc.explorer import Result
from mc.checks.c25 import build_arch

MANIFEST = {
    "text": "every combination of the seven scale fields over {1,2,0.5} (2187 assignments) on two small "
            "architectures, with raw and pre-evaluated specs and every flag history of up to three further calls, is "
            "pushed through the real Spec.calculate_component_costs repeatedly and each call's result is compared with "
            "the state before the call; right level because the defect class (state carried between calls) is "
            "history dependent and the history space is tiny",
    "note": "trusted: nothing beyond Python equality; components modelled through hwcomponents (no explicit "
            "area/energy) are only covered by the zero-cost 'Dummy' class; values/scales outside {1,3}x{1,2,0.5} not "
            "covered",
    "technique": "bounded exhaustive history enumeration (explicit-state) vs reference model",
}

RULE = (
    "(architecture) x (raw | pre-evaluated) x (base values) x (assignment of the 7 scale fields) x (history of "
    "flag sets, length 1-3, after the initial full call); distinct = distinct tuple; non-trivial = some scale "
    "field differs from 1 and the history requests at least one quantity whose scale product differs from 1 "
    "(so a non-idempotent implementation would show a change)"
)
ASSUMPTIONS = [
    "a spec counts as 'already costed' after one full calculate_component_costs() call; every history starts there",
    "all components of the architecture carry the same parameter assignment",
    "exact float comparison is sound: all values are products of 1, 3, 2 and 0.5",
    "regression guard beyond the literal statement: costing the same input spec object again after the history "
    "must reproduce the first result (family fresh-call-on-same-input-differs); holds on the unchanged tree",
]

FIELDS = ["area_scale", "energy_scale", "leak_power_scale", "throughput_scale", "n_parallel_instances",
          "action.energy_scale", "action.throughput_scale"]
FLAGSETS = {
    "all": dict(area=True, energy=True, throughput=True, leak=True),
    "area": dict(area=True, energy=False, throughput=False, leak=False),
    "energy": dict(area=False, energy=True, throughput=False, leak=False),
    "throughput": dict(area=False, energy=False, throughput=True, leak=False),
    "leak": dict(area=False, energy=False, throughput=False, leak=True),
    "area+leak": dict(area=True, energy=False, throughput=False, leak=True),
    "energy+throughput": dict(area=False, energy=True, throughput=True, leak=False),
}
ARCHS = {
    "H2": [["M", "Main", 1], ["M", "Buffer", 1], ["C", "MAC", 1]],
    "H3T": [["M", "Main", 1], ["T", "Quant", 1], ["K", "PE", 2], ["M", "Buffer", 1], ["C", "MAC", 1]],
    "H2dummy": [["M", "Main", 1], ["M", "Buffer", 1], ["C", "MAC", 1]],
}
_FAM = {}


def params(arch, base, scales):
    a, e, l, t = base
    sc = dict(zip(FIELDS, scales))
    per = {"area": a, "leak_power": l,
           "action": {"energy": e, "throughput": t, "energy_scale": sc["action.energy_scale"],
                      "throughput_scale": sc["action.throughput_scale"]}}
    for f in FIELDS[:5]:
        per[f] = sc[f]
    if arch == "H2dummy":  # no explicit numbers: the zero-cost "Dummy" component class supplies them
        per = {k: v for k, v in per.items() if k not in ("area", "leak_power")}
        per["area"] = None
        per["leak_power"] = None
        per["component_class"] = "Dummy"
        per["action"] = {"energy_scale": sc["action.energy_scale"], "throughput_scale": sc["action.throughput_scale"]}
    return {n[1]: dict(per, action=dict(per["action"])) for n in ARCHS[arch] if n[0] != "K"}


def snapshot(spec):
    from accelforge.frontend.arch import Component

    out = {}
    for c in spec.arch.get_nodes_of_type(Component):
        out[c.name] = {"area": c.area, "leak": c.leak_power, "total_area": c.total_area,
                       "total_leak": c.total_leak_power,
                       "energy": {a.name: a.energy for a in c.actions},
                       "throughput": {a.name: a.throughput for a in c.actions}}
    return out


def multipliers(scales):
    sc = dict(zip(FIELDS, scales))
    return {"area": sc["area_scale"] * sc["n_parallel_instances"],
            "leak": sc["leak_power_scale"] * sc["n_parallel_instances"],
            "energy": sc["energy_scale"] * sc["action.energy_scale"],
            "throughput": sc["throughput_scale"] * sc["action.throughput_scale"] * sc["n_parallel_instances"]}


def diff(before, after):
    """[(component, quantity, action|None, old, new)]"""
    out = []
    for comp, b in before.items():
        a = after.get(comp)
        if a is None:
            out.append((comp, "component", None, "present", "missing"))
            continue
        for q in ("area", "leak", "total_area", "total_leak"):
            if not _same(b[q], a[q]):
                out.append((comp, q, None, b[q], a[q]))
        for q in ("energy", "throughput"):
            for act, old in b[q].items():
                new = a[q].get(act, "missing")
                if not _same(old, new):
                    out.append((comp, q, act, old, new))
    return out


def _same(x, y):
    if x is None or y is None or isinstance(x, str) or isinstance(y, str):
        return x == y
    return x == y or math.isclose(x, y, rel_tol=1e-12, abs_tol=0.0)


def run_history(arch, pre, base, scales, history):
    """-> (steps, n_calls); steps[i] = list of differences caused by call i of the history."""
    from accelforge.frontend.spec import Spec

    spec = Spec(arch=build_arch(ARCHS[arch], params(arch, base, scales)))
    n = 0
    if pre:
        spec = spec._spec_eval_expressions()
    s = spec.calculate_component_costs()
    first = snapshot(s)
    n += 1
    steps = []
    for flags in history:
        before = snapshot(s)
        s2 = s.calculate_component_costs(**FLAGSETS[flags])
        n += 1
        steps.append(diff(before, snapshot(s2)))
        s = s2
    # regression guard (beyond the literal statement): the *input* spec object must not have been
    # turned into a half-costed one by the calls above -- costing it again gives the first result
    fresh = diff(first, snapshot(spec.calculate_component_costs()))
    n += 1
    return steps, fresh, n


def explain(d, flags, mult):
    comp, q, act, old, new = d
    base_q = q.replace("total_", "")
    fl = FLAGSETS[flags]
    requested = {"area": fl["area"], "leak": fl["leak"], "energy": fl["energy"], "throughput": fl["throughput"]}
    if base_q not in mult or not requested.get(base_q):
        return False
    try:
        return _same(old * mult[base_q], new) and mult[base_q] != 1
    except TypeError:
        return False


def check(arch, pre, base, scales, history):
    try:
        steps, fresh, n = run_history(arch, pre, base, scales, history)
    except Exception as e:
        return ({"family": "raises", "observed": f"{type(e).__name__}:{str(e)[:300]}", "expected": "no exception",
                 "note": "calculate_component_costs raised"}, f"raise:{type(e).__name__}", 1, set())
    mult = multipliers(scales)
    changed, unexplained = set(), []
    first = None
    for i, (flags, ds) in enumerate(zip(history, steps)):
        for d in ds:
            if first is None:
                first = (i, d)
            if explain(d, flags, mult):
                changed.add(d[1].replace("total_", ""))
            else:
                unexplained.append((i, flags) + tuple(d))
    obs = [[list(map(_j, d)) for d in ds] for ds in steps] + [{"fresh": [list(map(_j, d)) for d in fresh]}]
    if first is None and fresh:
        d = fresh[0]
        return ({"family": "fresh-call-on-same-input-differs",
                 "observed": {"component": d[0], "quantity": d[1], "action": d[2], "first_call": _j(d[3]),
                              "fresh_call": _j(d[4])},
                 "expected": "costing the same input spec again gives the first result",
                 "note": "the input spec object was changed by costing its result (regression guard)"},
                obs, n, changed)
    if first is None:
        return None, obs, n, changed
    i, d = first
    fam = "unexplained-change" if unexplained else "scales-reapplied-on-recompute"
    viol = {"family": fam,
            "observed": {"call": i + 2, "flags": history[i], "component": d[0], "quantity": d[1], "action": d[2],
                         "before": _j(d[3]), "after": _j(d[4])},
            "expected": "unchanged (same value as before the call)",
            "note": (f"quantities re-scaled in this history: {sorted(changed)}; multipliers {mult}"
                     + (f"; unexplained: {[list(map(_j, u)) for u in unexplained[:4]]}" if unexplained else ""))}
    return viol, obs, n, changed


def _j(x):
    return x if isinstance(x, (int, float, str, type(None))) else repr(x)


def nontrivial(scales, history):
    mult = multipliers(scales)
    for flags in history:
        fl = FLAGSETS[flags]
        for q in ("area", "leak", "energy", "throughput"):
            if fl[q] and mult[q] != 1:
                return True
    return False


def body(cfg):
    fam, arch, pre, base, scales = cfg[:5]
    history = list(cfg[5:-1])  # last element is the end marker
    viol, obs, n, changed = check(arch, pre, base, scales, history)
    sample = {"arch": arch, "pre_evaluated": pre, "base": list(base), "scales": dict(zip(FIELDS, scales)),
              "history": history}
    if viol is not None:
        viol = dict(viol)
        viol["config"] = sample
    cls = "idempotent" if viol is None else (viol["family"] + ":" + ",".join(sorted(changed)))
    return Result(outcome=obs, nontrivial=nontrivial(scales, history), validated=True, violation=viol, sample=sample,
                  evaluations=n, outcome_class=cls)


def tree_fn(p):
    """levels: family, arch, pre-evaluated, base values, scale assignment, history..., end marker."""
    if len(p) == 0:
        return list(_FAM)
    f = _FAM[p[0]]
    if len(p) == 1:
        return f["archs"]
    if len(p) == 2:
        return f["pre"]
    if len(p) == 3:
        return f["bases"]
    if len(p) == 4:
        return f["scales"]
    if p[-1] == "$":
        return None
    h = len(p) - 5
    menu = []
    if h < f["max_len"]:
        menu.extend(f["flagsets"])
    if h >= f["min_len"]:
        menu.append("$")
    return menu


# ---------------------------------------------------------------- histories without an initial full call

def check_partial(arch, base, scales, history):
    """History of flag sets applied to the RAW spec (no initial full call).  A call may change a
    quantity only if no earlier call of the history requested it (it is then computed for the
    first time); anything requested before must stay as it is."""
    from accelforge.frontend.spec import Spec

    spec = Spec(arch=build_arch(ARCHS[arch], params(arch, base, scales)))
    s = spec
    requested = set()
    n = 0
    obs = []
    for i, flags in enumerate(history):
        before = snapshot(s) if i else None
        s2 = s.calculate_component_costs(**FLAGSETS[flags])
        n += 1
        if before is not None:
            ds = diff(before, snapshot(s2))
            obs.append([list(map(_j, d)) for d in ds])
            for d in ds:
                q = d[1].replace("total_", "")
                if q in requested:
                    return ({"family": "recomputed-after-partial-history",
                             "observed": {"call": i + 1, "flags": flags, "component": d[0], "quantity": d[1],
                                          "action": d[2], "before": _j(d[3]), "after": _j(d[4])},
                             "expected": "unchanged: the quantity was already calculated by an earlier call",
                             "note": f"history {history}, requested before this call: {sorted(requested)}"}, obs, n)
        requested |= {q for q, on in FLAGSETS[flags].items() if on}
        s = s2
    return None, obs, n


def body_partial(cfg):
    arch, base, scales = cfg[:3]
    history = list(cfg[3:-1])
    try:
        viol, obs, n = check_partial(arch, base, scales, history)
    except Exception as e:
        viol, obs, n = ({"family": "raises", "observed": f"{type(e).__name__}:{str(e)[:300]}",
                         "expected": "no exception"}, f"raise:{type(e).__name__}", 1)
    sample = {"partial": True, "arch": arch, "base": list(base), "scales": dict(zip(FIELDS, scales)), "history": history}
    if viol is not None:
        viol = dict(viol)
        viol["config"] = sample
    return Result(outcome=obs, nontrivial=len(history) >= 2 and nontrivial(scales, history[1:]), validated=True,
                  violation=viol, sample=sample, evaluations=n)


def tree_partial(quick):
    archs = ["H2"] if quick else ["H2", "H3T"]
    scales = [tuple([2] * 7)] if quick else [tuple([2] * 7), (2, 0.5, 2, 0.5, 2, 2, 0.5)]
    flags = list(FLAGSETS)

    def tree(p):
        if len(p) == 0:
            return archs
        if len(p) == 1:
            return [(1, 3, 1, 3)]
        if len(p) == 2:
            return scales
        if p[-1] == "$":
            return None
        h = len(p) - 3
        return (flags if h < 3 else []) + (["$"] if h >= 1 else [])
    return tree


def one_at_a_time():
    out = [tuple([1] * 7), tuple([2] * 7), tuple([0.5] * 7)]
    for i in range(7):
        for v in (2, 0.5):
            s = [1] * 7
            s[i] = v
            out.append(tuple(s))
    return out


def run(ctx):
    q = ctx.quick
    check("H2", False, (1, 3, 1, 3), (2, 1, 1, 1, 1, 1, 1), ["all"])  # warm-up / import
    _FAM.clear()
    grid = list(itertools.product((1, 2, 0.5), repeat=7))
    allb = list(itertools.product((1, 3), repeat=4))
    flags = list(FLAGSETS)
    # every scale assignment, the full-recompute history all/all/all (its prefixes are the lengths 1 and 2)
    _FAM["grid"] = dict(archs=["H2"] if q else ["H2", "H3T"], pre=[False] if q else [False, True],
                        bases=[(1, 3, 1, 3)] if q else allb, scales=grid, flagsets=["all"], min_len=3, max_len=3)
    # every architecture / entry point / base value with the one-field-at-a-time assignments
    _FAM["one-field"] = dict(archs=["H2", "H3T", "H2dummy"], pre=[False, True],
                          bases=[(1, 1, 1, 1), (3, 3, 3, 3), (1, 3, 1, 3), (3, 1, 3, 1)] if q else allb,
                          scales=one_at_a_time(), flagsets=["all"], min_len=2, max_len=2)
    # every flag history of length 1..3 (1..2 in quick on H3T)
    _FAM["histories"] = dict(archs=["H2"], pre=[False], bases=[(1, 3, 1, 3)],
                             scales=[tuple([2] * 7), (2, 0.5, 2, 0.5, 2, 2, 0.5)] if q else
                             [tuple([2] * 7), tuple([0.5] * 7), (2, 0.5, 2, 0.5, 2, 2, 0.5), (1, 2, 1, 2, 0.5, 1, 1)],
                             flagsets=flags, min_len=1, max_len=3)
    ctx.explore("recompute", tree_fn, body, shard_depth=5, distinct_by_construction=True)
    # every history of length 1..3 over the 7 flag sets applied to the raw spec (no initial full call)
    ctx.explore("partial-histories", tree_partial(q), body_partial, shard_depth=4, distinct_by_construction=True)
    ctx.bound(scale_values=[1, 2, 0.5], base_values=[1, 3], fields=FIELDS, flagsets=flags,
              **{k: {"archs": f["archs"], "pre_evaluated": f["pre"], "n_bases": len(f["bases"]),
                     "n_scale_assignments": len(f["scales"]), "history_len": [f["min_len"], f["max_len"]],
                     "flagsets": f["flagsets"]} for k, f in _FAM.items()})
    ctx.note("history = further calls after the initial full calculate_component_costs(); call numbers in "
             "violations count the initial call as 1")


def replay(ctx, rec):
    c = rec["config"]
    scales = tuple(c["scales"][f] for f in FIELDS)
    if c.get("partial"):
        viol, obs, n = check_partial(c["arch"], tuple(c["base"]), scales, list(c["history"]))
        return {"observed": (viol or {}).get("observed", obs), "family": (viol or {}).get("family"),
                "violation": viol is not None}
    viol, obs, n, changed = check(c["arch"], c["pre_evaluated"], tuple(c["base"]), scales, list(c["history"]))
    return {"observed": (viol or {}).get("observed", obs), "expected": (viol or {}).get("expected", "unchanged"),
            "family": (viol or {}).get("family"), "violation": viol is not None}
