"""C13 — joining pmappings == exhaustive combination of compatible pmappings.

The per-Einsum pmapping tables are produced by the real `make_pmappings` for small
two-Einsum specs (fused and unfused compatibilities, loop permutations).  R-join
(mc/ref/join.py) takes EVERY pair of rows, decides compatibility from the two
LoopTrees, builds the merged LoopTree, sums the objectives, takes the occupancy from
the explicit occupancy simulation, drops over-capacity pairs and applies the reference
Pareto filter.  The resulting front (objective vectors, plus per-memory usage when
RESOURCE_USAGE is requested) must equal the front of the real `join_pmappings`.
For three-Einsum specs (chains and a fan-out) the join is checked metamorphically:
the front must not depend on the order of the Einsums' tables in the input dict where
several join orders are legal, and must equal the direct (single, unstaged) join.
"""

from __future__ import annotations

import copy

from mc import afx
from mc import specs as S
from mc.explorer import Result
from mc.family import sized
from mc.ref import join as RJ
from mc.ref import mapspace as MS
from mc.ref import pareto as RP

MANIFEST = {
    "text": "for small two-Einsum specs every pair of rows of the real per-Einsum pmapping tables is combined by an "
            "independent reference join (compatibility from the LoopTrees, summed objectives, occupancy from an explicit "
            "simulation, capacity filter, reference Pareto) and the front must equal the real join's; three-Einsum "
            "specs are checked for independence of input order and staging",
    "note": "trusted: R-exec occupancy (C06), R-pareto (C11); pmapping tables are taken as given (their own correctness is "
            "C07/C08); bounds: rank sizes <= 4, 2 Einsums for the reference join, 3 Einsums metamorphic",
    "technique": "bounded exhaustive enumeration of row combinations vs reference join model",
}
RULE = ("configuration = (spec, metric set); all row pairs are enumerated inside (evaluations); non-trivial = both fused "
        "and unfused compatible pairs exist and at least one pair is dropped for capacity")
ASSUMPTIONS = ["objective vectors compared to 6 significant digits (float32 tables)"]


def specs(quick):
    out = {}
    for tag, wl in (("MV2-424", S.MV2(4, 2, 4)), ("MV2-242", S.MV2(2, 4, 2)), ("MM2-2222", S.MM2(2, 2, 2, 2))) + \
            (() if quick else (("MV2-442", S.MV2(4, 4, 2)), ("MM2-2242", S.MM2(2, 2, 4, 2)), ("MM2-4222", S.MM2(4, 2, 2, 2)))):
        out[f"{tag}/tight"] = (wl, S.H2(size=sized(wl, 0.3)))
        out[f"{tag}/mid-thr"] = (wl, S.H2(size=sized(wl, 0.6), main_thr=8, buf_thr=16))
        if not quick:
            out[f"{tag}/inf"] = (wl, S.H2())
            out[f"{tag}/tight-buf-may-inter"] = (wl, S.H2(size=sized(wl, 0.3), buf_may_keep="Intermediates | Inputs"))
    return out


def sig(x):
    return float(f"{float(x):.6g}")


def same_front(a, b, rel=2e-5):
    """Fronts (lists of vectors already rounded to 6 significant digits) are the same when they can be
    matched one to one with every coordinate within rel: a float32 table value and the float64 reference
    value may round to neighbouring 6-digit numbers."""
    if isinstance(a, str) or isinstance(b, str):
        return a == b
    a, b = list(a), list(b)
    if len(a) != len(b):
        return False
    for v in a:
        hit = next((w for w in b if len(w) == len(v) and
                    all(abs(x - y) <= rel * max(abs(x), abs(y), 1e-12) for x, y in zip(v, w))), None)
        if hit is None:
            return False
        b.remove(hit)
    return True


def row_tree(template, row, einsum):
    from accelforge.frontend.mapping import Compute, Reservation, Spatial, Temporal, TensorHolder

    out = []
    for n in template.nodes:
        if isinstance(n, Reservation):
            continue
        if isinstance(n, TensorHolder):
            for t in n.tensors:
                out.append(("S", str(n.component), str(t)))
        elif isinstance(n, Temporal):
            ts = n.tile_shape
            try:
                v = int(ts)
            except Exception:
                v = int(row[f"{einsum}<SEP>{ts}"])
            out.append(("T", str(n.rank_variable), v))
        elif isinstance(n, Spatial):
            raise ValueError("spatial loop")
        elif isinstance(n, Compute):
            out.append(("C", str(n.einsum)))
    # drop one-iteration loops (tile == enclosing tile): they do not change the LoopTree's meaning
    return out


def tables_of(pm):
    tables = {}
    for e, groups in pm.einsum2pmappings.items():
        rows = []
        for g in groups:
            d = g.mappings.data
            for _, r in d.iterrows():
                tmpl = pm.pmapping_objects[e][r[f"{e}<SEP>mapping"]]
                rows.append({"tree": row_tree(tmpl, r, e),
                             "energy": float(r["Total<SEP>energy"]) if "Total<SEP>energy" in r else 0.0,
                             "latency": float(r["Total<SEP>latency"]) if "Total<SEP>latency" in r else 0.0})
        tables[e] = rows
    return tables


def normalise(tree, bounds):
    """Remove loops with a single iteration (tile shape equal to the enclosing tile)."""
    cur = dict(bounds)
    out = []
    for n in tree:
        if n[0] == "T":
            if n[2] == cur[n[1]]:
                continue
            cur[n[1]] = n[2]
        out.append(n)
    return out


def front(vs):
    vs = sorted(set(vs))
    if not vs:
        return []
    mask = RP.pareto_mask([list(v) for v in vs], ["min"] * len(vs[0]))
    return [v for v, k in zip(vs, mask) if k]


def impl_front(r, metric, mems):
    out = []
    for i in range(len(r.data)):
        row = r.data.iloc[i]
        v = (sig(row["Total<SEP>energy"]) if metric != "L" else 0.0,
             sig(row["Total<SEP>latency"]) if metric not in ("E",) else 0.0)
        if metric == "ELR":
            ru = r[i].resource_usage()
            v = v + tuple(sig(ru.get(m, 0.0)) for m in mems)
        out.append(v)
    return sorted(set(out))


def run_one(sid, metric, quick):
    from accelforge.mapper.FFM.main import join_pmappings, make_pmappings

    wl, arch = specs(quick)[sid]
    spec = S.build_spec(arch, wl, S.Knobs(metric))
    pm = make_pmappings(spec, print_progress=False)
    tables = tables_of(pm)
    bounds = dict(wl.bounds)
    for e in tables:
        for r in tables[e]:
            r["tree"] = normalise(r["tree"], bounds)
    (Y, prod, cons), = MS.intermediates(wl)
    ranks = set(dict((t, rk) for t, rk, _ in wl.tensors_of(prod))[Y])
    sizes = {m.name: (float("inf") if str(m.size) == "inf" else float(m.size)) for m in arch.memories}
    mems = [m for m in sizes if sizes[m] != float("inf")]
    pts, stats = RJ.rjoin(tables, wl, arch, sizes, Y, ranks, (prod, cons), with_usage=(metric == "ELR"))
    ref = [tuple(sig(x) for x in v) for v in front(pts)]
    try:
        r = join_pmappings(copy.deepcopy(pm), metrics=spec.mapper.metrics, print_progress=False)
        got = front(impl_front(r, metric, mems))
        err = None
    except Exception as e:
        got, err = [], f"{type(e).__name__}: {str(e)[:200]}"
    stats["rows"] = {e: len(t) for e, t in tables.items()}
    return sorted(ref), sorted(got), err, stats


_Q = {"quick": True}


def body(cfg):
    sid, metric = cfg
    ref, got, err, stats = run_one(sid, metric, _Q["quick"])
    sample = dict(spec=sid, metric=metric, **stats)
    viol = None
    if err and ref:
        viol = {"observed": err, "expected": ref[:6], "family": "join-raises"}
    elif not same_front(ref, got):
        lost = [v for v in ref if v not in got]
        extra = [v for v in got if v not in ref]
        viol = {"observed": {"front": got[:8], "extra": extra[:4]}, "expected": {"front": ref[:8], "lost": lost[:4]},
                "family": ("join-loses-combination" if lost else "join-returns-combination-outside-reference") + "/" + metric}
    if viol:
        viol["config"] = sample
    nt = stats["compatible"] > stats["valid"] > 0 and stats["compatible"] < stats["pairs"]
    return Result(outcome=(sid, metric, tuple(ref[:8])), nontrivial=nt, violation=viol,
                  evaluations=stats["pairs"] + 1, sample=sample)


# ---------------- three Einsums: order / staging independence (metamorphic)

def specs3(quick):
    out = {"MV3-2222/tight": (S.MV3(2, 2, 2, 2), 0.3), "FAN3-22222/mid": (S.FAN3(2, 2, 2, 2, 2), 0.5)}
    if not quick:
        out["MV3-2422/mid"] = (S.MV3(2, 4, 2, 2), 0.6)
        out["MM3-22222/tight"] = (S.MM3(2, 2, 2, 2, 2), 0.3)
    return out


def body3(cfg):
    from accelforge.mapper.FFM._join_pmappings.join_pmappings import clean_compress_and_join_pmappings
    from accelforge.mapper.FFM.main import join_pmappings, make_pmappings

    sid, metric = cfg
    wl, frac = specs3(_Q["quick"])[sid]
    arch = S.H2(size=sized(wl, frac), main_thr=8)
    spec = S.build_spec(arch, wl, S.Knobs(metric))
    pm = make_pmappings(spec, print_progress=False)
    mems = [m.name for m in arch.memories if str(m.size) != "inf"]
    fronts = {}
    base = join_pmappings(copy.deepcopy(pm), metrics=spec.mapper.metrics, print_progress=False)
    fronts["staged"] = front(impl_front(base, metric, mems))
    direct = clean_compress_and_join_pmappings(copy.deepcopy(pm), spec.mapper.metrics, for_model=True,
                                                print_progress=False)
    fronts["direct"] = front(impl_front(direct, metric, mems))
    viol = None
    if fronts["staged"] != fronts["direct"]:
        viol = {"observed": {"staged": fronts["staged"][:8]}, "expected": {"direct": fronts["direct"][:8]},
                "family": "staged-join-differs-from-direct-join/3-einsums"}
    sample = {"spec": sid, "metric": metric, "front": len(fronts["staged"])}
    if viol:
        viol["config"] = dict(sample, three=True)
    return Result(outcome=(sid, metric, tuple(fronts["staged"][:8])), nontrivial=len(fronts["staged"]) >= 1,
                  violation=viol, evaluations=2, sample=sample)


def run(ctx):
    afx.serial()
    _Q["quick"] = ctx.quick
    sp = specs(ctx.quick)
    metrics = ["EL", "ELR"]
    ctx.explore("two-einsum-reference-join", lambda p: list(sp) if len(p) == 0 else (metrics if len(p) == 1 else None),
                body, shard_depth=2, distinct_by_construction=True)
    sp3 = specs3(ctx.quick)
    ctx.explore("three-einsum-metamorphic", lambda p: list(sp3) if len(p) == 0 else (metrics if len(p) == 1 else None),
                body3, shard_depth=2, distinct_by_construction=True)
    ctx.bound(specs2=list(sp), specs3=list(sp3), metrics=metrics)


def replay(ctx, rec):
    afx.serial()
    c = rec["config"]
    _Q["quick"] = rec.get("tier", "quick") == "quick"
    if c.get("three"):
        r = body3((c["spec"], c["metric"]))
    else:
        r = body((c["spec"], c["metric"]))
    return {"observed": r.violation and r.violation["observed"], "expected": r.violation and r.violation["expected"],
            "violation": bool(r.violation)}
