"""The small-spec family shared by the end-to-end mapper checks (C01, C02, C16-C19)
and helpers to obtain reference points and mapper results (memoised within one run only)."""

from __future__ import annotations

import json
import os
import time

from mc import afx
from mc import refspace as RS
from mc import specs as S
from mc import treehash
from mc.explorer import Stats, pmap, jhash


def tensor_bits(wl: S.WL):
    bits = {}
    b = dict(wl.bounds)
    for e in wl.einsums:
        for t, rk, _ in wl.tensors_of(e[0]):
            n = 1
            for v in rk:
                n *= b[v]
            bits[t] = n * (wl.bits if isinstance(wl.bits, int) else 8)
    return bits


def sized(wl, frac):
    tot = sum(tensor_bits(wl).values())
    return max(8, int(tot * frac) // 8 * 8)


def make_family():
    """sid -> (workload, arch).  Sizes are fractions of the total tensor footprint."""
    fam = {}

    def add(name, wl, **h2):
        fam[name] = (wl, S.H2(**h2))

    for tag, dims in (("222", (2, 2, 2)), ("422", (4, 2, 2)), ("242", (2, 4, 2)), ("224", (2, 2, 4)),
                      ("622", (6, 2, 2)), ("262", (2, 6, 2)), ("442", (4, 4, 2)), ("323", (3, 2, 3)),
                      ("1222", (12, 2, 2))):
        wl = S.MM1(*dims)
        add(f"MM1-{tag}/inf", wl)
        add(f"MM1-{tag}/tight", wl, size=sized(wl, 0.4))
        add(f"MM1-{tag}/mid", wl, size=sized(wl, 0.75))
        add(f"MM1-{tag}/tight-e1-10", wl, size=sized(wl, 0.4), e_main=1, e_buf=10)
        add(f"MM1-{tag}/tight-thr", wl, size=sized(wl, 0.4), main_thr=8, buf_thr=16)
        add(f"MM1-{tag}/mid-leak", wl, size=sized(wl, 0.75), leak=0.25, main_thr=8)
    for tag, dims in (("42", (4, 2)), ("24", (2, 4)), ("62", (6, 2))):
        wl = S.MV1(*dims)
        add(f"MV1-{tag}/tight", wl, size=sized(wl, 0.4))
        add(f"MV1-{tag}/mid-thr", wl, size=sized(wl, 0.75), main_thr=8)
    for tag, dims in (("222", (2, 2, 2)), ("424", (4, 2, 4)), ("242", (2, 4, 2)), ("442", (4, 4, 2))):
        wl = S.MV2(*dims)
        add(f"MV2-{tag}/tight", wl, size=sized(wl, 0.3))
        add(f"MV2-{tag}/mid", wl, size=sized(wl, 0.6))
        add(f"MV2-{tag}/mid-thr", wl, size=sized(wl, 0.6), main_thr=8, buf_thr=16)
        add(f"MV2-{tag}/inf", wl)
    for tag, dims in (("2222", (2, 2, 2, 2)), ("2242", (2, 2, 4, 2))):
        wl = S.MM2(*dims)
        add(f"MM2-{tag}/tight", wl, size=sized(wl, 0.3))
        add(f"MM2-{tag}/mid", wl, size=sized(wl, 0.6))
    # perfect-square rank sizes whose optimum uses the square-root tile shape
    add("MM1-444/s96", S.MM1(4, 4, 4), size=96)
    add("MM1-933/s160", S.MM1(9, 3, 3), size=160)
    # a buffer that holds a single value: templates without free tile shapes overflow it
    add("MV2-222/s8", S.MV2(2, 2, 2), size=8)
    # shapes whose optimum tiles the intermediate along TWO rank variables (two fused loops)
    wl = S.MM2(4, 2, 4, 4)
    add("MM2-4244/t15-e100", wl, size=sized(wl, 0.15), e_main=100)
    wl = S.MM2(6, 2, 6, 2)
    add("MM2-6262/t25", wl, size=sized(wl, 0.25))
    add("MM2-6262/t15-e100", wl, size=sized(wl, 0.15), e_main=100)
    # three-level hierarchy
    for tag, dims in (("222", (2, 2, 2)), ("422", (4, 2, 2))):
        wl = S.MM1(*dims)
        fam[f"MM1-{tag}/H3"] = (wl, S.H3(size=sized(wl, 0.75), rsize=sized(wl, 0.25)))
    fam["MV1-42/H3"] = (S.MV1(4, 2), S.H3(size=sized(S.MV1(4, 2), 0.75), rsize=sized(S.MV1(4, 2), 0.3)))
    return fam


FAMILY = make_family()

QUICK_SIDS = [
    "MM1-222/tight", "MM1-422/tight", "MM1-422/tight-thr", "MM1-242/tight", "MM1-622/tight", "MV1-42/tight",
    "MV2-222/tight", "MV2-222/mid-thr", "MV2-222/s8", "MM2-4244/t15-e100",
]
# a middle tier used by checks that only need mapper runs
MEDIUM_SIDS = [
    "MM1-222/inf", "MM1-222/tight", "MM1-222/tight-e1-10", "MM1-422/tight", "MM1-422/mid", "MM1-422/tight-thr",
    "MM1-242/tight", "MM1-224/mid-leak", "MM1-622/tight", "MM1-262/mid", "MV1-42/tight", "MV1-62/mid-thr",
    "MV2-222/tight", "MV2-222/mid-thr", "MV2-424/mid", "MV2-242/tight",
]
THOROUGH_SIDS = [s for s in FAMILY]


def compute_refs(ctx, sids, orders="alpha"):
    """Compute (or take from this run's memo) the reference points of all sids; returns sid -> data.
    Work is sharded over (spec, chunk of trees)."""
    out, todo = {}, []
    for sid in sids:
        d = RS.load_cached(sid, orders)
        if d is not None:
            out[sid] = d
        else:
            wl, arch = FAMILY[sid]
            todo.append(RS.Work(sid, arch, wl, orders))
    st = Stats()
    t0 = time.time()
    if todo:
        items = [(wi, ci) for wi, w in enumerate(todo) for ci in range(w.n_chunks())]
        # deal big and small specs evenly
        k = ctx.seed % max(1, len(items))
        items = items[k:] + items[:k]

        def f(it):
            return it, RS.eval_chunk(todo[it[0]], it[1])

        res = dict(pmap(f, items, init=afx.serial))
        recs_of = {wi: [r for ci in range(w.n_chunks()) for r in res[(wi, ci)]] for wi, w in enumerate(todo)}
        # stage 2 (two-Einsum specs): exhaustive pair enumeration with composed points
        costs = {wi: RS.costs_of(recs_of[wi]) for wi, w in enumerate(todo) if w.two}
        pitems = [(wi, it) for wi, w in enumerate(todo) if w.two for it in w.pair_items]

        def g(x):
            wi, it = x
            return x, RS.pair_chunk(todo[wi], costs[wi], it)

        pres = dict(pmap(g, pitems)) if pitems else {}
        for wi, w in enumerate(todo):
            if w.two:
                d = RS.assemble_pairs(w, len(recs_of[wi]), [pres[(wi, it)] for it in w.pair_items], costs[wi])
                st.transitions += d["n_trees"] + len(w.pair_items)
            else:
                d = RS.assemble_single(w, recs_of[wi])
            RS.store(w.sid, orders, d)
            out[w.sid] = RS.load_cached(w.sid, orders)
            st.transitions += len(recs_of[wi]) + w.n_chunks() + 1
    # only what THIS call enumerated and evaluated is counted; a front already memoised
    # earlier in the same run (the memo directory never outlives a run) adds nothing
    for w in todo:
        d = out[w.sid]
        st.configs += d["n_trees"]
        st.evaluations += d.get("n_model_evaluations", d["n_trees"])
    st.n_states = st.configs  # trees are distinct by construction
    ctx.absorb("reference-mapspace" + ("" if todo else " (memoised earlier in this run)"), st, time.time() - t0)
    ctx.extra_cov.setdefault("reference_trees", {}).update(
        {sid: {"trees": out[sid]["n_trees"], "valid": out[sid]["n_valid"],
               "unfused_pairs_represented": out[sid]["n_unfused_pairs_represented"]} for sid in sids})
    return out


# --------------------------------------------------------------------- mapper side

def mapper_cache_path(sid, metric, knobs):
    key = jhash([sid, metric, list(map(list, knobs))])
    safe = sid.replace("/", "_")
    return treehash.cache_dir("mapper") / f"{safe}.{metric}.{key:x}.json"


def run_mapper(sid, metric, knobs=(), arch=None, wl=None, use_cache=True, eval_in_detail=True):
    """Run the real mapper (serial) -> dict(rows=[{energy, latency, edp, usage{}, tree}], error=None)."""
    if wl is None:
        wl, arch = FAMILY[sid]
    # the cache key covers the full spec text, not just its name
    spec_key = f"{jhash(S.spec_yaml(arch, wl)):x}"
    p = mapper_cache_path(sid + "#" + spec_key, metric + ("" if eval_in_detail else "-nodetail"), knobs)
    if use_cache and p.exists():
        return json.loads(p.read_text())
    from accelforge.mapper.FFM.main import map_workload_to_arch

    afx.serial()
    spec = S.build_spec(arch, wl, S.Knobs(metric, tuple(knobs)))
    mems = [m.name for m in arch.memories]
    res = {"sid": sid, "metric": metric, "knobs": [list(k) for k in knobs], "rows": [], "error": None}
    try:
        r = map_workload_to_arch(spec, print_progress=False, eval_in_detail=eval_in_detail)
        for i in range(len(r.data)):
            row = r.data.iloc[i]
            ru = r[i].resource_usage()
            nodes = None
            try:
                if callable(row.get("Total<SEP>mapping")):
                    nodes = afx.mapping_to_tree(row["Total<SEP>mapping"](_for_model=True))
                    tree = afx.tree_str(nodes)
                else:
                    tree = None
            except Exception as e:  # pragma: no cover
                tree = f"<{type(e).__name__}>"
            res["rows"].append({
                "nodes": nodes,
                # tables that were not evaluated in detail only carry the optimised metric(s)
                "energy": float(row["Total<SEP>energy"]) if (eval_in_detail or "Total<SEP>energy" in row) else None,
                "latency": float(row["Total<SEP>latency"]) if (eval_in_detail or "Total<SEP>latency" in row) else None,
                "edp": float(row["Total<SEP>energy_delay_product"]) if "Total<SEP>energy_delay_product" in row else None,
                "usage": {m: float(ru.get(m, 0.0)) for m in mems}, "tree": tree})
    except Exception as e:
        res["error"] = f"{type(e).__name__}: {str(e)[:300]}"
    if use_cache:
        tmp = p.with_suffix(f".tmp{os.getpid()}")
        tmp.write_text(json.dumps(res))
        os.replace(tmp, p)
    return res


def ref_min(data, metric):
    pts = data["points"]
    if not pts:
        return None
    if metric == "E":
        return min(p[0] for p in pts)
    if metric == "L":
        return min(p[1] for p in pts)
    if metric == "EDP":
        return min(p[0] * p[1] for p in pts)
    raise ValueError(metric)


def row_metric(row, metric):
    if metric == "E":
        return row["energy"]
    if metric == "L":
        return row["latency"]
    if metric == "EDP":
        return row["energy"] * row["latency"]
    raise ValueError(metric)
