"""Helpers for the tile-shape checks (C07, C08): template jobs, symbolic formulas,
exhaustive tile assignments, template -> concrete LoopTree."""

from __future__ import annotations

import copy
import itertools
import math

from mc import afx


def template_jobs(spec):
    """Fresh template jobs exactly as make_pmappings builds them (before tile shapes)."""
    import accelforge.mapper.FFM._make_pmappings.make_pmappings as pmapper

    afx.serial()
    s2 = copy.deepcopy(spec)._spec_eval_expressions(eval_arch=False, eval_non_arch=True)
    jobs = pmapper.get_jobs(s2, s2.mapper.metrics, s2.workload.einsum_names, True, False)
    pmapper._fill_jobs_with_memories_to_track(jobs, s2, s2.mapper.metrics, False, False)
    flat = []
    for e, cj in jobs.items():
        for comp, jl in cj.items():
            for j in jl:
                flat.append(j)
    return flat


def symbolic(job):
    """-> (job2, symbols, formulas) where formulas maps column -> sympy expression;
    job2.mapping carries the symbols in its loops."""
    import sympy
    from accelforge.mapper.FFM._make_pmappings.make_pmappings_from_templates import make_tile_shapes as MTS
    from accelforge.model.run_model import run_model

    j2 = copy.deepcopy(job)
    j2.constraints.set_loop_indices(j2.mapping.nodes)
    MTS.set_last_tile_shape_to_one(j2.mapping)
    symbols, sdf, pmu, udf, t2m, adf = run_model(j2)
    f = {}
    for d in (sdf, pmu, udf, adf):
        for k, v in d.items():
            f[k] = sympy.sympify(v)  # plain conversion, independent of _to_sp / compile_dict
    return j2, [sympy.Symbol(str(s), positive=True, integer=True) for s in symbols], f


def loops_of(job2):
    from accelforge.frontend.mapping import Loop

    return [n for n in job2.mapping.nodes if isinstance(n, Loop)]


def assignments(job2, bounds, strict=False):
    """Every perfectly factorising assignment of the tile-shape symbols: per rank
    variable the loops (outer to inner) get a chain t1 >= t2 >= ... each dividing the
    previous (t1 | bound); numeric tile shapes of the template are respected."""
    loops = loops_of(job2)
    per_var = {}
    for lp in loops:
        per_var.setdefault(str(lp.rank_variable), []).append(lp)
    var_opts = []
    for rv, lps in per_var.items():
        opts = []

        def rec(i, cur, acc):
            if i == len(lps):
                opts.append(tuple(acc))
                return
            ts = lps[i].tile_shape
            if _is_sym(ts):
                for d in range(cur, 0, -1):
                    if cur % d == 0 and not (strict and d == cur and cur != 1):
                        rec(i + 1, d, acc + [(str(ts), d)])
            else:
                d = int(ts)
                if cur % d == 0:
                    rec(i + 1, d, acc + [(None, d)])

        rec(0, int(bounds[rv]), [])
        var_opts.append(opts)
    for combo in itertools.product(*var_opts):
        a = {}
        for chain in combo:
            for name, d in chain:
                if name is not None:
                    a[name] = d
        yield a


def _is_sym(x):
    return not isinstance(x, (int, float)) and not str(x).replace(".", "").isdigit()


def concrete_tree(job2, assignment):
    """Template (with symbols) + assignment -> LoopTree in the harness notation."""
    from accelforge.frontend.mapping import Compute, Reservation, Spatial, Temporal, TensorHolder

    out = []
    for n in job2.mapping.nodes:
        if isinstance(n, Reservation):
            continue
        if isinstance(n, TensorHolder):
            for t in n.tensors:
                out.append(("S", str(n.component), str(t)))
        elif isinstance(n, Temporal):
            ts = n.tile_shape
            out.append(("T", str(n.rank_variable), assignment[str(ts)] if _is_sym(ts) else int(ts)))
        elif isinstance(n, Spatial):
            ts = n.tile_shape
            out.append(("P", str(n.rank_variable), assignment[str(ts)] if _is_sym(ts) else int(ts),
                        str(n.component), str(n.name)))
        elif isinstance(n, Compute):
            out.append(("C", str(n.einsum)))
        else:
            raise ValueError(type(n))
    return out


def evaluator(symbols, formulas):
    """Plain-python evaluation of the formulas at an integer assignment (floats)."""
    import sympy

    names = [str(s) for s in symbols]
    mods = [{"Max": max, "Min": min, "ceiling": math.ceil, "floor": math.floor,
             "Heaviside": lambda x, h=0.5: (0.0 if x < 0 else (h if x == 0 else 1.0))}, "math"]
    fs = {}
    for k, e in formulas.items():
        if not getattr(e, "free_symbols", None):
            fs[k] = float(e)
        else:
            fs[k] = sympy.lambdify([sympy.Symbol(n, positive=True, integer=True) for n in names], e, modules=mods)

    def ev(assignment):
        args = [assignment.get(n, 1) for n in names]
        return {k: (f if isinstance(f, float) else float(f(*args))) for k, f in fs.items()}

    return ev
