"""Controlled scheduler for ``accelforge.util.parallel`` (DESIGN.md section 3.5).

``accelforge.util.parallel.parallel()`` looks the global name ``Parallel`` up at
call time, so a harness can rebind that global (no source change) and decide in
which order the results of a ``Parallel(...)(jobs)`` call are delivered.  Used by
C32 (the runner itself) and C20 (whole mapper runs under permuted completion
orders).  Nothing in here knows anything about either check.

Vocabulary
----------
site
    one ``Parallel(n_jobs=..., return_as=...)(jobs)`` call made while a schedule is
    installed.  Top-level sites are numbered 0,1,2,... in call order (``seq``).  A
    site opened *while a job of another virtual site is executing* (a job that calls
    ``parallel()`` itself) is ``nested``: it gets no sequence number, has no menu and
    delivers in submission order, so the numbering of the top-level sites does not
    depend on the schedule chosen for an outer site.
menu / choice / deviation
    Only ``return_as="generator_unordered"`` sites with ``n_jobs != 1`` have menus
    (joblib's contract fixes the delivery order of every other site: submission
    order).  At each delivery point the menu is the ascending list of
    not-yet-delivered job indices and the *choice* is a position in that menu.  The
    default choice is 0 (lowest pending index => submission order).  A *deviation* is
    a non-zero choice.  A site of N jobs has N delivery points with menu sizes
    N, N-1, ..., 1; its N! complete choice sequences are exactly the N! completion
    orders.
choice sequence (canonical form)
    a tuple of ints with trailing zeros stripped: ``()`` is submission order,
    ``(1,)`` swaps the first two deliveries, ``(N-1,)`` delivers the last job first.
    A shorter sequence is a *prefix*: the remaining delivery points take the default.
    An out-of-range choice (or a sequence longer than the site has delivery points)
    is a hard ``ScheduleError``: the site is not the one the schedule was made for.
schedule
    ``Schedule(per_site={seq: spec}, default=spec)`` where a *spec* is a choice
    sequence, the name of a named order (``NAMED_ORDERS``), ``("order", perm)`` /
    ``{"order": perm}`` (explicit delivery order of job indices) or a callable
    ``spec(n, jobs) -> perm`` (e.g. longest-first by some job attribute).  While it
    is installed the schedule records one ``SiteRecord`` per site in ``.trace``
    (sequence number, n jobs, return_as, label = name of the job function, the menus
    seen, the choices taken, the delivery order) so that an explorer can enumerate the neighbouring schedules.

Execution model of ``VirtualParallel``
--------------------------------------
* every ``(func, args, kwargs)`` job is executed exactly once, in the harness
  process, in *delivery order* (``mode="shared"``: worst case for stale per-process
  state) or each in a fresh ``fork`` of the harness process (``mode="isolated"``: the
  "as many workers as jobs" extreme; jobs of nested sites stay inside their parent
  job's fork; note that numba/sympy-heavy jobs run ~100x slower in a fresh fork, a whole
  mapper run costs minutes of CPU in this mode);
* with ``pickle=True`` (default) the whole task crosses ``cloudpickle.dumps/loads``
  when the site is opened and its result crosses it again, as with loky: a job that
  mutates its argument does not leak to the caller, unpicklable things fail.
  ``pickle=False`` skips this (expensive mapper objects; big enumerations);
* ``n_jobs == 1`` (or ``None``) behaves like joblib's sequential backend: no pickling,
  no menu, submission order;
* exceptions raised by a job propagate to the consumer at the job's delivery point;
* ``eager=False`` (default) runs a job when its result is about to be delivered;
  ``eager=True`` runs all jobs of the site (in delivery order) when the site is
  opened and only then starts delivering (joblib starts dispatching at call time;
  both interleavings with the consumer are feasible in reality).
* every permutation is offered although K real workers can only produce completion
  orders with ``order[p] <= p + K - 1`` (job j cannot start before j-K+1 jobs have
  finished): the virtual scheduler over-approximates; ``min_workers_for(order)``
  tells how many real workers a given order needs.

Not thread-safe; one installed schedule per process at a time (nesting ``installed``
is allowed and restores the outer one on exit).

Public API (summary)
--------------------
choice sequences
    ``order_to_choices(order)``, ``choices_to_order(choices, n)``,
    ``canon_choices(choices)``, ``n_deviations(choices)``, ``min_workers_for(order)``
    ``named_order(name, n)``, ``NAMED_ORDERS``
enumeration
    ``deviation_menu(n, devs)``, ``devs_to_choices(devs)`` (a schedule as an
    increasing list of ``(position, choice)`` deviations: a ready-made choice tree),
    ``iter_site_schedules(n, max_deviations)``, ``count_site_schedules(n, k)``,
    ``site_schedules(n, max_deviations, full_upto, named)``,
    ``enumerate_schedules(n_jobs_at_sites, max_deviations, ...)`` -> ``Schedule``s
running
    ``Schedule``, ``SiteRecord``, ``VirtualParallel``, ``installed(schedule, n_jobs)``,
    ``current_schedule()``, ``parallel_module()``
real joblib/loky backend (conformance)
    ``RealParallel`` + ``real_backend(schedule, n_jobs, step)``: same recording, but the
    jobs go to the real ``joblib.Parallel`` wrapped so that job i sleeps until
    ``T0 + (rank_of_i_in_schedule + 1) * step`` (60 ms steps by default) => the real
    backend is forced into the same completion order; ``step=0`` = free running.
    ``forced_offsets(order, workers, step)``, ``warm_real_backend(n_jobs)``,
    ``shutdown_real_backend()``,
    ``conformance_run(fn, schedule, ...)`` runs ``fn`` under both and compares.
"""

from __future__ import annotations

import contextlib
import importlib
import itertools
import os
import time
from dataclasses import dataclass, field
from typing import Any, Callable, Iterable, Iterator

PARALLEL_MODULE = "accelforge.util.parallel"
RETURN_AS = ("list", "generator", "generator_unordered")
NAMED_ORDERS = ("reversal", "rot+1", "rot-1", "interleave")
DEFAULT_STEP = 0.06


class ScheduleError(RuntimeError):
    """A schedule does not fit the site it is replayed on (hard error)."""


# --------------------------------------------------------------------------
# choice sequences
# --------------------------------------------------------------------------

def canon_choices(choices: Iterable[int]) -> tuple:
    """Canonical form: tuple of ints, trailing zeros (= defaults) stripped."""
    c = [int(x) for x in choices]
    while c and c[-1] == 0:
        c.pop()
    return tuple(c)


def n_deviations(choices: Iterable[int]) -> int:
    return sum(1 for c in choices if c != 0)


def order_to_choices(order: Iterable[int]) -> tuple:
    """Delivery order (a permutation of range(n)) -> canonical choice sequence."""
    order = list(order)
    n = len(order)
    if sorted(order) != list(range(n)):
        raise ScheduleError(f"not a permutation of range({n}): {order}")
    pending = list(range(n))
    out = []
    for j in order:
        c = pending.index(j)
        out.append(c)
        pending.pop(c)
    return canon_choices(out)


def choices_to_order(choices: Iterable[int], n: int) -> list:
    """Replay a (prefix of a) choice sequence on a site of n jobs -> delivery order.

    Raises ScheduleError on an out-of-range choice or a sequence longer than n."""
    choices = list(choices)
    if len(choices) > n:
        raise ScheduleError(f"choice sequence of length {len(choices)} for a site of {n} jobs")
    pending = list(range(n))
    order = []
    for p in range(n):
        c = choices[p] if p < len(choices) else 0
        if not 0 <= c < len(pending):
            raise ScheduleError(
                f"choice {c} out of range at delivery point {p} (menu size {len(pending)}, n={n})")
        order.append(pending.pop(c))
    return order


def min_workers_for(order: Iterable[int]) -> int:
    """Smallest number K of FIFO workers for which this completion order is feasible
    (job j starts only after j-K+1 jobs have finished => order[p] <= p + K - 1)."""
    return max([j - p + 1 for p, j in enumerate(order)] + [1])


def named_order(name: str, n: int) -> list:
    """Delivery orders that do not depend on the jobs' contents."""
    ids = list(range(n))
    if name == "identity":
        return ids
    if name == "reversal":
        return ids[::-1]
    if name == "rot+1":  # 1,2,...,n-1,0   (the first job is the straggler)
        return ids[1:] + ids[:1]
    if name == "rot-1":  # n-1,0,1,...     (the last job overtakes everybody)
        return ids[-1:] + ids[:-1]
    if name == "interleave":  # 0,n-1,1,n-2,...
        out, lo, hi = [], 0, n - 1
        while lo <= hi:
            out.append(lo)
            if hi != lo:
                out.append(hi)
            lo, hi = lo + 1, hi - 1
        return out
    raise ScheduleError(f"unknown named order {name!r}")


# --------------------------------------------------------------------------
# enumeration of the schedules of one site
# --------------------------------------------------------------------------

def deviation_menu(n: int, devs: Iterable[tuple] = ()) -> list:
    """Choice-tree menu when a schedule is written as an increasing list of
    deviations ``(position, choice)``: every deviation that can be appended to
    ``devs`` on a site of n jobs.  Position p has menu size n-p, so choice is in
    1..n-p-1 and the last position (forced) never deviates."""
    devs = list(devs)
    start = devs[-1][0] + 1 if devs else 0
    return [(p, c) for p in range(start, max(n - 1, 0)) for c in range(1, n - p)]


def devs_to_choices(devs: Iterable[tuple]) -> tuple:
    out: list = []
    for p, c in devs:
        if p < len(out) or c == 0:
            raise ScheduleError(f"deviation list not increasing / zero choice: {list(devs)}")
        out.extend([0] * (p - len(out)))
        out.append(int(c))
    return tuple(out)


def choices_to_devs(choices: Iterable[int]) -> tuple:
    return tuple((p, c) for p, c in enumerate(choices) if c != 0)


def iter_site_schedules(n: int, max_deviations: int | None = None) -> Iterator[tuple]:
    """All canonical choice sequences of a site of n jobs with at most
    ``max_deviations`` deviations (None: all n! of them), default schedule first,
    depth first over ``deviation_menu``."""
    k = max(n - 1, 0) if max_deviations is None else max_deviations
    stack = [()]
    while stack:
        devs = stack.pop()
        yield devs_to_choices(devs)
        if len(devs) < k:
            for d in reversed(deviation_menu(n, devs)):
                stack.append(devs + (d,))


def count_site_schedules(n: int, max_deviations: int | None = None) -> int:
    """len(list(iter_site_schedules(n, k))) without enumerating: sum of the elementary
    symmetric polynomials e_0..e_k of (n-1, n-2, ..., 1)."""
    k = max(n - 1, 0) if max_deviations is None else max_deviations
    e = [1] + [0] * k
    for m in range(1, n):
        for d in range(k, 0, -1):
            e[d] += e[d - 1] * m
    return sum(e)


def site_schedules(n: int, max_deviations: int = 2, full_upto: int = 5,
                   named: Iterable[str] = NAMED_ORDERS) -> list:
    """The schedules explored for one site (canonical choice tuples, no duplicates):
    every permutation when n <= full_upto, else every <= max_deviations schedule
    plus the named orders that are not already among them."""
    if n <= full_upto:
        return list(iter_site_schedules(n, None))
    out = list(iter_site_schedules(n, max_deviations))
    seen = set()
    for name in named:
        ch = order_to_choices(named_order(name, n))
        if n_deviations(ch) > max_deviations and ch not in seen:
            seen.add(ch)
            out.append(ch)
    return out


# --------------------------------------------------------------------------
# schedule object + recording
# --------------------------------------------------------------------------

@dataclass
class SiteRecord:
    """What the scheduler saw at one Parallel(...)(jobs) call."""

    seq: int | None  # top-level sequence number; None for nested sites
    n: int  # number of jobs
    return_as: str
    n_jobs: Any
    has_menu: bool  # generator_unordered, parallel backend, top level
    nested: bool = False
    label: str | None = None  # name of the innermost job function of the first job (names the call site)
    backend: str = "virtual"  # or "real"
    menus: list = field(default_factory=list)  # tuple of pending indices per delivery point
    choices: list = field(default_factory=list)  # choice taken per delivery point
    order: list = field(default_factory=list)  # job indices in delivery order
    executed: list = field(default_factory=list)  # job indices in execution order (virtual)
    intended: list | None = None  # real backend: the completion order asked for
    completed: list | None = None  # real backend: completion order measured (timestamps)
    achieved: bool | None = None  # real backend: completed == intended
    done: bool = False  # all results delivered

    def key(self) -> tuple:
        """(sequence number, n jobs, return_as): identifies the site for an explorer."""
        return (self.seq, self.n, self.return_as)

    def to_json(self) -> dict:
        return {"seq": self.seq, "n": self.n, "return_as": self.return_as, "n_jobs": self.n_jobs, "label": self.label,
                "has_menu": self.has_menu, "nested": self.nested, "backend": self.backend,
                "choices": list(canon_choices(self.choices)), "order": list(self.order),
                "intended": self.intended, "completed": self.completed, "achieved": self.achieved,
                "done": self.done}


def _spec_to_json(spec):
    if spec is None or isinstance(spec, str):
        return spec
    if isinstance(spec, dict):
        return {"order": list(spec["order"])}
    if isinstance(spec, tuple) and len(spec) == 2 and spec[0] == "order":
        return {"order": list(spec[1])}
    if callable(spec):
        return {"callable": getattr(spec, "__name__", repr(spec))}
    return [int(c) for c in spec]


def _spec_from_json(spec):
    if spec is None or isinstance(spec, str):
        return spec
    if isinstance(spec, dict):
        if "order" not in spec:
            raise ScheduleError(f"cannot rebuild spec from {spec}")
        return ("order", tuple(spec["order"]))
    return tuple(spec)


class Schedule:
    """Delivery orders for the sites of one run + the record of what happened.

    per_site   {seq: spec} for top-level sites (seq counts every Parallel call, with
               or without a menu); a list/tuple of specs means seq = position
    default    spec for sites not named in per_site (None = submission order)
    pickle     cloudpickle boundary around every task and result (virtual backend)
    mode       "shared" | "isolated"   (see module docstring)
    eager      run all jobs of a site when it is opened
    strict     a spec given for a site without a menu / a site that never shows up
               is an error (checked by ``check_consumed``)
    record_menus  keep the per-delivery menus in the trace (switch off for very
               large enumerations)
    """

    def __init__(self, per_site=None, *, default=None, pickle: bool = True,
                 mode: str = "shared", eager: bool = False, strict: bool = True,
                 record_menus: bool = True):
        if per_site is None:
            per_site = {}
        elif not isinstance(per_site, dict):
            per_site = dict(enumerate(per_site))
        self.per_site = {int(k): v for k, v in per_site.items()}
        self.default = default
        if mode not in ("shared", "isolated"):
            raise ValueError(f"mode must be 'shared' or 'isolated', not {mode!r}")
        self.pickle = pickle
        self.mode = mode
        self.eager = eager
        self.strict = strict
        self.record_menus = record_menus
        self.reset()

    # -- recording ---------------------------------------------------------
    def reset(self):
        self.trace: list[SiteRecord] = []
        self._next_seq = 0
        self._depth = 0  # > 0 while a job of a virtual site is executing

    def sites(self, with_menu_only: bool = True) -> list:
        """[(seq, n, return_as)] of the top-level sites seen (those with a menu)."""
        return [r.key() for r in self.trace
                if not r.nested and (r.has_menu or not with_menu_only)]

    def orders(self) -> dict:
        """{seq: delivery order} of the top-level sites."""
        return {r.seq: list(r.order) for r in self.trace if not r.nested}

    def deviations(self) -> int:
        """Deviations actually taken in the recorded run."""
        return sum(n_deviations(r.choices) for r in self.trace)

    def check_consumed(self):
        """Every per_site spec was used by a site that has a menu, and every site
        delivered all its results."""
        seen = {r.seq: r for r in self.trace if not r.nested}
        for seq, spec in self.per_site.items():
            if seq not in seen:
                raise ScheduleError(f"schedule names site {seq} but only {len(seen)} sites were opened")
        for r in self.trace:
            if not r.done:
                raise ScheduleError(f"site {r.key()} delivered {len(r.order)} of {r.n} results")

    # -- resolution --------------------------------------------------------
    def spec_for(self, seq: int | None):
        if seq is None:
            return None
        return self.per_site.get(seq, self.default)

    def resolve(self, seq: int | None, n: int, jobs=None, has_menu: bool = True) -> tuple:
        """Choice-sequence prefix for site ``seq`` of n jobs (validated)."""
        explicit = seq is not None and seq in self.per_site
        spec = self.spec_for(seq)
        if spec is None:
            return ()
        if callable(spec):
            ch = order_to_choices(_check_perm(spec(n, jobs), n))
        elif isinstance(spec, str):
            ch = order_to_choices(named_order(spec, n))
        elif isinstance(spec, dict):
            ch = order_to_choices(_check_perm(spec["order"], n))
        elif isinstance(spec, tuple) and len(spec) == 2 and spec[0] == "order":
            ch = order_to_choices(_check_perm(spec[1], n))
        else:
            ch = tuple(int(c) for c in spec)
            choices_to_order(ch, n)  # validates range and length
        if not has_menu:
            if explicit and self.strict and n_deviations(ch):
                raise ScheduleError(f"site {seq} has no menu (ordered / sequential site) but the "
                                    f"schedule deviates there: {ch}")
            return ()
        return ch

    # -- (de)serialisation -------------------------------------------------
    def to_json(self) -> dict:
        return {"per_site": {str(k): _spec_to_json(v) for k, v in sorted(self.per_site.items())},
                "default": _spec_to_json(self.default), "pickle": self.pickle, "mode": self.mode,
                "eager": self.eager, "strict": self.strict}

    @classmethod
    def from_json(cls, d: dict) -> "Schedule":
        return cls({int(k): _spec_from_json(v) for k, v in (d.get("per_site") or {}).items()},
                   default=_spec_from_json(d.get("default")), pickle=d.get("pickle", True),
                   mode=d.get("mode", "shared"), eager=d.get("eager", False),
                   strict=d.get("strict", True))

    def clone(self, **changes) -> "Schedule":
        kw = dict(default=self.default, pickle=self.pickle, mode=self.mode, eager=self.eager,
                  strict=self.strict, record_menus=self.record_menus)
        kw.update(changes)
        return Schedule(dict(self.per_site), **kw)

    def __repr__(self):
        return f"Schedule({self.per_site!r}, default={self.default!r}, pickle={self.pickle}, mode={self.mode!r})"

    # -- internals used by the Parallel stand-ins ---------------------------
    def _open_site(self, n: int, return_as: str, n_jobs, backend: str, parallel_backend: bool,
                   label: str | None = None) -> SiteRecord:
        nested = self._depth > 0
        seq = None
        if not nested:
            seq = self._next_seq
            self._next_seq += 1
        rec = SiteRecord(seq=seq, n=n, return_as=return_as, n_jobs=n_jobs, nested=nested,
                         has_menu=(return_as == "generator_unordered" and parallel_backend and not nested),
                         backend=backend, label=label)
        self.trace.append(rec)
        return rec


def job_label(jobs) -> str | None:
    """Name of the function the first job of a site really runs: wrappers that carry the
    actual (func, args, kwargs) job among their arguments (parallel()'s index tagging,
    _dict_job) are looked through."""
    if not jobs:
        return None
    job = jobs[0]
    for _ in range(4):
        inner = [a for a in tuple(job[1]) + tuple(job[2].values())
                 if isinstance(a, tuple) and len(a) == 3 and callable(a[0]) and isinstance(a[2], dict)]
        if not inner:
            break
        job = inner[0]
    f = job[0]
    return getattr(f, "__name__", None) or getattr(f, "__qualname__", None) or type(f).__name__


def _check_perm(order, n: int) -> list:
    order = list(order)
    if sorted(order) != list(range(n)):
        raise ScheduleError(f"explicit order {order} is not a permutation of range({n})")
    return order


def enumerate_schedules(n_jobs_at_sites, max_deviations: int = 2, *, full_upto: int = 5,
                        named: Iterable[str] = NAMED_ORDERS, joint: bool = False,
                        **schedule_opts) -> Iterator[Schedule]:
    """Schedules to explore for a run whose sites are known (from a recording run).

    n_jobs_at_sites  list of job counts (seq = position; use 0/None for sites without a
                     menu), or {seq: n}, or SiteRecords / (seq, n, return_as) keys as
                     returned by ``Schedule.sites()`` / ``Schedule.trace``
    per site         ``site_schedules(n, max_deviations, full_upto, named)``
    joint=False      one site is perturbed at a time, all others deliver in submission
                     order; the all-default schedule comes first and only once
                     (count = 1 + sum_i (|S_i| - 1))
    joint=True       the full product of the per-site sets (count = prod_i |S_i|)
    schedule_opts    passed to every Schedule (pickle=, mode=, eager=, ...)
    """
    sites: dict = {}
    if isinstance(n_jobs_at_sites, dict):
        sites = {int(k): v for k, v in n_jobs_at_sites.items()}
    else:
        for pos, item in enumerate(n_jobs_at_sites):
            if isinstance(item, SiteRecord):
                if not item.nested and item.has_menu:
                    sites[item.seq] = item.n
            elif isinstance(item, (tuple, list)):
                sites[int(item[0])] = int(item[1])
            else:
                sites[pos] = item
    sites = {s: int(n) for s, n in sorted(sites.items()) if n}
    per = {s: site_schedules(n, max_deviations, full_upto, named) for s, n in sites.items()}
    if joint:
        keys = list(per)
        for combo in itertools.product(*(per[s] for s in keys)):
            yield Schedule({s: ch for s, ch in zip(keys, combo) if ch}, **schedule_opts)
        return
    yield Schedule({}, **schedule_opts)
    for s, lst in per.items():
        for ch in lst:
            if ch:
                yield Schedule({s: ch}, **schedule_opts)


# --------------------------------------------------------------------------
# installation into accelforge.util.parallel
# --------------------------------------------------------------------------

_STACK: list = []  # [(schedule, options)]


def parallel_module():
    """The module (``accelforge.util.parallel`` the attribute is the function)."""
    return importlib.import_module(PARALLEL_MODULE)


def current_schedule() -> Schedule:
    if not _STACK:
        raise ScheduleError("no schedule installed (use `with installed(schedule):`)")
    return _STACK[-1][0]


def _current_options() -> dict:
    return _STACK[-1][1]


@contextlib.contextmanager
def _install(cls, schedule: Schedule | None, n_jobs, options: dict):
    mod = parallel_module()
    schedule = Schedule() if schedule is None else schedule
    schedule.reset()
    saved = (mod.Parallel, mod.N_PARALLEL_PROCESSES, mod.PARALLELIZE)
    _STACK.append((schedule, options))
    mod.Parallel = cls
    try:
        if n_jobs is not None:
            mod.set_n_parallel_jobs(n_jobs)
        yield schedule
    finally:
        mod.Parallel, mod.N_PARALLEL_PROCESSES, mod.PARALLELIZE = saved
        _STACK.pop()


def installed(schedule: Schedule | None = None, n_jobs: int | None = None):
    """Context manager: ``accelforge.util.parallel.Parallel`` is ``VirtualParallel``
    driven by ``schedule`` (its trace is reset on entry).  ``n_jobs`` (optional) is
    passed to ``set_n_parallel_jobs``.  On exit the original ``Parallel`` and the
    n_jobs globals (N_PARALLEL_PROCESSES, PARALLELIZE) are restored.  Yields the
    schedule.  Generators returned by ``parallel()`` must be consumed inside."""
    return _install(VirtualParallel, schedule, n_jobs, {})


def real_backend(schedule: Schedule | None = None, n_jobs: int | None = None,
                 step: float = DEFAULT_STEP, batch_size=1, lead: float | None = None,
                 force: str = "all"):
    """Like ``installed`` but the jobs run on the REAL joblib backend (loky), each
    wrapped so that it finishes ``(rank in the schedule + 1) * step`` seconds after a
    start signal common to the site (see ``forced_offsets``), which forces the schedule's
    completion order on the real workers.  ``step=0``: free running (no sleeps), still recorded.
    The completion order actually measured (worker-side monotonic timestamps) is put
    in ``SiteRecord.completed`` / ``.achieved``.  ``batch_size=1`` keeps joblib's
    auto-batching from gluing jobs together (pass "auto" for joblib's default); ``lead``
    (default: one step) is the time between opening a site and its start signal T0.
    ``force="all"`` forces every site (sites without a spec: submission order);
    ``force="listed"`` forces only the sites named in ``schedule.per_site`` and lets
    all other sites run free (whole-mapper runs with many sites: only the perturbed
    site pays the sleeps)."""
    if force not in ("all", "listed"):
        raise ValueError(f"force must be 'all' or 'listed', not {force!r}")
    return _install(RealParallel, schedule, n_jobs,
                    {"step": step, "batch_size": batch_size, "lead": step if lead is None else lead,
                     "force": force})


# --------------------------------------------------------------------------
# the virtual backend
# --------------------------------------------------------------------------

def _cloudpickle():
    import cloudpickle

    return cloudpickle


def _run_isolated(func, args, kwargs):
    """Run one job in a fresh fork of this process; the result (or exception) comes
    back through a pipe, cloudpickled."""
    cp = _cloudpickle()
    r, w = os.pipe()
    pid = os.fork()
    if pid == 0:  # child
        code = 0
        try:
            os.close(r)
            try:
                out = ("ok", func(*args, **kwargs))
            except BaseException as e:  # noqa: BLE001 - shipped to the parent
                out = ("err", e)
            try:
                data = cp.dumps(out)
            except BaseException as e:  # noqa: BLE001
                data = cp.dumps(("err", ScheduleError(f"isolated job result not picklable: {e!r}")))
            with os.fdopen(w, "wb") as fh:
                fh.write(data)
        except BaseException:  # noqa: BLE001
            code = 1
        finally:
            os._exit(code)
    os.close(w)
    chunks = []
    with os.fdopen(r, "rb") as fh:
        while True:
            b = fh.read(1 << 20)
            if not b:
                break
            chunks.append(b)
    os.waitpid(pid, 0)
    data = b"".join(chunks)
    if not data:
        raise ScheduleError("isolated job died without a result")
    kind, val = cp.loads(data)
    if kind == "err":
        raise val
    return val


def _validate_call(n_jobs, return_as):
    if return_as not in RETURN_AS:
        raise ValueError(f'Expected `return_as` parameter to be a string equal to "list",'
                         f'"generator" or "generator_unordered", but got {return_as} instead.')
    if n_jobs == 0:
        raise ValueError("n_jobs == 0 in Parallel has no meaning")


class VirtualParallel:
    """Drop-in for ``joblib.Parallel`` whose delivery order is dictated by the
    installed ``Schedule`` (module docstring).  ``VirtualParallel(n_jobs=...,
    return_as=..., **ignored)(jobs)`` returns a list for ``return_as="list"`` and a
    generator otherwise."""

    def __init__(self, n_jobs=None, return_as="list", **kw):
        _validate_call(n_jobs, return_as)
        self.n_jobs = n_jobs
        self.return_as = return_as
        self.kw = kw

    def __enter__(self):
        return self

    def __exit__(self, *exc):
        return False

    def __call__(self, iterable):
        sched = current_schedule()
        jobs = list(iterable)
        for j in jobs:
            if not (isinstance(j, tuple) and len(j) == 3 and callable(j[0])):
                raise TypeError(f"job is not a (func, args, kwargs) tuple: {j!r}")
        n = len(jobs)
        parallel_backend = self.n_jobs not in (None, 1)
        rec = sched._open_site(n, self.return_as, self.n_jobs, "virtual", parallel_backend, job_label(jobs))
        prefix = sched.resolve(rec.seq, n, jobs, rec.has_menu)
        use_pickle = sched.pickle and parallel_backend
        if use_pickle:
            cp = _cloudpickle()
            payloads = [cp.dumps(j) for j in jobs]  # snapshot at submission, as loky does
        else:
            payloads = jobs
        gen = self._deliver(sched, rec, prefix, payloads, use_pickle, parallel_backend)
        if sched.eager or self.return_as == "list":
            out = list(gen)
            return out if self.return_as == "list" else iter(out)
        return gen

    def _execute(self, sched, rec, idx, payload, use_pickle, parallel_backend):
        if use_pickle:
            cp = _cloudpickle()
            func, args, kwargs = cp.loads(payload)
        else:
            func, args, kwargs = payload
        rec.executed.append(idx)
        sched._depth += 1
        try:
            if sched.mode == "isolated" and parallel_backend and not rec.nested:
                # (a site opened inside a job already runs in that job's fork)
                return _run_isolated(func, args, kwargs)  # result crossed a pickle boundary
            res = func(*args, **kwargs)
        finally:
            sched._depth -= 1
        if use_pickle:
            res = cp.loads(cp.dumps(res))
        return res

    def _deliver(self, sched, rec, prefix, payloads, use_pickle, parallel_backend):
        n = rec.n
        pending = list(range(n))
        for p in range(n):
            if rec.has_menu:
                c = prefix[p] if p < len(prefix) else 0
                if not 0 <= c < len(pending):  # resolve() validated; defensive
                    raise ScheduleError(f"choice {c} out of range at delivery point {p} of site {rec.key()}")
                if sched.record_menus:
                    rec.menus.append(tuple(pending))
            else:
                c = 0
            idx = pending.pop(c)
            res = self._execute(sched, rec, idx, payloads[idx], use_pickle, parallel_backend)
            payloads[idx] = None
            rec.choices.append(c)
            rec.order.append(idx)
            if p == n - 1:
                rec.done = True
            yield res
        rec.done = True


# --------------------------------------------------------------------------
# the real backend with a forced completion order
# --------------------------------------------------------------------------

def forced_offsets(order: Iterable[int], workers: int, step: float = DEFAULT_STEP) -> list:
    """offset[j] (seconds after the common start signal T0) at which job j has to finish
    so that the jobs complete in ``order`` with ``step`` seconds between completions:
    the job of rank r finishes at T0 + (r+1)*step.  With K FIFO workers job j >= K only
    starts when the (j-K+1)-th completion frees a worker, i.e. at T0 + (j-K+1)*step, which
    must be before its own deadline: rank(j) >= j-K+1, i.e.
    ``min_workers_for(order) <= workers``; otherwise ScheduleError (infeasible order).
    Deadlines are absolute (not "sleep x after my own start"), so dispatch latencies do
    not accumulate."""
    order = list(order)
    if min_workers_for(order) > workers:
        raise ScheduleError(f"completion order {order} needs {min_workers_for(order)} workers, have {workers}")
    rank = {j: r for r, j in enumerate(order)}
    return [(rank[j] + 1) * step for j in range(len(order))]


def _timed_job(idx, deadline, func, args, kwargs):
    """Runs in the real worker: the job, then sleep until the absolute deadline
    (time.monotonic() is CLOCK_MONOTONIC, system wide on Linux; None = no sleep)."""
    res = func(*args, **kwargs)
    if deadline is not None:
        rest = deadline - time.monotonic()
        while rest > 0:
            time.sleep(rest)
            rest = deadline - time.monotonic()
    return idx, time.monotonic(), res


def _warm_job(modules, seconds):
    for m in modules:
        importlib.import_module(m)
    time.sleep(seconds)
    return os.getpid()


def warm_real_backend(n_jobs: int, modules: Iterable[str] = (PARALLEL_MODULE,),
                      seconds: float = 0.25, rounds: int = 2, timeout: float = 60.0) -> int:
    """Start the loky workers for ``n_jobs`` and import ``modules`` in each of them, so
    that worker start-up / first-import latencies (seconds on a loaded box) do not
    disturb the engineered sleeps of the first forced run.  Rounds of n_jobs sleeping
    jobs are submitted until one single round was served by n_jobs distinct worker
    processes (i.e. all of them are up and have imported the modules) and at least
    ``rounds`` rounds were run, or ``timeout`` seconds have passed.  Returns the number of
    distinct workers of the last round."""
    import joblib

    k = joblib.effective_n_jobs(n_jobs)
    t_end = time.monotonic() + timeout
    done = 0
    while True:
        pids = set(joblib.Parallel(n_jobs=n_jobs, batch_size=1)(
            (_warm_job, (tuple(modules), seconds), {}) for _ in range(k)))
        done += 1
        if (len(pids) >= k and done >= rounds) or time.monotonic() > t_end:
            return len(pids)


def shutdown_real_backend():
    """Stop the reusable loky executor (if any) and its workers.  Call it before the
    working directory the workers were started in disappears: loky re-spawns workers
    lazily and a new worker chdir()s to that directory."""
    try:
        from joblib.externals.loky import reusable_executor as _re
    except Exception:  # noqa: BLE001
        return
    ex = getattr(_re, "_executor", None)
    if ex is not None:
        ex.shutdown(wait=True, kill_workers=True)


class RealParallel:
    """``joblib.Parallel`` behind the same recording interface; see ``real_backend``."""

    def __init__(self, n_jobs=None, return_as="list", **kw):
        _validate_call(n_jobs, return_as)
        self.n_jobs = n_jobs
        self.return_as = return_as
        self.kw = kw

    def __call__(self, iterable):
        import joblib

        sched = current_schedule()
        opts = _current_options()
        step = opts.get("step", DEFAULT_STEP)
        jobs = list(iterable)
        n = len(jobs)
        parallel_backend = self.n_jobs not in (None, 1)
        rec = sched._open_site(n, self.return_as, self.n_jobs, "real", parallel_backend, job_label(jobs))
        # on the real backend the *completion* order can be forced on ordered sites too
        prefix = sched.resolve(rec.seq, n, jobs, has_menu=parallel_backend and not rec.nested)
        order = choices_to_order(prefix, n)
        listed = opts.get("force", "all") == "all" or (rec.seq is not None and rec.seq in sched.per_site)
        if step and parallel_backend and n and listed:
            offs = forced_offsets(order, joblib.effective_n_jobs(self.n_jobs), step)
            t0 = time.monotonic() + opts.get("lead", step)  # common start signal, after dispatch
            deadlines = [t0 + o for o in offs]
            rec.intended = order
        else:
            deadlines = [None] * n
        wrapped = [(_timed_job, (i, deadlines[i], f, a, k), {}) for i, (f, a, k) in enumerate(jobs)]
        kw = dict(self.kw)
        kw.setdefault("batch_size", opts.get("batch_size", 1))
        out = joblib.Parallel(n_jobs=self.n_jobs, return_as=self.return_as, **kw)(wrapped)
        gen = self._untag(rec, out)
        return list(gen) if self.return_as == "list" else gen

    @staticmethod
    def _untag(rec, out):
        stamps = {}
        for idx, t_done, res in out:
            stamps[idx] = t_done
            rec.order.append(idx)
            if len(rec.order) == rec.n:
                RealParallel._finish(rec, stamps)
            yield res
        RealParallel._finish(rec, stamps)

    @staticmethod
    def _finish(rec, stamps):
        rec.done = len(rec.order) == rec.n
        rec.completed = sorted(stamps, key=lambda i: (stamps[i], i))
        if rec.intended is not None:
            rec.achieved = rec.completed == rec.intended and (
                rec.return_as != "generator_unordered" or rec.order == rec.intended)


def conformance_run(fn: Callable[[], Any], schedule: Schedule, *, n_jobs: int | None = None,
                    step: float = DEFAULT_STEP, retries: int = 2,
                    equal: Callable[[Any, Any], bool] | None = None, force: str = "all") -> dict:
    """Run ``fn()`` (which drives accelforge and consumes any generator it gets) once
    under ``installed(schedule)`` and once under ``real_backend(schedule, step)`` and
    compare.  If the real workers did not complete in the intended order (timing
    noise) the real run is repeated with a doubled step, ``retries`` times.  ``force``:
    see ``real_backend``.

    Returns {"virtual", "real": fn's values (or "raise:..." strings), "equal",
    "achieved": the real completion order was the schedule's at every site,
    "same_sites": both runs opened the same top-level (seq, n, return_as) sites (sites
    opened inside jobs are invisible on the real backend: they live in the workers),
    "virtual_trace"/"real_trace": [SiteRecord.to_json()], "step", "attempts"}."""

    raised = []

    def call():
        try:
            return fn()
        except ScheduleError:
            raise
        except Exception as e:  # an implementation exception is an observation
            raised.append(e)
            return f"raise:{type(e).__name__}:{e}"

    sv = schedule.clone()
    with installed(sv, n_jobs):
        v = call()
    vt = [r.to_json() for r in sv.trace]
    attempts = 0
    while True:
        attempts += 1
        sr = schedule.clone()
        del raised[:]
        with real_backend(sr, n_jobs, step, force=force):
            r = call()
        forced = [x for x in sr.trace if x.intended is not None]
        achieved = all(x.achieved for x in forced)
        if achieved or attempts > retries or raised:  # an exception is not timing noise
            break
        step *= 2
    eq = (v == r) if equal is None else bool(equal(v, r))
    return {"virtual": v, "real": r, "equal": eq, "achieved": achieved,
            "same_sites": ([x.key() for x in sv.trace if not x.nested]
                           == [x.key() for x in sr.trace if not x.nested]),
            "virtual_trace": vt, "real_trace": [x.to_json() for x in sr.trace],
            "step": step, "attempts": attempts}
