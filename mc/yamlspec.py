"""Duck-typed stand-ins for specs.Arch / specs.WL backed by YAML files of the repository's
examples (used by C18 for the spatial-fanout architectures).  They provide exactly what
family.run_mapper / specs.build_spec need: `.yaml()` (text, may contain jinja) and, for the
architecture, `.memories` (objects with `.name`).

Variants are expressed as textual edits (old, new), each of which must match exactly once, so a
change of the example files cannot silently turn a variant into a no-op.
"""

from __future__ import annotations

import re
from dataclasses import dataclass
from types import SimpleNamespace

from mc import treehash


def examples_dir():
    return treehash.repo_dir() / "examples"


@dataclass(frozen=True)
class YamlArch:
    relpath: str  # relative to <repo>/examples
    edits: tuple = ()  # ((old, new), ...)

    def yaml(self) -> str:
        txt = (examples_dir() / self.relpath).read_text()
        for old, new in self.edits:
            if txt.count(old) != 1:
                raise ValueError(f"edit pattern {old!r} occurs {txt.count(old)} times in {self.relpath}")
            txt = txt.replace(old, new)
        return txt if txt.endswith("\n") else txt + "\n"

    @property
    def memories(self):
        return [SimpleNamespace(name=n) for n in
                re.findall(r"- !Memory\s*\n\s*name:\s*(\w+)", self.yaml())]


@dataclass(frozen=True)
class YamlWL:
    relpath: str
    jinja: tuple = ()  # ((name, value), ...)

    def yaml(self) -> str:
        head = "".join(f"{{% set {k} = {v!r} %}}\n" for k, v in self.jinja)
        txt = (examples_dir() / self.relpath).read_text()
        return head + (txt if txt.endswith("\n") else txt + "\n")
