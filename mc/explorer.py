"""Stateless, exhaustive choice-sequence explorer (DESIGN.md section 3.1).

A check describes a finite *choice tree*:

    tree(prefix: tuple) -> list | None
        the menu at the next choice point (simplest alternative first), or
        None when ``prefix`` is a complete configuration.

and a *body* that drives the real implementation on one complete configuration
and compares it with the reference model:

    body(config: tuple) -> Result | None

The explorer walks the whole tree depth first (never samples), counts

    transitions  edges of the choice tree traversed (internal prefixes included)
    states       distinct canonical complete configurations
    evaluations  bodies executed (calls into the implementation)
    validated    executions in which an implementation observation was compared
                 with a reference observation
    nontrivial   distinct configurations non-trivial by the check's own rule
    outcomes     distinct canonical observations

and shards the first ``shard_depth`` levels over forked worker processes.  The
seed never draws anything: it only rotates the order in which shards are dealt.
"""

from __future__ import annotations

import hashlib
import json
import multiprocessing as mp
import os
import time
import traceback
from dataclasses import dataclass, field
from typing import Any, Callable, Iterable

N_WORKERS = int(os.environ.get("VERIF_WORKERS", "16"))


def jhash(x: Any) -> int:
    """Process-independent 64-bit hash of a JSON-able canonical form."""
    s = x if isinstance(x, (bytes, str)) else json.dumps(x, sort_keys=True, default=repr)
    if isinstance(s, str):
        s = s.encode()
    return int.from_bytes(hashlib.blake2b(s, digest_size=8).digest(), "big")


@dataclass
class Result:
    """What one execution of the body reports back to the explorer."""

    outcome: Any = None  # canonical observation (hashable / JSON-able)
    nontrivial: bool = False
    validated: bool = True  # an impl-vs-reference comparison took place
    violation: dict | None = None  # {"observed":…, "expected":…, "note":…, "family":…}
    evaluations: int = 1  # calls into the implementation made by this body
    sample: Any = None  # human readable configuration (kept for a few)
    canon: Any = None  # canonical configuration, None => the config itself
    outcome_class: str | None = None  # coarse class counted in evidence


@dataclass
class Stats:
    evaluations: int = 0
    transitions: int = 0
    configs: int = 0
    validated: int = 0
    nontrivial: int = 0
    state_hashes: set = field(default_factory=set)
    nontrivial_hashes: set = field(default_factory=set)
    outcome_hashes: set = field(default_factory=set)
    outcome_classes: dict = field(default_factory=dict)
    violations: list = field(default_factory=list)
    samples: list = field(default_factory=list)
    nontrivial_samples: list = field(default_factory=list)
    errors: list = field(default_factory=list)
    n_violations: int = 0
    max_depth: int = 0
    violation_families: dict = field(default_factory=dict)

    def merge(self, o: "Stats", keep_violations: int = 50):
        self.evaluations += o.evaluations
        self.transitions += o.transitions
        self.configs += o.configs
        self.validated += o.validated
        self.nontrivial += o.nontrivial
        self.state_hashes |= o.state_hashes
        self.nontrivial_hashes |= o.nontrivial_hashes
        self.outcome_hashes |= o.outcome_hashes
        for k, v in o.outcome_classes.items():
            self.outcome_classes[k] = self.outcome_classes.get(k, 0) + v
        self.n_violations += o.n_violations
        for v in o.violations:
            fam = v.get("family") or "-"
            have = sum(1 for w in self.violations if (w.get("family") or "-") == fam)
            if have < 3 and len(self.violations) < keep_violations * 3:
                self.violations.append(v)
        for k, v in o.violation_families.items():
            self.violation_families[k] = self.violation_families.get(k, 0) + v
        for s in o.samples:
            if len(self.samples) < 3:
                self.samples.append(s)
        for s in o.nontrivial_samples:
            if len(self.nontrivial_samples) < 3:
                self.nontrivial_samples.append(s)
        self.errors.extend(o.errors[: max(0, 5 - len(self.errors))])
        self.max_depth = max(self.max_depth, o.max_depth)


def dfs(tree: Callable, prefix: tuple = ()) -> Iterable[tuple]:
    """Yield ('edge', prefix) for every traversed edge and ('leaf', config)."""
    stack = [prefix]
    while stack:
        p = stack.pop()
        menu = tree(p)
        if menu is None:
            yield "leaf", p
            continue
        # reversed so the simplest alternative is explored first
        for alt in reversed(list(menu)):
            yield "edge", p
            stack.append(p + (alt,))


def _record(st: Stats, cfg: tuple, r: Result | None, distinct_by_construction: bool,
            max_keep: int):
    st.configs += 1
    st.max_depth = max(st.max_depth, len(cfg))
    if r is None:
        return
    st.evaluations += r.evaluations
    if r.validated:
        st.validated += 1
    canon = r.canon if r.canon is not None else cfg
    h = None
    if not distinct_by_construction:
        h = jhash(canon)
        st.state_hashes.add(h)
    if r.nontrivial:
        if distinct_by_construction:
            st.nontrivial += 1
        else:
            st.nontrivial_hashes.add(h)
        if len(st.nontrivial_samples) < 2 and r.sample is not None:
            st.nontrivial_samples.append(r.sample)
    if r.outcome is not None:
        st.outcome_hashes.add(jhash(r.outcome))
    if r.outcome_class is not None:
        st.outcome_classes[r.outcome_class] = st.outcome_classes.get(r.outcome_class, 0) + 1
    if len(st.samples) < 2 and r.sample is not None:
        st.samples.append(r.sample)
    if r.violation is not None:
        st.n_violations += 1
        fam = r.violation.get("family") or "-"
        st.violation_families[fam] = st.violation_families.get(fam, 0) + 1
        if sum(1 for w in st.violations if (w.get("family") or "-") == fam) < 3 and len(st.violations) < max_keep * 3:
            v = dict(r.violation)
            v.setdefault("config", r.sample if r.sample is not None else list(cfg))
            v.setdefault("choices", _jsonable(cfg))
            st.violations.append(v)


def _jsonable(x):
    try:
        json.dumps(x)
        return x
    except TypeError:
        return json.loads(json.dumps(x, default=repr))


_G: dict = {}


def _run_shard(prefix):
    tree, body, dbc, max_keep = _G["tree"], _G["body"], _G["dbc"], _G["max_keep"]
    st = Stats()
    try:
        for kind, p in dfs(tree, prefix):
            if kind == "edge":
                st.transitions += 1
                continue
            try:
                r = body(p)
            except Exception as e:  # harness error: never silently dropped
                st.errors.append(
                    {"config": _jsonable(list(p)), "error": repr(e),
                     "trace": traceback.format_exc()[-2000:]}
                )
                st.configs += 1
                continue
            _record(st, p, r, dbc, max_keep)
    except Exception as e:
        st.errors.append({"config": _jsonable(list(prefix)), "error": repr(e),
                          "trace": traceback.format_exc()[-2000:]})
    return st


def explore(
    tree: Callable,
    body: Callable,
    *,
    seed: int = 0,
    shard_depth: int = 1,
    workers: int | None = None,
    distinct_by_construction: bool = False,
    max_keep_violations: int = 20,
    deadline: float | None = None,
    init: Callable | None = None,
) -> Stats:
    """Explore the whole choice tree.  Returns merged Stats.

    ``distinct_by_construction``: the tree never produces the same canonical
    configuration twice (plain product spaces); states are then counted without
    keeping a hash set (needed for 10^7-configuration spaces).
    """
    workers = N_WORKERS if workers is None else workers
    # unroll the first shard_depth levels
    total = Stats()
    frontier = [()]
    for _ in range(shard_depth):
        nxt = []
        for p in frontier:
            menu = tree(p)
            if menu is None:
                nxt.append(p)  # already complete; the shard is the leaf itself
                continue
            for alt in menu:
                total.transitions += 1
                nxt.append(p + (alt,))
        if nxt == frontier:
            break
        frontier = nxt
    shards = frontier
    if shards:
        k = seed % len(shards)
        shards = shards[k:] + shards[:k]
    _G.update(tree=tree, body=body, dbc=distinct_by_construction, max_keep=max_keep_violations)
    capped = False
    if workers <= 1 or len(shards) <= 1:
        if init:
            init()
        for s in shards:
            total.merge(_run_shard(s))
            if deadline and time.time() > deadline:
                capped = True
                break
    else:
        ctx = mp.get_context("fork")
        with ctx.Pool(min(workers, len(shards)), initializer=init) as pool:
            for st in pool.imap_unordered(_run_shard, shards, chunksize=1):
                total.merge(st)
                if deadline and time.time() > deadline:
                    capped = True
                    pool.terminate()
                    break
    total.capped = capped  # type: ignore[attr-defined]
    if distinct_by_construction:
        total.n_states = total.configs  # type: ignore[attr-defined]
    else:
        total.n_states = len(total.state_hashes)  # type: ignore[attr-defined]
        total.nontrivial = len(total.nontrivial_hashes)
    return total


def product_tree(*levels):
    """Choice tree of a plain product; a level may be a list or f(prefix)->list."""

    def tree(prefix):
        i = len(prefix)
        if i == len(levels):
            return None
        lv = levels[i]
        return lv(prefix) if callable(lv) else lv

    return tree


def pmap(fn: Callable, items: list, workers: int | None = None, init=None) -> list:
    """Ordered fork-pool map (for checks that shard by hand)."""
    workers = N_WORKERS if workers is None else workers
    if workers <= 1 or len(items) <= 1:
        if init:
            init()
        return [fn(x) for x in items]
    _G["pmap_fn"] = fn
    ctx = mp.get_context("fork")
    with ctx.Pool(min(workers, len(items)), initializer=init) as pool:
        return pool.map(_pmap_call, items, chunksize=1)


def _pmap_call(x):
    return _G["pmap_fn"](x)
