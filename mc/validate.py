"""Structural validator for LoopTrees returned by the mapper (C03, C16).

Written against the LoopTree only (notation of mc/afx.py, spatial loops as
("P", var, tile, component, dim)) and the harness' own description of the spec
(mc/specs.py); nothing is taken from the mapper's internal tables.
Returns a list of problem strings (empty = valid).
"""

from __future__ import annotations

from mc import specs as S
from mc.ref import looptree_exec as X
from mc.ref import mapspace as MS


def paths(tree):
    """root-to-compute paths (lists of non-split nodes), one per compute."""
    out = []

    def rec(nodes, acc):
        for i, n in enumerate(nodes):
            if n[0] == "SEQ":
                for b in n[1]:
                    rec(b, acc + [x for x in nodes[:i] if x[0] != "SEQ"])
                return
        out.append(acc + list(nodes))

    rec(list(tree), [])
    return out


def validate(tree, arch: S.Arch, wl: S.WL, *, max_fused_loops=float("inf"), max_fused_per_var=1,
             fanouts=None, loop_bounds=None, persistent=()):
    problems = []
    ps = paths(tree)
    bounds = dict(wl.bounds)
    levels = [m.name for m in arch.holders]
    lidx = {l: i for i, l in enumerate(levels)}
    # each Einsum exactly once
    computed = [n[1] for p in ps for n in p if n[0] == "C"]
    for e in wl.einsum_names:
        if computed.count(e) != 1:
            problems.append(f"einsum {e} computed {computed.count(e)} times")
    for p in ps:
        cs = [n for n in p if n[0] == "C"]
        if len(cs) != 1 or p[-1][0] != "C":
            problems.append("path does not end in exactly one compute")
            continue
        e = p[-1][1]
        ts = wl.tensors_of(e)
        rvs = sorted({rv for _, rk, _ in ts for rv in rk})
        # divisor chains
        for rv in rvs:
            cur = bounds[rv]
            for n in p:
                if n[0] in ("T", "P") and n[1] == rv:
                    tile = n[2]
                    if not isinstance(tile, int) or tile < 1 or cur % tile != 0 or tile > cur:
                        problems.append(f"{e}: loop over {rv} with tile {tile} does not divide enclosing tile {cur}")
                        break
                    cur = tile
            if cur != 1:
                problems.append(f"{e}: rank variable {rv} not iterated down to 1 (innermost tile {cur})")
        for n in p:
            if n[0] in ("T", "P") and n[1] not in rvs:
                problems.append(f"{e}: loop over foreign rank variable {n[1]}")
        # keep / may_keep per level, evaluated top-down with the tensors actually held above
        tab, mk = MS.symtab(wl, e)
        held_at = {l: mk(n[2] for n in p if n[0] == "S" and n[1] == l and n[2] in tab["All"]) for l in levels}
        t2 = dict(tab)
        for m in arch.holders:
            keep = MS.eval_set(m.keep, t2) if m.keep is not None else tab["Nothing"]
            if m.may_keep is not None:
                may = MS.eval_set(m.may_keep, t2)
            else:
                may = tab["Nothing"] if m.keep is not None else tab["All"]
            h = held_at[m.name]
            if keep - h:
                problems.append(f"{e}: {m.name} must keep {sorted(keep - h)} but the mapping does not store them there")
            if h - (keep | may):
                problems.append(f"{e}: {m.name} stores {sorted(h - (keep | may))} outside keep|may_keep")
            t2[m.name] = h
        # every tensor has a holder; per-tensor hierarchy order
        for t, _, _ in ts:
            order = [lidx[n[1]] for n in p if n[0] == "S" and n[2] == t]
            if not order:
                problems.append(f"{e}: tensor {t} has no storage node")
            if order != sorted(order):
                problems.append(f"{e}: storage nodes of {t} violate the memory hierarchy order")
        # fused loops: loops above the first holder of an intermediate tensor
        inter = {t for t, _, _ in MS.intermediates(wl)}
        first_inter = [i for i, n in enumerate(p) if n[0] == "S" and n[2] in inter and
                       not any(m[0] == "S" and m[2] == n[2] for m in p[:i])]
        if first_inter:
            last = max(first_inter)
            fl = [n for n in p[:last] if n[0] in ("T", "P")]
            if len(fl) > max_fused_loops:
                problems.append(f"{e}: {len(fl)} fused loops > max_fused_loops={max_fused_loops}")
            per = {}
            for n in fl:
                per[n[1]] = per.get(n[1], 0) + 1
            for rv, c in per.items():
                if c > max_fused_per_var:
                    problems.append(f"{e}: {c} fused loops over {rv} > {max_fused_per_var}")
        # spatial fanout
        if fanouts:
            use = {}
            cur = dict(bounds)
            for n in p:
                if n[0] in ("T", "P"):
                    if n[0] == "P":
                        key = (n[3], n[4])
                        use[key] = use.get(key, 1) * (cur[n[1]] // n[2])
                    cur[n[1]] = n[2]
            for key, u in use.items():
                if u > fanouts.get(key, 1):
                    problems.append(f"{e}: spatial loops use {u} instances of {key} > fanout {fanouts.get(key, 1)}")
        if loop_bounds:
            # loop_bounds: list of (component, dim, set of rank variables, operator, value);
            # operator in ==, <=, <, >=, > optionally prefixed by "product"
            import operator as _op
            ops = {"==": _op.eq, "<=": _op.le, "<": _op.lt, ">=": _op.ge, ">": _op.gt}
            cur = dict(bounds)
            sp = {}
            for n in p:
                if n[0] in ("T", "P"):
                    it = cur[n[1]] // n[2]
                    cur[n[1]] = n[2]
                    if n[0] == "P":
                        sp.setdefault((n[3], n[4]), []).append((n[1], it))
            for (comp, dim, rvset, oper, value) in loop_bounds:
                if isinstance(rvset, str):  # selector resolved against this Einsum's rank variables
                    if rvset == "ALL":
                        rvset = set(rvs)
                    elif rvset.startswith("NOT:"):
                        rvset = set(rvs) - {rvset[4:]}
                    elif rvset.startswith("ONLY:"):
                        rvset = {rvset[5:]} & set(rvs)
                mine =[(v, it) for v, it in sp.get((comp, dim), []) if v in rvset]
                if not mine:
                    continue
                if oper.startswith("product"):
                    prod = 1
                    for _, it in mine:
                        prod *= it
                    if not ops[oper[len("product"):]](prod, value):
                        problems.append(f"{e}: loop_bounds {sorted(rvset)} {oper} {value} of {comp}.{dim} violated: product {prod}")
                else:
                    for v, it in mine:
                        if not ops[oper](it, value):
                            problems.append(f"{e}: loop_bounds {sorted(rvset)} {oper} {value} of {comp}.{dim} violated: {v} has {it} iterations")
    # capacity
    if not any(n[0] == "P" for p in ps for n in p):
        peak = X.peak_occupancy(tree, arch, wl, persistent=persistent)
        for m in arch.memories:
            if str(m.size) != "inf" and float(peak[m.name]) > float(m.size) * (1 + 1e-9):
                problems.append(f"peak occupancy of {m.name} is {float(peak[m.name])} bits > size {m.size}")
    return problems
