"""Access layer to accelforge used by the model/mapper checks.

* ``Prepared``: a spec plus the per-Einsum evaluated specs / flattened arches so a
  concrete LoopTree can be evaluated by the real model in ~20 ms
  (``evaluate_mapping(spec, flattened_arches=…, evaluated_specs=…)``, the same
  entry the mapper uses for ``eval_in_detail``).
* our own tiny LoopTree notation -> accelforge ``Mapping`` objects:

      ("S", component, tensor)            storage / toll node
      ("T", rank_variable, tile_shape)    temporal loop
      ("C", einsum)                       compute (component taken from the arch)
      ("SEQ", [branch, branch, ...])      sequential split (each branch a list)
"""

from __future__ import annotations

import copy
import importlib
import os
from dataclasses import dataclass


def serial():
    pm = importlib.import_module("accelforge.util.parallel")
    pm.set_n_parallel_jobs(1)


@dataclass
class Prepared:
    spec: object
    flattened_arches: dict
    evaluated_specs: dict
    compute_name: str


def prepare(spec) -> Prepared:
    """Per-Einsum evaluated specs + flattened arches, as make_pmappings builds them."""
    serial()
    s = copy.deepcopy(spec)._spec_eval_expressions(eval_arch=False, eval_non_arch=True)
    fa, es = {}, {}
    cname = None
    for e in s.workload.einsum_names:
        one = (
            s._spec_eval_expressions(einsum_name=e, eval_arch=True, eval_non_arch=False)
            .calculate_component_costs(einsum_name=e, area=False)
            ._for_einsum(e)
            ._clear_component_models()
        )
        es[e] = one
        for flat in one._for_einsum(e)._get_flattened_architecture(einsum_name=e):
            fa[(e, flat[-1].name)] = flat
            cname = flat[-1].name
    return Prepared(spec, fa, es, cname)


def to_mapping(tree, compute_name="MAC"):
    from accelforge.frontend.mapping import (Compute, Mapping, Nested, Sequential, Storage,
                                             Temporal, Toll)

    def conv(nodes, tolls):
        out = []
        for n in nodes:
            k = n[0]
            if k == "S":
                cls = Toll if n[1] in tolls else Storage
                out.append(cls(tensors=[n[2]], component=n[1]))
            elif k == "T":
                out.append(Temporal(rank_variable=n[1], tile_shape=n[2]))
            elif k == "C":
                out.append(Compute(einsum=n[1], component=compute_name))
            elif k == "SEQ":
                out.append(Sequential(nodes=[Nested(nodes=conv(b, tolls)) for b in n[1]]))
            else:
                raise ValueError(n)
        return out

    tolls = getattr(tree, "tolls", ()) if not isinstance(tree, list) else ()
    return Mapping(nodes=conv(list(tree), tolls))


def evaluate_tree(prep: Prepared, tree, tolls=(), metrics=None):
    """Run the real model on one concrete LoopTree. Returns the Mappings object or
    raises whatever the implementation raises."""
    from accelforge.frontend.mapping import (Compute, Mapping, Nested, Sequential, Storage,
                                             Temporal, Toll)
    from accelforge.model.main import evaluate_mapping

    def conv(nodes):
        out = []
        for n in nodes:
            k = n[0]
            if k == "S":
                cls = Toll if n[1] in tolls else Storage
                out.append(cls(tensors=[n[2]], component=n[1]))
            elif k == "T":
                out.append(Temporal(rank_variable=n[1], tile_shape=n[2]))
            elif k == "P":
                from accelforge.frontend.mapping import Spatial
                out.append(Spatial(rank_variable=n[1], tile_shape=n[2], component=n[3], name=n[4]))
            elif k == "C":
                out.append(Compute(einsum=n[1], component=prep.compute_name))
            elif k == "SEQ":
                out.append(Sequential(nodes=[Nested(nodes=conv(b)) for b in n[1]]))
            else:
                raise ValueError(n)
        return out

    local = copy.deepcopy(prep.spec)
    if metrics is not None:
        local.model.metrics = metrics
    else:
        local.model.metrics = local.mapper.info_metrics
    local.mapping = Mapping(nodes=conv(list(tree)))
    return evaluate_mapping(local, flattened_arches=prep.flattened_arches,
                            evaluated_specs=prep.evaluated_specs)


def tree_str(tree) -> str:
    out = []
    for n in tree:
        if n[0] == "S":
            out.append(f"[{n[2]}@{n[1]}]")
        elif n[0] == "T":
            out.append(f"for {n[1]}/{n[2]}")
        elif n[0] == "P":
            out.append(f"par-{n[3]}.{n[4]} {n[1]}/{n[2]}")
        elif n[0] == "C":
            out.append(f"compute {n[1]}")
        elif n[0] == "SEQ":
            out.append("SEQ(" + " || ".join(tree_str(b) for b in n[1]) + ")")
    return " ".join(out)


def mapping_to_tree(mapping):
    """accelforge Mapping (as returned by the mapper, `_for_model=True`) -> our notation.
    Reservation nodes are dropped; spatial loops become ("P", var, tile, component, dim)."""
    from accelforge.frontend.mapping import (Compute, Reservation, Spatial, Split, Nested,
                                             Temporal, TensorHolder)

    def conv(nodes):
        out = []
        for n in nodes:
            if isinstance(n, Reservation):
                continue
            if isinstance(n, TensorHolder):
                for t in n.tensors:
                    out.append(("S", str(n.component), str(t)))
            elif isinstance(n, Temporal):
                out.append(("T", str(n.rank_variable), _num(n.tile_shape)))
            elif isinstance(n, Spatial):
                out.append(("P", str(n.rank_variable), _num(n.tile_shape), str(n.component),
                            str(n.name)))
            elif isinstance(n, Compute):
                out.append(("C", str(n.einsum)))
            elif isinstance(n, Split):
                out.append(("SEQ", [conv(b.nodes) for b in n.nodes]))
            elif isinstance(n, Nested):
                out.extend(conv(n.nodes))
            else:
                raise ValueError(f"unknown mapping node {type(n)}")
        return out

    return conv(mapping.nodes)


def _num(x):
    try:
        f = float(x)
        return int(f) if f == int(f) else f
    except Exception:
        return str(x)
