"""./check <ID> [--tier quick|thorough] [--replay PATH] [--list]"""

from __future__ import annotations

import argparse
import importlib
import json
import os
import shutil
import sys
import tempfile
import time
import traceback
from pathlib import Path

from . import evidence as ev
from .explorer import Stats, explore, jhash

ROOT = Path(__file__).resolve().parent.parent


class Ctx:
    def __init__(self, prop: str, tier: str, seed: int):
        self.prop = prop
        self.tier = tier
        self.quick = tier == "quick"
        self.seed = seed
        self.total = Stats()
        self.n_states = 0
        self.phases: list[dict] = []
        self.bounds: dict = {}
        self.notes: list[str] = []
        self.caps_hit: list[str] = []
        self.extra_cov: dict = {}
        self.t0 = time.time()
        self.scratch = tempfile.mkdtemp(prefix=f"verif-{prop}-")
        os.chdir(self.scratch)

    # ------------------------------------------------------------------
    def explore(self, name: str, tree, body, **kw) -> Stats:
        t = time.time()
        kw.setdefault("seed", self.seed)
        st = explore(tree, body, **kw)
        self.absorb(name, st, time.time() - t)
        return st

    def absorb(self, name: str, st: Stats, wall: float = 0.0):
        n_states = getattr(st, "n_states", None)
        if n_states is None:
            n_states = len(st.state_hashes) if st.state_hashes else st.configs
            st.nontrivial = len(st.nontrivial_hashes) if st.nontrivial_hashes else st.nontrivial
        if getattr(st, "capped", False):
            self.caps_hit.append(f"phase {name}: wall-clock cap hit")
        self.phases.append(
            {"phase": name, "configs": st.configs, "states": n_states,
             "transitions": st.transitions, "evaluations": st.evaluations,
             "validated": st.validated, "nontrivial": st.nontrivial,
             "distinct_outcomes": len(st.outcome_hashes), "violations": st.n_violations,
             "max_depth": st.max_depth, "wall_s": round(wall, 2)}
        )
        self.n_states += n_states
        nt = st.nontrivial
        self.total.merge(st)
        # merge() adds nontrivial counts; for hash-based phases recompute per phase
        self.total.nontrivial = sum(p["nontrivial"] for p in self.phases)
        return st

    def bound(self, **kw):
        self.bounds.update(kw)

    def note(self, s: str):
        self.notes.append(s)

    def cleanup(self):
        os.chdir("/")
        shutil.rmtree(self.scratch, ignore_errors=True)


def _forget_memo(reused_cache: bool):
    """Empty this run's memo directory so that the second of two replays recomputes."""
    root = os.environ.get("VERIF_CACHE_ROOT")
    if root and not reused_cache:
        for p in Path(root).iterdir():
            shutil.rmtree(p, ignore_errors=True)


def _viol_key(v: dict) -> str:
    if v.get("key"):
        return v["key"]
    return json.dumps(ev.jsonable(v.get("config")), sort_keys=True)


def main(argv=None):
    ap = argparse.ArgumentParser()
    ap.add_argument("prop", nargs="?")
    ap.add_argument("--tier", default=os.environ.get("VERIF_TIER", "quick"),
                    choices=["quick", "thorough"])
    ap.add_argument("--replay")
    ap.add_argument("--list", action="store_true")
    a = ap.parse_args(argv)
    if a.list:
        for p in sorted((ROOT / "mc" / "checks").glob("c[0-9]*.py")):
            print(p.stem.upper())
        return 0
    prop = a.prop.upper()
    seed = int(os.environ.get("VERIF_SEED", "0") or 0)
    # Memoised reference fronts / mapper runs live in a directory made for THIS invocation
    # and removed with it: every number in the evidence file is work this run performed on
    # the current working tree, whatever ran before.  (VERIF_CACHE_ROOT=<dir> keeps a
    # persistent one while developing a check; such evidence is marked reused_cache.)
    own_cache = None
    if not os.environ.get("VERIF_CACHE_ROOT"):
        own_cache = tempfile.mkdtemp(prefix=f"verif-cache-{prop}-")
        os.environ["VERIF_CACHE_ROOT"] = own_cache
    try:
        return _main(a, prop, seed, reused_cache=own_cache is None)
    finally:
        if own_cache:
            shutil.rmtree(own_cache, ignore_errors=True)


def _main(a, prop, seed, reused_cache=False):
    mod = importlib.import_module(f"mc.checks.{prop.lower()}")

    if a.replay:
        rec = json.loads(Path(a.replay).read_text())
        ctx = Ctx(prop, rec.get("tier", "quick"), seed)
        try:
            r1 = mod.replay(ctx, rec)
            _forget_memo(reused_cache)
            r2 = mod.replay(ctx, rec)
        finally:
            ctx.cleanup()
        o1 = json.dumps(ev.jsonable(r1), sort_keys=True)
        o2 = json.dumps(ev.jsonable(r2), sort_keys=True)
        if o1 != o2:
            print(f"NONDETERMINISTIC-REPLAY property={prop}")
            print(o1)
            print(o2)
            return 2
        print(json.dumps(ev.jsonable(r1), indent=1))
        if r1 and r1.get("violation"):
            print(f"VIOLATION property={prop} replay={a.replay}")
            return 1
        print(f"replay: property {prop} holds on this configuration")
        return 0

    ctx = Ctx(prop, a.tier, seed)
    ev.clear_replays(prop)
    harness_error = None
    try:
        mod.run(ctx)
    except Exception:
        harness_error = traceback.format_exc()
    finally:
        ctx.cleanup()
    wall = time.time() - ctx.t0
    tot = ctx.total

    known = ev.load_known(prop)
    unlisted, listed = [], {}
    for v in tot.violations:
        v["key"] = _viol_key(v)
        f = ev.match_known(v, known)
        if f is not None:
            listed.setdefault(f.get("id", f.get("what_fails")), (f, []))[1].append(v)
        else:
            unlisted.append(v)
    # violations beyond the kept ones (max_keep) are all counted; if some were
    # not kept we cannot tell whether they are listed -> they count as unlisted
    # Violations not kept individually are accounted for per family: a family is
    # listed only if a `known` entry names it.
    known_fams = {f.get("match", {}).get("family") for f in known if f.get("status") == "known"}
    kept_by_fam = {}
    for v in tot.violations:
        kept_by_fam[v.get("family") or "-"] = kept_by_fam.get(v.get("family") or "-", 0) + 1
    n_unkept = 0
    for fam, cnt in tot.violation_families.items():
        if fam not in known_fams:
            n_unkept += cnt - kept_by_fam.get(fam, 0)

    # determinism: re-execute each unlisted violation before reporting it
    if unlisted and hasattr(mod, "replay"):
        c2 = Ctx(prop, a.tier, seed)
        try:
            for v in unlisted[:5]:
                try:
                    v.setdefault("tier", a.tier)  # replay functions rebuild the tier's spec family
                    r1 = mod.replay(c2, v)
                    _forget_memo(reused_cache)
                    r2 = mod.replay(c2, v)
                    v["replay_deterministic"] = (
                        json.dumps(ev.jsonable(r1), sort_keys=True)
                        == json.dumps(ev.jsonable(r2), sort_keys=True))
                    v["replay_reproduces"] = bool(r1 and r1.get("violation"))
                except Exception as e:
                    v["replay_error"] = repr(e)
        finally:
            c2.cleanup()

    samples = (tot.nontrivial_samples[:2] + tot.samples[:2]) or [{"note": "no sample recorded"}]
    exhaustive = not ctx.caps_hit and harness_error is None and not tot.errors
    coverage = {
        "evaluations": tot.evaluations,
        "states": ctx.n_states,
        "transitions": tot.transitions,
        "traces_validated_against_impl": tot.validated,
        "distinct_nontrivial": tot.nontrivial,
        "distinct_outcomes": len(tot.outcome_hashes),
        "outcome_classes": tot.outcome_classes,
        "rule": getattr(mod, "RULE", ""),
        "samples": samples,
        "exhaustive": exhaustive,
        "bounds": ctx.bounds,
        "caps_hit": ctx.caps_hit,
        "phases": ctx.phases,
        "notes": ctx.notes,
        "known_findings_hit": sorted(map(str, listed)),
        "violation_families": tot.violation_families,
        "harness_errors": len(tot.errors) + (1 if harness_error else 0),
    }
    coverage.update(ctx.extra_cov)
    if reused_cache:
        coverage["reused_cache"] = os.environ.get("VERIF_CACHE_ROOT")
    try:
        ev.write_evidence(prop, a.tier, seed, coverage, list(getattr(mod, "ASSUMPTIONS", [])),
                          wall, len(unlisted) + n_unkept)
    except Exception:
        print("EVIDENCE-INVALID", traceback.format_exc())
        return 2

    for fid, (f, vs) in listed.items():
        print(f"KNOWN-FINDING: property={prop} {f.get('what_fails')} [{len(vs)} case(s) this run]")
    rc = 0
    for v in unlisted:
        path = ev.write_replay(prop, a.tier, v)
        print(f"VIOLATION property={prop} replay={path}")
        print("  " + json.dumps(ev.jsonable({k: v.get(k) for k in ('config', 'observed', 'expected', 'note')}))[:1500])
        rc = 1
    if n_unkept > 0:
        print(f"  (+{n_unkept} further violations not written out)")
        rc = 1
    if harness_error or tot.errors:
        print(f"HARNESS-ERROR property={prop}")
        if harness_error:
            print(harness_error)
        for e in tot.errors[:3]:
            print(json.dumps({"config": e.get("config"), "error": e.get("error")})[:600])
            print("   ..." + str(e.get("trace", ""))[-700:])
        rc = rc or 2
    if rc == 0:
        if tot.validated == 0 or len(tot.outcome_hashes) < 2 or tot.nontrivial < 2:
            print(f"VACUOUS property={prop}: validated={tot.validated} outcomes={len(tot.outcome_hashes)} nontrivial={tot.nontrivial}")
            rc = 2
    print(f"{prop} tier={a.tier} seed={seed} evaluations={tot.evaluations} states={ctx.n_states} "
          f"transitions={tot.transitions} validated={tot.validated} nontrivial={tot.nontrivial} "
          f"outcomes={len(tot.outcome_hashes)} violations={len(unlisted) + n_unkept} "
          f"known={len(listed)} exhaustive={exhaustive} wall={wall:.1f}s")
    return rc


if __name__ == "__main__":
    sys.exit(main())
