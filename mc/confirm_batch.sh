#!/bin/bash
# usage: confirm_batch.sh <batch-name> <seed-id>...
# Applies several independently produced seed patches (they touch different functions) to ONE scratch
# copy of /repo and runs the repository's test suite once on it (stable_pass of BASELINE.json);
# stable tests that fail (heavy regression tests hit the 900 s pytest timeout on a shared machine)
# are re-run on their own with a generous timeout.  Per-seed demos are run separately by
# confirm_demo.sh on single-patch copies (patched: must fail, pristine: must pass).
# Writes /verif/seeded/batch-<name>.log
B="$1"; shift; IDS="$@"
P="/tmp/af-batch-$B"; LOG="/verif/seeded/batch-$B.log"
rm -rf "$P"; mkdir -p "$P"; rsync -a --exclude .git --exclude '__pycache__' /repo/ "$P/"
{
echo "batch $B: seeds $IDS on /repo at $(git -C /repo rev-parse --short HEAD), $(date -u +%FT%TZ)"
for id in $IDS; do (cd "$P" && patch -p1 -s < "/verif/seeded/$id/patch.diff") && echo "patch $id applies: yes" || echo "patch $id applies: NO"; done
PYTHONPATH="$P" /verif/baseline_check.sh "$P" > "$P/baseline.out" 2>&1; brc=$?
grep -E "stable_pass|REGRESSION" "$P/baseline.out"; tail -1 "$P/baseline.out"
echo "baseline exit: $brc"
if [ $brc -ne 0 ]; then
  ids=$(grep REGRESSION "$P/baseline.out" | awk '{print $2}' | sed 's/^tests\.\(.*\)\.\([A-Za-z0-9_]*\)::/tests\/\1.py::\2::/; s/\./\//g; s/\/py::/.py::/')
  echo "re-running regressed stable tests individually (timeout 7200 s):"
  (cd "$P" && PYTHONPATH="$P" /venv/bin/python -m pytest -q -p no:cacheprovider --timeout=7200 $ids 2>&1 | tail -4)
fi
} > "$LOG" 2>&1
rm -rf "$P"
tail -5 "$LOG"
